"""E3: a small abstract interpreter over MIR facts.

Domain
  * integers are bit-vectors whose bits are 0, 1, an input bit x[i], its negation, or TOP;
  * comparisons of a whole input variable with a constant become symbolic predicates
    (interval constraints carried on the path);
  * arithmetic on a value that depends on at most SPLIT_MAX input bits is decided by complete
    case analysis over those bits (residue classes), otherwise the body *leaves the domain*
    (LeaveDomain) and the obligation is reported undischarged - never silently passed;
  * enums are concrete variants with abstract fields; references are immutable views.

evaluate(facts, body, args) enumerates every feasible path of a straight-line-plus-switch body
(callees inside the crate are inlined) and returns one Outcome per path:
  sigma        bindings input-bit -> 0/1 established by equality switches / case splits
  constraints  symbolic predicates assumed true on the path, e.g. ('y', 'Gt', 65535, True)
  excluded     [(bits, [values])]: "this masked value equals none of these constants"
  value        abstract return value
"""
import re
from engine import op_place, proj_key

SPLIT_MAX = 8
TOP = "T"


class LeaveDomain(Exception):
    pass


class Infeasible(Exception):
    pass


# ----------------------------------------------------------------------------------------
# values
# ----------------------------------------------------------------------------------------
class BV:
    __slots__ = ("w", "signed", "bits", "native")

    def __init__(self, w, signed, bits, native=None):
        self.w = w
        self.signed = signed
        self.bits = tuple(bits)   # index 0 = least significant
        self.native = signed if native is None else native     # signedness of the input variable these bits were created as
        assert len(self.bits) == w, (w, len(self.bits))

    @staticmethod
    def const(w, signed, v):
        v &= (1 << w) - 1
        return BV(w, signed, [(v >> i) & 1 for i in range(w)])

    @staticmethod
    def var(name, w, signed):
        return BV(w, signed, [("x", name, i) for i in range(w)])

    def is_const(self):
        return all(b in (0, 1) for b in self.bits)

    def value(self):
        v = 0
        for i, b in enumerate(self.bits):
            if b == 1:
                v |= 1 << i
        return v

    def svalue(self):
        v = self.value()
        if self.signed and v >= 1 << (self.w - 1):
            v -= 1 << self.w
        return v

    def vars(self):
        out = set()
        for b in self.bits:
            if isinstance(b, tuple):
                out.add((b[1], b[2]))
        return out

    def has_top(self):
        return any(b == TOP for b in self.bits)

    def whole_var(self):
        """name if this is exactly the un-negated input variable `name` at full width."""
        if not self.bits or not isinstance(self.bits[0], tuple):
            return None
        name = self.bits[0][1]
        for i, b in enumerate(self.bits):
            if b != ("x", name, i):
                return None
        return name

    def subst(self, sigma):
        nb = []
        for b in self.bits:
            if isinstance(b, tuple) and (b[1], b[2]) in sigma:
                v = sigma[(b[1], b[2])]
                nb.append(v if b[0] == "x" else 1 - v)
            else:
                nb.append(b)
        return BV(self.w, self.signed, nb, self.native)

    def __eq__(self, o):
        return isinstance(o, BV) and self.w == o.w and self.bits == o.bits

    def __hash__(self):
        return hash((self.w, self.bits))

    def __repr__(self):
        if self.is_const():
            return "%d:%s%d" % (self.svalue() if self.signed else self.value(), "i" if self.signed else "u", self.w)

        def t(b):
            if b in (0, 1):
                return str(b)
            if b == TOP:
                return "?"
            return ("" if b[0] == "x" else "!") + "%s%d" % (b[1], b[2])
        return "[" + " ".join(t(b) for b in reversed(self.bits)) + "]"


class Pred:
    """Symbolic boolean: `var OP const` (not yet decided on this path)."""
    __slots__ = ("var", "op", "c", "neg")

    def __init__(self, var, op, c, neg=False):
        self.var, self.op, self.c, self.neg = var, op, c, neg

    def __repr__(self):
        return "%s(%s %s %s)" % ("!" if self.neg else "", self.var, self.op, self.c)


class Enum:
    __slots__ = ("adt", "variant", "fields")

    def __init__(self, adt, variant, fields):
        self.adt, self.variant, self.fields = adt, variant, dict(fields)

    def __repr__(self):
        return "%s::%s%s" % (self.adt.rsplit("::", 1)[-1], self.variant, self.fields if self.fields else "")


class Tup:
    __slots__ = ("items",)

    def __init__(self, items):
        self.items = list(items)

    def __repr__(self):
        return "(%s)" % ", ".join(map(repr, self.items))


class Ref:
    __slots__ = ("v",)

    def __init__(self, v):
        self.v = v

    def __repr__(self):
        return "&%r" % (self.v,)


class Opaque:
    __slots__ = ("desc",)

    def __init__(self, desc):
        self.desc = desc

    def __repr__(self):
        return "<%s>" % self.desc


class Closure:
    __slots__ = ("path", "captures")

    def __init__(self, path, captures):
        self.path, self.captures = path, list(captures)

    def __repr__(self):
        return "closure<%s>" % self.path.rsplit("::", 2)[-1]


class FnItem:
    __slots__ = ("path", "full")

    def __init__(self, path, full):
        self.path, self.full = path, full

    def __repr__(self):
        return "fn<%s>" % self.path


class Outcome:
    def __init__(self, sigma, constraints, excluded, value):
        self.sigma = dict(sigma)
        self.constraints = list(constraints)
        self.excluded = list(excluded)
        self.value = value

    def __repr__(self):
        return "Outcome(sigma=%s, cons=%s, excl=%s, value=%r)" % (
            {"%s%d" % k: v for k, v in sorted(self.sigma.items())}, self.constraints,
            [(repr(b), vs) for b, vs in self.excluded], self.value)


INT_TY = re.compile(r"^(u|i)(8|16|32|64|128|size)$")


def int_ty(ty):
    m = INT_TY.match(ty)
    if not m:
        return None
    w = 64 if m.group(2) == "size" else int(m.group(2))
    return (w, m.group(1) == "i")


def subst_value(v, sigma):
    if isinstance(v, BV):
        return v.subst(sigma)
    if isinstance(v, Enum):
        return Enum(v.adt, v.variant, {k: subst_value(x, sigma) for k, x in v.fields.items()})
    if isinstance(v, Tup):
        return Tup([subst_value(x, sigma) for x in v.items])
    if isinstance(v, Ref):
        return Ref(subst_value(v.v, sigma))
    return v


# ----------------------------------------------------------------------------------------
# bit operations
# ----------------------------------------------------------------------------------------
def _neg(t):
    if t == 0:
        return 1
    if t == 1:
        return 0
    if t == TOP:
        return TOP
    return ("n" if t[0] == "x" else "x", t[1], t[2])


def _and(a, b):
    if a == 0 or b == 0:
        return 0
    if a == 1:
        return b
    if b == 1:
        return a
    if a == b:
        return a
    if a != TOP and b != TOP and a == _neg(b):
        return 0
    return TOP


def _or(a, b):
    if a == 1 or b == 1:
        return 1
    if a == 0:
        return b
    if b == 0:
        return a
    if a == b:
        return a
    if a != TOP and b != TOP and a == _neg(b):
        return 1
    return TOP


def _xor(a, b):
    if a == 0:
        return b
    if b == 0:
        return a
    if a == 1:
        return _neg(b)
    if b == 1:
        return _neg(a)
    if a == b and a != TOP:
        return 0
    if a != TOP and b != TOP and a == _neg(b):
        return 1
    return TOP


def cast_int(v, w, signed):
    if v.w >= w:
        bits = v.bits[:w]
    else:
        ext = v.bits[-1] if v.signed else 0
        bits = v.bits + (ext,) * (w - v.w)
    # a same-width cast of an input variable keeps its bits and changes their reading: remember how they were declared
    return BV(w, signed, bits, v.native if v.w == w else None)


ARITH = {"Add", "Sub", "Mul", "Div", "Rem", "Shl", "Shr", "AddWithOverflow", "SubWithOverflow", "MulWithOverflow",
         "AddUnchecked", "SubUnchecked", "MulUnchecked"}
CMP = {"Eq", "Ne", "Lt", "Le", "Gt", "Ge"}


def concrete_arith(op, a, b):
    w, signed = a.w, a.signed
    x = a.svalue() if signed else a.value()
    y = b.svalue() if b.signed else b.value()
    base = op.replace("WithOverflow", "").replace("Unchecked", "")
    if base == "Add":
        r = x + y
    elif base == "Sub":
        r = x - y
    elif base == "Mul":
        r = x * y
    elif base == "Div":
        if y == 0:
            raise LeaveDomain("division by zero")
        r = abs(x) // abs(y) * (1 if (x >= 0) == (y >= 0) else -1)
    elif base == "Rem":
        if y == 0:
            raise LeaveDomain("remainder by zero")
        r = abs(x) % abs(y) * (1 if x >= 0 else -1)
    elif base == "Shl":
        r = x << (y % w)
    elif base == "Shr":
        r = x >> (y % w)
    else:
        raise LeaveDomain("arith " + op)
    lo, hi = (-(1 << (w - 1)), (1 << (w - 1)) - 1) if signed else (0, (1 << w) - 1)
    ovf = not (lo <= r <= hi)
    res = BV.const(w, signed, r)
    if op.endswith("WithOverflow"):
        return Tup([res, BV.const(1, False, 1 if ovf else 0)])
    return res


def concrete_cmp(op, a, b):
    x = a.svalue() if a.signed else a.value()
    y = b.svalue() if b.signed else b.value()
    r = {"Eq": x == y, "Ne": x != y, "Lt": x < y, "Le": x <= y, "Gt": x > y, "Ge": x >= y}[op]
    return BV.const(1, False, 1 if r else 0)


# ----------------------------------------------------------------------------------------
# models of std Result/Option plumbing (exact on the abstract values; trusted table)
# ----------------------------------------------------------------------------------------
def _is(v, adt, variant):
    return isinstance(v, Enum) and v.adt.endswith(adt) and v.variant == variant


def _result(variant, payload):
    return Enum("std::result::Result", variant, {"0": payload})


def _option(variant, payload=None):
    return Enum("std::option::Option", variant, {"0": payload} if variant == "Some" else {})


def _map_err(it, fn, args, dty, sg, cons, excl, depth):
    r, f = args
    if _is(r, "Result", "Ok"):
        return [(sg, cons, excl, r)]
    if _is(r, "Result", "Err"):
        return [(s, c, x, _result("Err", v)) for (s, c, x, v) in it.apply(f, [r.fields["0"]], sg, cons, excl, depth)]
    raise LeaveDomain("map_err on %r" % (r,))


def _map(it, fn, args, dty, sg, cons, excl, depth):
    r, f = args
    if _is(r, "Result", "Err"):
        return [(sg, cons, excl, r)]
    if _is(r, "Result", "Ok"):
        return [(s, c, x, _result("Ok", v)) for (s, c, x, v) in it.apply(f, [r.fields["0"]], sg, cons, excl, depth)]
    raise LeaveDomain("map on %r" % (r,))


def _and_then(it, fn, args, dty, sg, cons, excl, depth):
    r, f = args
    if _is(r, "Result", "Err"):
        return [(sg, cons, excl, r)]
    if _is(r, "Result", "Ok"):
        return it.apply(f, [r.fields["0"]], sg, cons, excl, depth)
    raise LeaveDomain("and_then on %r" % (r,))


def _branch(it, fn, args, dty, sg, cons, excl, depth):
    (r,) = args
    if _is(r, "Result", "Ok"):
        return [(sg, cons, excl, Enum("std::ops::ControlFlow", "Continue", {"0": r.fields["0"]}))]
    if _is(r, "Result", "Err"):
        return [(sg, cons, excl, Enum("std::ops::ControlFlow", "Break", {"0": _result("Err", r.fields["0"])}))]
    if _is(r, "Option", "Some"):
        return [(sg, cons, excl, Enum("std::ops::ControlFlow", "Continue", {"0": r.fields["0"]}))]
    if _is(r, "Option", "None"):
        return [(sg, cons, excl, Enum("std::ops::ControlFlow", "Break", {"0": _option("None")}))]
    raise LeaveDomain("? on %r" % (r,))


def _from_residual(it, fn, args, dty, sg, cons, excl, depth):
    (r,) = args
    if _is(r, "Result", "Err"):
        # error conversion through From: identity when the types agree, opaque wrapper otherwise
        gargs = fn.get("gargs", [])
        e = r.fields["0"]
        return [(sg, cons, excl, _result("Err", Enum("<From>", "from", {"0": e}) if _needs_conv(gargs) else e))]
    if _is(r, "Option", "None"):
        return [(sg, cons, excl, _option("None"))]
    raise LeaveDomain("from_residual on %r" % (r,))


def _needs_conv(gargs):
    # gargs = [Result<T, F>, Result<Infallible, E>]: conversion is the identity iff F == E
    if len(gargs) != 2:
        return True
    m1 = re.match(r"^std::result::Result<.*, (.*)>$", gargs[0])
    m2 = re.match(r"^std::result::Result<std::convert::Infallible, (.*)>$", gargs[1])
    return not (m1 and m2 and m1.group(1) == m2.group(1))


def _range_contains(it, fn, args, dty, sg, cons, excl, depth):
    rng = args[0].v if isinstance(args[0], Ref) else args[0]
    item = args[1].v if isinstance(args[1], Ref) else args[1]
    if isinstance(rng, Enum) and isinstance(item, BV) and rng.fields["start"].is_const() and rng.fields["end"].is_const():
        lo, hi = rng.fields["start"].value(), rng.fields["end"].value()
        if item.signed:
            lo, hi = rng.fields["start"].svalue(), rng.fields["end"].svalue()
        if item.is_const():
            return [(sg, cons, excl, BV.const(1, False, 1 if lo <= item.value() <= hi else 0))]
        name = item.whole_var()
        if name:
            return [(sg, cons, excl, Pred(name, "In", (lo, hi)))]
    raise LeaveDomain("contains on %r, %r" % (rng, item))


def _range_new(it, fn, args, dty, sg, cons, excl, depth):
    a, b = args[0], args[1]
    if isinstance(a, BV) and isinstance(b, BV):
        return [(sg, cons, excl, Enum("std::ops::RangeInclusive", "RangeInclusive", {"start": a, "end": b, "exhausted": BV.const(1, False, 0)}))]
    raise LeaveDomain("RangeInclusive::new(%r, %r)" % (a, b))


def _call_once(it, fn, args, dty, sg, cons, excl, depth):
    f = args[0]
    tup = args[1]
    return it.apply(f, tup.items if isinstance(tup, Tup) else [tup], sg, cons, excl, depth)


PLUMBING = {
    "std::result::Result::<T, E>::map_err": _map_err,
    "std::result::Result::<T, E>::map": _map,
    "std::result::Result::<T, E>::and_then": _and_then,
    "std::ops::Try::branch": _branch,
    "std::ops::FromResidual::from_residual": _from_residual,
    "std::ops::RangeInclusive::<Idx>::contains": _range_contains,
    "std::ops::RangeInclusive::<Idx>::new": _range_new,
    "std::ops::FnOnce::call_once": _call_once,
    "std::ops::FnMut::call_mut": _call_once,
    "std::ops::Fn::call": _call_once,
}


# ----------------------------------------------------------------------------------------
class Interp:
    def __init__(self, facts, inline=None, max_paths=4096, externs=None):
        self.facts = facts
        self.externs = dict(PLUMBING)
        if externs:
            self.externs.update(externs)
        self.inline = inline        # predicate(Body) -> bool; None = every local body
        self.max_paths = max_paths
        self.paths = 0
        self.inlined = set()

    # -- public ---------------------------------------------------------------------------
    def evaluate(self, body, args, sigma=None, constraints=None, excluded=None, depth=0):
        if depth > 12:
            raise LeaveDomain("inlining depth")
        env = {}
        for i, a in enumerate(args):
            env[i + 1] = a
        outs = []
        work = [(0, env, dict(sigma or {}), list(constraints or []), list(excluded or []))]
        while work:
            bb, env, sg, cons, excl = work.pop()
            self.paths += 1
            if self.paths > self.max_paths:
                raise LeaveDomain("path explosion")
            try:
                for (nbb, nenv, nsg, ncons, nexcl, ret) in self.step(body, bb, env, sg, cons, excl, depth):
                    # a path that left a switch through `otherwise` carries "value not in {listed}": once later case splits
                    # have fixed the value's bits to a listed one, the path is infeasible
                    dead = False
                    for (xb, xvals) in nexcl:
                        xs = xb.subst(nsg) if isinstance(xb, BV) else xb
                        if isinstance(xs, BV) and xs.is_const() and xs.value() in xvals:
                            dead = True
                            break
                    if dead:
                        continue
                    if ret is not None:
                        outs.append(Outcome(nsg, ncons, nexcl, subst_value(ret, nsg)))
                    else:
                        work.append((nbb, nenv, nsg, ncons, nexcl))
            except Infeasible:
                continue
        return outs

    # -- helpers ------------------------------------------------------------------------
    def read_place(self, body, env, pl, sg):
        l = pl["l"]
        if l not in env:
            raise LeaveDomain("read of unassigned local _%d in %s" % (l, body.path))
        v = env[l]
        for p in pl["p"]:
            k = proj_key(p)
            if k == "*":
                if isinstance(v, Ref):
                    v = v.v
                elif isinstance(v, Opaque):
                    v = Opaque("*" + v.desc)
                else:
                    raise LeaveDomain("deref of non-reference")
            elif k.startswith("as "):
                if isinstance(v, Enum):
                    if v.variant != k[3:]:
                        raise Infeasible()
                else:
                    raise LeaveDomain("downcast of non-enum %r" % (v,))
            elif k.startswith("."):
                n = k[1:]
                if isinstance(v, Enum):
                    if n not in v.fields:
                        raise LeaveDomain("no field %s in %r" % (n, v))
                    v = v.fields[n]
                elif isinstance(v, Tup):
                    v = v.items[int(n)]
                else:
                    raise LeaveDomain("field of %r" % (v,))
            else:
                raise LeaveDomain("projection " + k)
        return subst_value(v, sg)

    def read_op(self, body, env, op, sg, want_ty=None):
        pl = op_place(op)
        if pl is not None:
            return self.read_place(body, env, pl, sg)
        k = op["k"]
        if "fn" in k:
            return FnItem(k["fn"]["path"], k["fn"]["full"])
        it = int_ty(k["ty"])
        if it and "bits" in k:
            return BV.const(it[0], it[1], int(k["bits"]))
        if k["ty"] == "bool" and "bits" in k:
            return BV.const(1, False, int(k["bits"]))
        if k["ty"] == "()":
            return Tup([])
        m = re.match(r"^&?std::ops::RangeInclusive<([ui])(8|16|32|64|size)>$", k["ty"])
        if m and k.get("alloc"):
            w = 8 if m.group(2) == "size" else int(m.group(2)) // 8
            sgn = m.group(1) == "i"
            raw = bytes.fromhex(k["alloc"])
            lo = int.from_bytes(raw[0:w], "little")
            hi = int.from_bytes(raw[w:2 * w], "little")
            v = Enum("std::ops::RangeInclusive", "RangeInclusive", {"start": BV.const(8 * w, sgn, lo), "end": BV.const(8 * w, sgn, hi)})
            return Ref(v) if k["ty"].startswith("&") else v
        return Opaque("const %s" % (k.get("ev") or k.get("s")))

    def adt_info(self, path):
        a = self.facts.adts.get(path)
        return a

    def discr_of(self, v):
        if not isinstance(v, Enum):
            raise LeaveDomain("discriminant of %r" % (v,))
        a = self.adt_info(v.adt)
        if a is None:
            # std enums we know
            std = {"std::result::Result": {"Ok": 0, "Err": 1}, "std::option::Option": {"None": 0, "Some": 1},
                   "std::ops::ControlFlow": {"Continue": 0, "Break": 1}}
            if v.adt in std:
                return std[v.adt][v.variant]
            raise LeaveDomain("unknown adt " + v.adt)
        for var in a["variants"]:
            if var["name"] == v.variant:
                return int(var["discr"])
        raise LeaveDomain("variant")

    def binop(self, op, a, b, sg):
        """-> list of (sigma', value)"""
        if isinstance(a, Pred) or isinstance(b, Pred):
            raise LeaveDomain("operation on symbolic predicate")
        if not isinstance(a, BV) or not isinstance(b, BV):
            raise LeaveDomain("binop %s on %r, %r" % (op, a, b))
        if op in ("BitAnd", "BitOr", "BitXor"):
            fn = {"BitAnd": _and, "BitOr": _or, "BitXor": _xor}[op]
            return [(sg, BV(a.w, a.signed, [fn(x, y) for x, y in zip(a.bits, b.bits)]))]
        if a.has_top() or b.has_top():
            raise LeaveDomain("%s on unknown bits" % op)
        if a.is_const() and b.is_const():
            if op in CMP:
                return [(sg, concrete_cmp(op, a, b))]
            if op in ARITH:
                return [(sg, concrete_arith(op, a, b))]
            raise LeaveDomain("binop " + op)
        # symbolic
        if op in CMP:
            va, vb = a.whole_var(), b.whole_var()
            if va and b.is_const() and a.native != a.signed:
                # `x as i32 <= 9` on an unsigned input x (or the reverse): the comparison reads the bits differently from how the
                # variable is declared.  Split on the top bit: below 2^(w-1) both readings agree; above, the verdict is a constant.
                c = b.svalue() if b.signed else b.value()
                top = (va, a.w - 1)
                if top in sg:
                    cases = [sg[top]]
                else:
                    cases = [0, 1]
                out = []
                for tv in cases:
                    s2 = dict(sg)
                    s2[top] = tv
                    if tv == 0:
                        out.append((s2, Pred(va, op, c)))
                        continue
                    if c < 0 or c >= (1 << (a.w - 1)):
                        raise LeaveDomain("reinterpreting comparison with %d" % c)
                    if a.signed:      # read as negative
                        verdict = {"Lt": 1, "Le": 1, "Gt": 0, "Ge": 0, "Eq": 0, "Ne": 1}[op]
                    else:             # read as >= 2^(w-1)
                        verdict = {"Lt": 0, "Le": 0, "Gt": 1, "Ge": 1, "Eq": 0, "Ne": 1}[op]
                    out.append((s2, BV.const(1, False, verdict)))
                return out
            if va and b.is_const():
                return [(sg, Pred(va, op, b.svalue() if b.signed else b.value()))]
            if vb and a.is_const():
                flip = {"Lt": "Gt", "Gt": "Lt", "Le": "Ge", "Ge": "Le", "Eq": "Eq", "Ne": "Ne"}[op]
                return [(sg, Pred(vb, flip, a.svalue() if a.signed else a.value()))]
        if op == "Rem" and b.is_const() and not a.signed:
            m = b.value()
            if m and m & (m - 1) == 0:
                k = m.bit_length() - 1
                return [(sg, BV(a.w, a.signed, list(a.bits[:k]) + [0] * (a.w - k)))]
        vs = sorted(a.vars() | b.vars())
        if len(vs) > SPLIT_MAX:
            raise LeaveDomain("%s depends on %d input bits (> %d): outside the residue/bit domain" % (op, len(vs), SPLIT_MAX))
        out = []
        for n in range(1 << len(vs)):
            s2 = dict(sg)
            for i, v in enumerate(vs):
                s2[v] = (n >> i) & 1
            a2, b2 = a.subst(s2), b.subst(s2)
            if op in CMP:
                out.append((s2, concrete_cmp(op, a2, b2)))
            else:
                out.append((s2, concrete_arith(op, a2, b2)))
        return out

    def rvalue(self, body, env, st, sg, depth):
        """-> list of (sigma', value)"""
        rv = st["rv"]
        r = rv["r"]
        if r == "use":
            return [(sg, self.read_op(body, env, rv["o"], sg))]
        if r == "ref":
            if rv.get("mut"):
                # a mutable borrow of a value the domain does not track (an opaque encoder, an iterator) changes nothing it knows
                v = self.read_place(body, env, rv["p"], sg)
                if isinstance(v, Opaque) or (isinstance(v, Ref) and isinstance(v.v, Opaque)):
                    return [(sg, Ref(v) if isinstance(v, Opaque) else v)]
                raise LeaveDomain("mutable borrow")
            return [(sg, Ref(self.read_place(body, env, rv["p"], sg)))]
        if r == "bin":
            a = self.read_op(body, env, rv["a"], sg)
            b = self.read_op(body, env, rv["b"], sg)
            return self.binop(rv["op"], a, b, sg)
        if r == "un":
            a = self.read_op(body, env, rv["a"], sg)
            if rv["op"] == "Not":
                if isinstance(a, Pred):
                    return [(sg, Pred(a.var, a.op, a.c, not a.neg))]
                if isinstance(a, BV):
                    return [(sg, BV(a.w, a.signed, [_neg(x) for x in a.bits]))]
            raise LeaveDomain("unary %s" % rv["op"])
        if r == "cast":
            a = self.read_op(body, env, rv["o"], sg)
            if rv["ck"] == "IntToInt" and isinstance(a, BV):
                it = int_ty(rv["ty"])
                if it:
                    return [(sg, cast_int(a, it[0], it[1]))]
            if rv["ck"].startswith("PointerCoercion"):
                return [(sg, a)]
            raise LeaveDomain("cast %s of %r" % (rv["ck"], a))
        if r == "discr":
            v = self.read_place(body, env, rv["p"], sg)
            return [(sg, BV.const(64, True, self.discr_of(v)))]
        if r == "agg":
            ops = [self.read_op(body, env, o, sg) for o in rv["ops"]]
            if rv["ak"] == "tuple":
                return [(sg, Tup(ops))]
            if rv["ak"] == "adt":
                return [(sg, Enum(rv["adt"], rv["variant"], dict(zip(rv["fields"], ops))))]
            if rv["ak"] == "closure":
                return [(sg, Closure(rv["closure"], ops))]
            raise LeaveDomain("aggregate " + rv["ak"])
        raise LeaveDomain("rvalue " + r)

    def assign(self, env, lhs, v):
        if lhs["p"]:
            # field of a tuple produced by *WithOverflow etc. is never assigned in our bodies
            raise LeaveDomain("assignment through projection")
        env = dict(env)
        env[lhs["l"]] = v
        return env

    def call(self, body, env, t, sg, cons, excl, depth):
        """-> list of (sigma, cons, excl, value)"""
        fn = (t["func"].get("k") or {}).get("fn")
        if not fn:
            raise LeaveDomain("indirect call")
        args = [self.read_op(body, env, a, sg) for a in t["args"]]
        decl = fn["path"]
        r = fn.get("r") or {}
        rpath = r.get("path")
        for key in (decl, rpath):
            if key and key in self.externs:
                dty = body.local_ty(t["dest"]["l"])
                res = self.externs[key](self, fn, args, dty, sg, cons, excl, depth)
                if res is not None:
                    return res
        # integer conversions
        if decl in ("std::convert::Into::into", "std::convert::From::from") and len(args) == 1 and isinstance(args[0], BV):
            dty = body.local_ty(t["dest"]["l"])
            it = int_ty(dty)
            if it:
                return [(sg, cons, excl, cast_int(args[0], it[0], it[1]))]
        target = None
        if decl == "std::convert::Into::into" and len(fn.get("gargs", [])) == 2:
            # blanket `impl<T, U: From<T>> Into<U> for T`: into() is U::from()
            src, dst = fn["gargs"]
            cands = [b for b in self.facts.body_list if b.impl_trait == "std::convert::From" and b.name == "from"
                     and b.impl_self == dst and b.impl_trait_full == "std::convert::From<%s>" % src]
            if len(cands) == 1:
                target = cands[0]
        if target is not None:
            pass
        elif rpath and r.get("local") and rpath in self.facts.bodies:
            target = self.facts.bodies[rpath]
        elif fn.get("local") and decl in self.facts.bodies and not fn.get("trait"):
            target = self.facts.bodies[decl]
        if target is not None and (self.inline is None or self.inline(target)):
            self.inlined.add(target.path)
            outs = self.evaluate(target, args, sg, cons, excl, depth + 1)
            return [(o.sigma, o.constraints, o.excluded, o.value) for o in outs]
        if decl in ("std::clone::Clone::clone",) and len(args) == 1 and isinstance(args[0], Ref):
            return [(sg, cons, excl, args[0].v)]
        raise LeaveDomain("call to %s is outside the domain" % fn["full"])

    def apply(self, f, args, sg, cons, excl, depth):
        """Call a closure / fn-item value. -> list of (sigma, cons, excl, value)"""
        if isinstance(f, Ref):
            f = f.v
        if isinstance(f, Closure):
            b = self.facts.bodies.get(f.path)
            if b is None:
                raise LeaveDomain("closure body %s not found" % f.path)
            self.inlined.add(b.path)
            outs = self.evaluate(b, [f] + list(args), sg, cons, excl, depth + 1)
            return [(o.sigma, o.constraints, o.excluded, o.value) for o in outs]
        if isinstance(f, FnItem):
            b = self.facts.bodies.get(f.path)
            if b is not None:
                self.inlined.add(b.path)
                outs = self.evaluate(b, list(args), sg, cons, excl, depth + 1)
                return [(o.sigma, o.constraints, o.excluded, o.value) for o in outs]
            # tuple-struct / variant constructor used as a function
            for ap, a in self.facts.adts.items():
                if ap == f.path and a["kind"] == "struct":
                    names = [fl["name"] for fl in a["variants"][0]["fields"]]
                    return [(sg, cons, excl, Enum(ap, a["variants"][0]["name"], dict(zip(names, args))))]
            raise LeaveDomain("function value %s has no local body" % f.path)
        raise LeaveDomain("call of %r" % (f,))

    def step(self, body, bb, env, sg, cons, excl, depth):
        """Execute one block. Yields (next_bb, env, sigma, cons, excl, retval_or_None)."""
        states = [(env, sg)]
        for st in body.stmts(bb):
            if st["k"] != "assign":
                raise LeaveDomain("statement " + st["k"])
            nstates = []
            for (e, s) in states:
                for (s2, v) in self.rvalue(body, e, st, s, depth):
                    nstates.append((self.assign(e, st["lhs"], v), s2))
            states = nstates
        t = body.term(bb)
        k = t["t"]
        out = []
        for (e, s) in states:
            if k == "goto":
                out.append((t["target"], e, s, cons, excl, None))
            elif k == "return":
                if 0 not in e:
                    raise LeaveDomain("return without value")
                out.append((None, e, s, cons, excl, e[0]))
            elif k == "unreachable":
                continue
            elif k == "drop":
                out.append((t["target"], e, s, cons, excl, None))
            elif k == "assert":
                c = self.read_op(body, e, t["cond"], s)
                if isinstance(c, BV) and c.is_const():
                    if bool(c.value()) == t["expected"]:
                        out.append((t["target"], e, s, cons, excl, None))
                    else:
                        raise LeaveDomain("assertion %s can fail in %s" % (t["kind"], body.path))
                else:
                    raise LeaveDomain("assertion %s on symbolic condition in %s" % (t["kind"], body.path))
            elif k == "call":
                for (s2, c2, x2, v) in self.call(body, e, t, s, cons, excl, depth):
                    if t["target"] is None:
                        continue
                    out.append((t["target"], self.assign(e, t["dest"], v), s2, c2, x2, None))
            elif k == "switch":
                d = self.read_op(body, e, t["d"], s)
                if isinstance(d, Pred):
                    # bool switch: value 0 -> false branch
                    tv = {int(v): b for v, b in t["targets"]}
                    for truth in (True, False):
                        val = 1 if truth else 0
                        tgt = tv.get(val, t["otherwise"])
                        holds = truth != d.neg
                        if d.op == "In":
                            # lo <= v <= hi  /  v < lo  or  v > hi : only plain comparisons are recorded
                            lo_, hi_ = d.c
                            if holds:
                                out.append((tgt, e, s, cons + [(d.var, "Ge", lo_, True), (d.var, "Le", hi_, True)], excl, None))
                            else:
                                out.append((tgt, e, s, cons + [(d.var, "Lt", lo_, True)], excl, None))
                                out.append((tgt, e, s, cons + [(d.var, "Gt", hi_, True)], excl, None))
                            continue
                        out.append((tgt, e, s, cons + [(d.var, d.op, d.c, holds)], excl, None))
                elif isinstance(d, BV):
                    d = d.subst(s)
                    if d.has_top():
                        raise LeaveDomain("switch on unknown bits")
                    if d.is_const():
                        val = d.value()
                        tgt = t["otherwise"]
                        for v, b in t["targets"]:
                            if int(v) & ((1 << d.w) - 1) == val:
                                tgt = b
                        out.append((tgt, e, s, cons, excl, None))
                    else:
                        vals = []
                        for v, b in t["targets"]:
                            iv = int(v) & ((1 << d.w) - 1)
                            vals.append(iv)
                            s2 = dict(s)
                            feasible = True
                            for i, bit in enumerate(d.bits):
                                want = (iv >> i) & 1
                                if bit in (0, 1):
                                    if bit != want:
                                        feasible = False
                                        break
                                else:
                                    key = (bit[1], bit[2])
                                    bv = want if bit[0] == "x" else 1 - want
                                    if key in s2 and s2[key] != bv:
                                        feasible = False
                                        break
                                    s2[key] = bv
                            if feasible:
                                out.append((b, e, s2, cons, excl, None))
                        out.append((t["otherwise"], e, s, cons, excl + [(d, vals)], None))
                else:
                    raise LeaveDomain("switch on %r" % (d,))
            else:
                raise LeaveDomain("terminator " + k)
        return out
