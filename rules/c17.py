"""C17 - the builder rejects bad arguments with errors, not panics.

  R   panic/abort/allocation site audit of the builder-side cone (same engine as C04)
  X   external partial functions: on every abstract path of Compressor::try_from that reaches an
      encoder constructor, the level satisfies that constructor's documented precondition
  D   destinations: every Option/Result obtained from Path decomposition in add_data reaches an error return
  K   capability text: FileOptionsBuilder::caps maps validator failure to Err(InvalidCapabilities)
"""
import re
from engine import AnchorLost, op_place, const_int
from audit import Auditor
from common import constructed_errors, fmt_key, switch_info, err_assign_blocks, reach_from, ok_assign_blocks
from terms import TermBuilder, render
from absint import Interp, BV, Enum, Ref, Opaque, LeaveDomain

ROOT_SELF_RX = r"(builder::PackageBuilder|types::FileOptions|types::FileOptionsBuilder|types::Scriptlet|types::Dependency|filecaps::FileCaps)$"
ROOT_PATH_RX = (r"filecaps::validate_caps_text$|FileCaps as std::str::FromStr>::from_str$|Compressor as std::convert::TryFrom|"
                r"CompressionWithLevel as std::convert::From|CompressionWithLevel as std::default::Default|Scriptlet as std::convert::From|"
                r"FileOptions as std::convert::From")

# constructor -> allowed closed interval of its level argument (from the vendored sources, DESIGN §0)
PARTIAL = {
    "flate2::Compression::new": (0, 9),
    "liblzma::write::XzEncoder::<W>::new": (0, 9),
    "bzip2::Compression::new": (1, 9),
}


def builder_roots(f):
    roots = []
    for b in f.body_list:
        if b.kind == "closure" or b.derived:
            continue
        if b.vis == "pub" and re.search(ROOT_SELF_RX, b.impl_self or ""):
            roots.append(b)
        elif re.search(ROOT_PATH_RX, b.path):
            roots.append(b)
    return roots


# ---- allow-list preconditions -------------------------------------------------------------------
def pre_find_index(f, s):
    tb = TermBuilder(s.body)
    t = render(tb.term(s.call.args[1]))
    ok = "core::str::<impl str>::find(" in t
    base = render(tb.term(s.call.args[0]))
    return ok and base in t, "range bound comes from str::find on the same clause (%s)" % base[:60]


def pre_env_clock(f, s):
    tb = TermBuilder(s.body)
    t = render(tb.term(s.call.args[0]))
    return "std::time::SystemTime::now()" in t, "operand is the conversion of SystemTime::now(): environmental, independent of any argument"


def pre_file_size_sum(f, s):
    ad = f.one("PackageBuilder::add_data")
    ta = TermBuilder(ad)
    for bb in ad.reachable():
        for st in ad.stmts(bb):
            if st["k"] == "assign" and st["rv"]["r"] == "agg" and st["rv"].get("adt", "").endswith("PackageFileEntry"):
                fields = dict(zip(st["rv"]["fields"], st["rv"]["ops"]))
                t = render(ta.term(fields["size"]))
                return t.startswith("u64(std::vec::Vec::<T, A>::len("), "every entry.size is content.len(): the sum is bounded by resident memory"
    return False, "PackageFileEntry construction not found"


def pre_file_size_iter_sum(f, s):
    """`self.files.values().map(|e| e.size).sum()` - the iterator form of the accumulation above."""
    import idioms
    tb = TermBuilder(s.body)
    t = tb.term(s.call.args[0])
    r = render(t)
    if "self.files" not in r or not s.call.gargs or s.call.gargs[-1] != "u64":
        return False, "sum() is not over self.files into u64 (%s)" % r[:120]
    rets = []
    def walk(x):
        if isinstance(x, tuple):
            if x and x[0] == "agg" and len(x) > 3 and x[1] == "closure":
                ret, _pn = idioms._closure_ret(f, x)
                rets.append(render(ret) if ret is not None else "?")
            for y in x:
                walk(y)
        elif isinstance(x, list):
            for y in x:
                walk(y)
    walk(t)
    if len(rets) != 1 or not re.search(r"\.size$", rets[0]):
        return False, "the summed items are %s, not each entry's size" % rets
    return pre_file_size_sum(f, s)


def pre_counter_per_element(f, s):
    b = s.body
    inloop = any(s.bb in blks for (_h, blks) in b.loops())
    one = any(const_int(o) == 1 for o in s.operands)
    return inloop and one, "+1 per element of an in-memory collection"


def pre_dir_inserted(f, s):
    ad = f.one("PackageBuilder::add_data")
    ta = TermBuilder(ad)
    ins = [c for c in ad.calls() if c.decl.endswith("BTreeSet::<T, A>::insert")]
    ent = None
    for bb in ad.reachable():
        for st in ad.stmts(bb):
            if st["k"] == "assign" and st["rv"]["r"] == "agg" and st["rv"].get("adt", "").endswith("PackageFileEntry"):
                ent = dict(zip(st["rv"]["fields"], st["rv"]["ops"]))
    if not ins or ent is None:
        return False, "add_data no longer inserts the directory / builds the entry"
    a = render(ta.term(ins[0].args[1]))
    d = render(ta.term(ent["dir"]))
    recv = render(ta.term(ins[0].args[0]))
    tb = TermBuilder(s.body)
    t = render(tb.term(s.call.args[0]))
    # the lookup is a search in self.directories - by position(), or through a position map built from its enumeration
    lookup = ("std::iter::Iterator::position(std::collections::BTreeSet::<T, A>::iter(self.directories)" in t or
              (re.search(r"(BTreeMap|HashMap)::<K, V(, [AS])?>::get\(", t) is not None and "std::iter::Iterator::enumerate(" in t and "self.directories" in t and ".dir" in t))
    ok = a == d and recv == "self.directories" and lookup
    return ok, "add_data inserts entry.dir into self.directories; the builder is consumed by build()"


def pre_not_large(f, s):
    b = s.body
    for sb in b.reachable():
        info = switch_info(b, sb)
        if not info or info["kind"] not in ("bool", "cmp", "other"):
            continue
    # the expect must be dominated by the false edge of a switch on a local defined as Gt(sum, u32::MAX)
    tb = TermBuilder(b)
    for sb in b.reachable():
        t = b.term(sb)
        if t["t"] != "switch":
            continue
        pl = op_place(t["d"])
        if pl is None:
            continue
        tt = render(tb.term(pl))
        if tt.startswith("Gt(") and "4294967295" in tt or "u32::MAX" in tt:
            targets = {int(v): x for v, x in t["targets"]}
            ft = targets.get(0)
            neg = tt.startswith("Not(")
            edge = t["otherwise"] if neg else ft
            if edge is not None and b.dominates(edge, s.bb):
                return True, "dominated by the branch where the total size is <= u32::MAX"
    return False, "no dominating `total size <= u32::MAX` branch found"


def pre_header_len(f, s):
    w = [b for b in f.body_list if b.path.endswith("payload::Builder::write_cpio")]
    if len(w) != 1:
        return False, "write_cpio not found"
    tb = TermBuilder(w[0])
    for bb in w[0].reachable():
        for st in w[0].stmts(bb):
            if st["k"] == "assign" and st["rv"]["r"] == "agg" and st["rv"].get("adt", "").endswith("payload::Writer"):
                fields = dict(zip(st["rv"]["fields"], st["rv"]["ops"]))
                t = render(tb.term(fields["header_size"]))
                return t.startswith("std::vec::Vec::<T, A>::len("), "header_size is the length of the in-memory header"
    return False, "Writer construction not found"


def pre_vec_sink(f, s):
    tb = TermBuilder(s.body)
    t = render(tb.term(s.call.args[0]))
    c = [x for x in s.body.calls() if x.decl.endswith("write_index")]
    ok = bool(c) and all("std::vec::Vec<u8>" in " ".join(x.gargs) for x in c)
    return ok, "the sink is a Vec<u8>, whose io::Write impl cannot fail"


def pre_inmemory(f, s):
    return True, "assumption: header data built in memory stays below 2^31 bytes / 2^27 entries"


def pre_alignment_loop(f, s):
    b = s.body
    inloop = [blks for (_h, blks) in b.loops() if s.bb in blks]
    pushes = [c for c in b.calls() if inloop and c.bb in inloop[0] and c.decl.endswith("Vec::<T, A>::push")]
    return bool(inloop) and bool(pushes), "alignment loop pushes one byte per iteration until len % N == 0: at most N-1 iterations"


def pre_placeholder(f, s):
    return "PhantomData" in (s.body.impl_self or ""), "documented placeholder impl"


def pre_suffix_caller(f, s):
    callers = []
    for b in f.body_list:
        for c in b.calls():
            if c.decl.endswith("filecaps::validate_suffix"):
                callers.append((b, c))
    if len(callers) != 1:
        return False, "validate_suffix has %d callers" % len(callers)
    b, c = callers[0]
    t = render(TermBuilder(b).term(c.args[0]))
    ok = ("std::ops::RangeFrom::RangeFrom{" in t or re.search(r"<impl str>::split_at\(.*\)\.1$", t) is not None) and "core::str::<impl str>::find(" in t
    return ok, "the only caller passes part[index..] where index is the position of the first operator: the first char is an operator, so last_ch is Some before any flag"


ALLOW = {
    "filecaps::validate_caps_text|index|index on str|#0": ("slicing at the position returned by str::find is on a char boundary and in range", pre_find_index),
    "filecaps::validate_caps_text|index|index on str|#1": ("slicing at the position returned by str::find is on a char boundary and in range", pre_find_index),
    "filecaps::validate_suffix|panic|core::panicking::panic|#0": ("debug assertion holds for the only caller", pre_suffix_caller),
    "timestamp::Timestamp::now|unwrap|std::result::Result::<T, E>::unwrap|#0": ("system clock outside 1970..2106", pre_env_clock),
    "builder::PackageBuilder::prepare_data|assert|Overflow(Add)|#0": ("sum of in-memory content lengths", pre_file_size_sum),
    "builder::PackageBuilder::prepare_data|assert|Overflow(Add)|#1": ("inode counter", pre_counter_per_element),
    "builder::PackageBuilder::prepare_data|iter-arith|std::iter::Iterator::sum|#0": ("sum of in-memory content lengths (iterator form)", pre_file_size_iter_sum),
    "builder::PackageBuilder::prepare_data|unwrap|std::option::Option::<T>::unwrap|#0": ("the directory of every file was inserted when the file was added", pre_dir_inserted),
    "builder::PackageBuilder::prepare_data|unwrap|std::result::Result::<T, E>::expect|#0": ("total size fits u32 on this branch", pre_not_large),
    "builder::PackageBuilder::prepare_data|unwrap|std::result::Result::<T, E>::expect|#1": ("every size fits u32 on this branch", pre_not_large),
    "headers::header::Header::<T>::from_entries|assert|Overflow(Add)|#0": ("offset + alignment in i32", pre_inmemory),
    "headers::header::Header::<T>::create_region_tag|assert|Overflow(Add)|#0": ("records + 1 in i32", pre_inmemory),
    "headers::header::Header::<T>::create_region_tag|assert|OverflowNeg|#0": ("negating the constant 16", pre_inmemory),
    "headers::header::Header::<T>::create_region_tag|assert|Overflow(Mul)|#0": ("(records + 1) * -16 in i32", pre_inmemory),
    "headers::header::Header::<T>::create_region_tag|unwrap|std::result::Result::<T, E>::expect|#0": ("writing to a Vec cannot fail", pre_vec_sink),
    "headers::header::IndexData::append|assert|Overflow(Add)|#*": ("alignment counter", pre_alignment_loop),
    "payload::Writer::<W>::do_finish|assert|Overflow(Add)|#0": ("header length + u32 file size in usize", pre_header_len),
    "<std::marker::PhantomData<T> as rpm::signature::traits::Signing>::sign|panic|core::panicking::panic_fmt|#0": ("placeholder signer", pre_placeholder),
}


def check_levels(f, rep):
    tf = [b for b in f.body_list if b.impl_trait == "std::convert::TryFrom" and (b.impl_self or "").endswith("compressor::Compressor") and b.name == "try_from"]
    if not rep.anchor(len(tf) == 1, "X", "<Compressor as TryFrom<CompressionWithLevel>>::try_from"):
        return
    tf = tf[0]
    adt = f.adt("compressor::CompressionWithLevel")
    reached = {}
    violations = []

    def make_ext(name, lohi):
        def ext(it, fn, args, dty, sg, cons, excl, depth):
            lvl = [a for a in args if isinstance(a, BV)]
            if not lvl:
                raise LeaveDomain("no level argument at %s" % name)
            a = lvl[-1]
            lo, hi = (0, (1 << a.w) - 1) if not a.signed else (-(1 << (a.w - 1)), (1 << (a.w - 1)) - 1)
            if a.is_const():
                lo = hi = a.value()
            else:
                var = a.whole_var()
                for (v, op, c, holds) in cons:
                    if v != var:
                        continue
                    if op == "In":
                        if holds:
                            lo, hi = max(lo, c[0]), min(hi, c[1])
                        continue
                    if not holds:
                        op = {"Gt": "Le", "Ge": "Lt", "Lt": "Ge", "Le": "Gt"}.get(op, op)
                    if op == "Le":
                        hi = min(hi, c)
                    elif op == "Lt":
                        hi = min(hi, c - 1)
                    elif op == "Ge":
                        lo = max(lo, c)
                    elif op == "Gt":
                        lo = max(lo, c + 1)
            reached.setdefault(name, []).append((lo, hi))
            if not (lohi[0] <= lo and hi <= lohi[1]):
                violations.append((name, lo, hi, lohi))
            return [(sg, cons, excl, Opaque(name))]
        return ext

    externs = {k: make_ext(k, v) for k, v in PARTIAL.items()}

    def opaque(name):
        def ext(it, fn, args, dty, sg, cons, excl, depth):
            return [(sg, cons, excl, Opaque(name))]
        return ext

    def fallible(name):
        def ext(it, fn, args, dty, sg, cons, excl, depth):
            return [(sg, cons, excl, Enum("std::result::Result", "Ok", {"0": Opaque(name)})),
                    (sg, cons, excl, Enum("std::result::Result", "Err", {"0": Opaque("io::Error")}))]
        return ext
    for n in ("std::vec::Vec::<T>::new", "flate2::write::GzEncoder::<W>::new", "bzip2::write::BzEncoder::<W>::new", "std::string::ToString::to_string",
              ):
        externs[n] = opaque(n)
    # zstdmt: `available_parallelism()?` is fallible, the thread count an unconstrained number (it never reaches a level argument)
    externs["std::thread::available_parallelism"] = fallible("threads")

    def nz_get(it, fn, args, dty, sg, cons, excl, depth):
        return [(sg, cons, excl, BV.var("threads", 64, False))]
    externs["std::num::NonZero::<T>::get"] = nz_get
    externs["zstd::Encoder::<'static, W>::new"] = fallible("zstd::Encoder")
    externs["zstd::Encoder::<'a, W>::new"] = fallible("zstd::Encoder")
    externs["zstd::Encoder::<'a, W>::multithread"] = fallible("()")
    paths = 0
    for var in adt["variants"]:
        fields = {}
        for fl in var["fields"]:
            signed = fl["ty"].startswith("i")
            fields[fl["name"]] = BV.var("lvl", 32, signed)
        val = Enum(adt["path"], var["name"], fields)
        it = Interp(f, externs=externs)
        try:
            outs = it.evaluate(tf, [val])
            paths += len(outs)
            oks = [o for o in outs if isinstance(o.value, Enum) and o.value.variant == "Ok"]
            rep.ok("X", "try_from(%s): %d abstract paths, %d succeed" % (var["name"], len(outs), len(oks)), tf.span)
        except LeaveDomain as e:
            rep.finding("X", "levels|%s|left-domain" % var["name"], "Compressor::try_from(%s) left the abstract domain: %s" % (var["name"], e), tf.span)
    rep.count("level_paths", paths)
    for (name, lo, hi, lohi) in violations:
        rep.finding("X", "levels|%s" % name, "%s can be reached with a level in %d..=%d but it only accepts %d..=%d (it panics otherwise)" % (name, lo, hi, lohi[0], lohi[1]), tf.span)
    for name in PARTIAL:
        if name in reached:
            if not any(v[0] == name for v in violations):
                rep.ok("X", "%s only reached with level in %s" % (name, sorted(set(reached[name]))), tf.span)
    return reached


def run(f, fixture, rep, cfg, tier):
    rep.explanation = (
        "Same site audit as C04 over the call-graph cone of every public builder-side entry point (PackageBuilder, FileOptions, "
        "Scriptlet, Dependency, FileCaps, compression conversions) plus an abstract evaluation of Compressor::try_from per "
        "CompressionWithLevel variant with a symbolic level: every path that reaches an encoder constructor must carry "
        "constraints implying that constructor's documented level range.")
    rep.trusted = ["rustc nightly MIR", "documented level ranges of flate2 / liblzma / bzip2 constructors (vendored sources)",
                   "allow-list reasons in rules/c17.py; assumption that header data built in memory stays below 2 GiB"]
    rep.rule("R", "every panic/abort/allocation site on the builder cone is bounded, guarded, infeasible or reviewed")
    rep.rule("X", "encoder constructors are only reached with a level inside their accepted range")
    rep.rule("D", "Path decomposition failures in add_data become InvalidDestinationPath")
    rep.rule("K", "capability validation failure becomes Err(InvalidCapabilities)")
    roots = builder_roots(f)
    rep.floor("R", "builder-side entry points", len(roots), 60)
    cone = f.cone(roots)
    bodies = [b for b in cone.values() if not b.derived]
    rep.floor("R", "bodies in the builder cone", len(bodies), 100)
    allow = dict(ALLOW)
    aud = Auditor(f, rep, "C17", "R", allow)
    for b in bodies:
        aud.audit_body(b)
    aud.finish()
    rep.floor("R", "panic/alloc sites enumerated on the builder cone", aud.stats["sites"], 30)

    reached = check_levels(f, rep) or {}
    if cfg == "default+bzip2":
        for name in PARTIAL:
            rep.check(name in reached, "X", "levels|reached|%s" % name, "%s is reached by the analysis" % name,
                      "%s is no longer reached: the level rule would pass vacuously" % name)

    # ---- D: add_data path decomposition ----------------------------------------------------------
    ad = f.one("PackageBuilder::add_data")
    n = 0
    for c in ad.calls():
        if re.search(r"std::path::Path::(parent|file_name|strip_prefix|file_stem|extension)$", c.decl):
            n += 1
            users = [ad.call_at(u[0]) for u in ad.uses(c.dest["l"]) if isinstance(u[2], tuple)]
            names = [u.decl for u in users]
            ok = any(re.search(r"(ok_or|ok_or_else|map_err)$", x) for x in names) or any(x == "std::ops::Try::branch" for x in names)
            bad = any(re.search(r"::(unwrap|expect)$", x) for x in names)
            if not ok and not bad:
                # `let Some(x) = p.parent() else { return Err(..) }` / `match p.file_name() { None => return Err(..), .. }`:
                # the failure edge of the match reaches no success return
                from common import users_switches, arms_of, ok_assign_blocks
                from pathsens import ps_reach
                oks_ = set(ok_assign_blocks(ad))
                from pathsens import canon
                kc_ = canon(ad, c.dest)
                for sb_ in sorted(ad.reachable()):
                    i_ = switch_info(ad, sb_)
                    if i_ and i_["kind"] == "discr" and i_.get("place") is not None and canon(ad, i_["place"]) == kc_:
                        a_ = arms_of(ad, i_)
                        fail = a_.get("None", a_.get("Err"))
                        if fail is not None and not (ps_reach(ad, fail) & oks_) and oks_:
                            ok = True
            rep.check(ok and not bad, "D", "add_data|%s" % c.decl.rsplit("::", 1)[-1], "%s's failure is turned into an error" % c.decl,
                      "%s's None/Err is %s" % (c.decl, "unwrapped" if bad else "not converted into an error (%s)" % names), c.loc())
    rep.floor("D", "Path decomposition calls in add_data", n, 3)
    errs = {v for (_b, v) in err_assign_blocks(ad)} | constructed_errors(f, ad)
    rep.check("InvalidDestinationPath" in errs, "D", "add_data|error-variant", "add_data reports InvalidDestinationPath", "add_data never returns InvalidDestinationPath", ad.span)

    # ---- K ------------------------------------------------------------------------------------------
    cb = f.one("FileOptionsBuilder::caps")
    errs = {v for (_b, v) in err_assign_blocks(cb)} | constructed_errors(f, cb)
    calls = [c.decl for c in cb.calls()]
    rep.check(errs == {"InvalidCapabilities"} and any(x.endswith("FromStr::from_str") or "FileCaps" in x for x in calls), "K", "caps|error-mapping",
              "caps() validates through FileCaps and maps failure to Err(InvalidCapabilities)", "caps() error exits are %s, calls %s" % (sorted(map(str, errs)), calls[:5]), cb.span)

    # ---- K2: what counts as an unknown capability is decided by C19's tables -------------------------------------
    rep.rule("K2", "unknown capability text is an error (C19.R5 tables and scan)")
    rep.include("c19", f, fixture, cfg, tier, "K2", "capability text validation", only_rules={"R5"}, floor=5)
