"""C05 - metadata accessors return exactly what the header stores.

  R1  decode table: each data type is decoded with the prescribed decoder / element width / count
  R2  string-list loops step over the terminator (sibling arms share the advance)
  R3  typed getters are exact: as_* accept exactly their variant(s); Header::get_entry_data_as_X pairs with as_X,
      absent tag -> TagNotFound, wrong type -> UnexpectedTagDataType
  R4  accessor -> (tag, getter) table equals the oracle (rpm tag table)
  R5  dependency / scriptlet / changelog triples are families and are zipped positionally
  R6  file entries are assembled field-for-field from the tags of the oracle
Not decided: UTF-8 lossy conversion, Path::join semantics, zip truncation on unequal lengths (value level).
"""
import re
from engine import op_place, const_int
from terms import TermBuilder, render, strip_proj
from common import ok_assign_blocks, switch_info, arms_of, reach_from, err_assign_blocks, fmt_key, constructed_errors
from c01 import agg_fields

G = "rpm::headers::header::Header::<T>::get_entry_data_as_"
TAG = "constants::IndexTag::"
STAG = "constants::IndexSignatureTag::"

# rpm tag table (lib/rpmtag.h / tagtbl): tag -> data type
TAG_TYPE = {
    "RPMTAG_NAME": "string", "RPMTAG_EPOCH": "u32", "RPMTAG_VERSION": "string", "RPMTAG_RELEASE": "string", "RPMTAG_ARCH": "string",
    "RPMTAG_VENDOR": "string", "RPMTAG_URL": "string", "RPMTAG_VCS": "string", "RPMTAG_LICENSE": "string", "RPMTAG_SUMMARY": "i18n_string",
    "RPMTAG_DESCRIPTION": "i18n_string", "RPMTAG_GROUP": "i18n_string", "RPMTAG_PACKAGER": "string", "RPMTAG_BUILDTIME": "u32",
    "RPMTAG_BUILDHOST": "string", "RPMTAG_COOKIE": "string", "RPMTAG_SOURCERPM": "string", "RPMTAG_LONGSIZE": "u64", "RPMTAG_SIZE": "u32",
    "RPMTAG_PAYLOADCOMPRESSOR": "string", "RPMTAG_BASENAMES": "string_array", "RPMTAG_DIRINDEXES": "u32_array", "RPMTAG_DIRNAMES": "string_array",
    "RPMTAG_FILEDIGESTALGO": "u32", "RPMTAG_FILEMODES": "u16_array", "RPMTAG_FILEUSERNAME": "string_array", "RPMTAG_FILEGROUPNAME": "string_array",
    "RPMTAG_FILEDIGESTS": "string_array", "RPMTAG_FILEMTIMES": "u32_array", "RPMTAG_LONGFILESIZES": "u64_array", "RPMTAG_FILESIZES": "u32_array",
    "RPMTAG_FILEFLAGS": "u32_array", "RPMTAG_FILECAPS": "string_array", "RPMTAG_FILELINKTOS": "string_array", "RPMSIGTAG_FILESIGNATURES": "string_array",
    "RPMTAG_CHANGELOGNAME": "string_array", "RPMTAG_CHANGELOGTIME": "u32_array", "RPMTAG_CHANGELOGTEXT": "string_array",
}
SCALAR = {
    "get_name": "RPMTAG_NAME", "get_epoch": "RPMTAG_EPOCH", "get_version": "RPMTAG_VERSION", "get_release": "RPMTAG_RELEASE", "get_arch": "RPMTAG_ARCH",
    "get_vendor": "RPMTAG_VENDOR", "get_url": "RPMTAG_URL", "get_vcs": "RPMTAG_VCS", "get_license": "RPMTAG_LICENSE", "get_summary": "RPMTAG_SUMMARY",
    "get_description": "RPMTAG_DESCRIPTION", "get_group": "RPMTAG_GROUP", "get_packager": "RPMTAG_PACKAGER", "get_build_time": "RPMTAG_BUILDTIME",
    "get_build_host": "RPMTAG_BUILDHOST", "get_cookie": "RPMTAG_COOKIE", "get_source_rpm": "RPMTAG_SOURCERPM", "get_payload_compressor": "RPMTAG_PAYLOADCOMPRESSOR",
    "get_file_digest_algorithm": "RPMTAG_FILEDIGESTALGO",
}
SCRIPTS = {"get_pre_install_script": "PREIN", "get_post_install_script": "POSTIN", "get_pre_uninstall_script": "PREUN", "get_post_uninstall_script": "POSTUN",
           "get_pre_trans_script": "PRETRANS", "get_post_trans_script": "POSTTRANS", "get_pre_untrans_script": "PREUNTRANS", "get_post_untrans_script": "POSTUNTRANS",
           "get_verify_script": "VERIFYSCRIPT"}
DEPS = {"get_provides": "PROVIDE", "get_requires": "REQUIRE", "get_conflicts": "CONFLICT", "get_obsoletes": "OBSOLETE", "get_recommends": "RECOMMEND",
        "get_suggests": "SUGGEST", "get_enhances": "ENHANCE", "get_supplements": "SUPPLEMENT"}
AS_TABLE = {
    "as_str": ({"StringTag"}, False), "as_char_array": ({"Char"}, False), "as_u8_array": ({"Int8"}, False), "as_u16_array": ({"Int16"}, False),
    "as_u32": ({"Int32"}, True), "as_u32_array": ({"Int32"}, False), "as_u64": ({"Int64"}, True), "as_u64_array": ({"Int64"}, False),
    "as_string_array": ({"StringArray", "I18NString"}, False), "as_i18n_str": ({"I18NString"}, True), "as_binary": ({"Bin"}, False),
}
GETTER_AS = {"binary": "as_binary", "string": "as_str", "i18n_string": "as_i18n_str", "u16_array": "as_u16_array", "u32": "as_u32", "u32_array": "as_u32_array",
             "u64": "as_u64", "u64_array": "as_u64_array", "string_array": "as_string_array"}
DECODE = {
    # variant -> (helper, fn-pointer / marker)
    "Char": ("parse_binary_entry", None), "Int8": ("parse_binary_entry", None), "Bin": ("parse_binary_entry", None),
    "Int16": ("parse_entry_data_number", "be_u16"), "Int32": ("parse_entry_data_number", "be_u32"), "Int64": ("parse_entry_data_number", "be_u64"),
    "StringTag": ("take_till", None), "StringArray": ("take_till-loop", None), "I18NString": ("take_till-loop", None), "Null": (None, None),
}


# wrappers that carry a stored value into a public struct field without losing information
LOSSLESS_WRAPPERS = [
    r"^rpm::timestamp::Timestamp::Timestamp\{(?P<x>.*)\}$",
    r"^(?:usize|u64|i64|u128)\((?P<x>.*)\)$",
    r"^constants::_::<impl constants::\w+>::from_bits_retain\((?P<x>.*)\)$",
    r"^std::convert::(?:TryFrom::try_from|TryInto::try_into)\((?P<x>.*)\)<Ok>\.0$",
    r"^std::option::Option::<T>::map\((?P<x>.*), constants::_::<impl constants::\w+>::from_bits_retain\)$",
    r"^phi\(std::option::Option::None\{\} \| std::option::Option::Some\{(?P<x>.*)\}\)$",
    r"^phi\(std::option::Option::Some\{(?P<x>.*)\} \| std::option::Option::None\{\}\)$",
    r"^std::result::Result::<T, E>::ok\((?P<x>.*)\)$",
]


def peel_lossless(t, leaf_rx):
    """strip information-preserving wrappers from a rendered term; -> (reached leaf?, what is left)"""
    for _ in range(6):
        if re.fullmatch(leaf_rx, t):
            return True, t
        for rx in LOSSLESS_WRAPPERS:
            m = re.match(rx, t)
            if m:
                t = m.group("x")
                break
        else:
            return False, t
    return False, t


def getters_in(b, tb=None):
    """[(getter suffix, receiver, tag)] for each Header::get_entry_data_as_* / entry_is_present call."""
    tb = tb or TermBuilder(b)
    out = []
    for c in b.calls():
        m = re.search(r"Header::<.*>::(get_entry_data_as_(\w+)|entry_is_present)$", c.decl)
        if m:
            tag = render(tb.term(c.args[1]))
            tag = tag.replace(TAG, "").replace(STAG, "").replace("{}", "")
            out.append((m.group(2) or "present", render(tb.term(c.args[0])), tag, c))
    return out


def run(f, fixture, rep, cfg, tier):
    rep.explanation = (
        "Table extraction over MIR compared with oracle tables: the per-type arm table of the store decoder, the variant sets "
        "the typed getters accept, the (tag, getter) pairs every public accessor uses (through the helper functions and the "
        "constant tag triples), and the field-by-field provenance of the assembled Dependency / Scriptlet / ChangelogEntry / "
        "FileEntry values through zip positions. Decides that each accessor reads the right tag with the right type and position "
        "for every header; byte-level decoding of the store is covered by the decoder table, not re-derived per value.")
    rep.trusted = ["rustc nightly MIR", "nom decoders", "itertools::multizip yields position i from input i", "rpm tag table (tag -> type)"]
    for r, d in (("R1", "decode table"), ("R2", "string-list loops skip the terminator"), ("R3", "typed getters"), ("R4", "accessor table"),
                 ("R5", "triples"), ("R6", "file entries")):
        rep.rule(r, d)
    ph = f.one("header::Header::<T>::parse_header")
    tb = TermBuilder(ph)

    # ---- R1 decode table ----------------------------------------------------------------------
    sw = None
    for sb in sorted(ph.reachable()):
        info = switch_info(ph, sb)
        if info and info["kind"] == "discr" and (info.get("enum") or "").endswith("IndexData"):
            sw = info
            sw_bb = sb
    if rep.anchor(sw is not None, "R1", "match on IndexData in parse_header"):
        arms = arms_of(ph, sw)
        targets = set(arms.values())
        reach = {t: reach_from(ph, t, blocked_blocks={sw_bb}) for t in targets}   # one iteration of the per-entry loop
        common = set.intersection(*reach.values()) if reach else set()
        for variant, (helper, fnptr) in DECODE.items():
            tgt = arms.get(variant)
            if tgt is None:
                rep.finding("R1", "decode|%s|missing" % variant, "no arm for IndexData::%s" % variant, ph.span)
                continue
            # what this arm executes before control rejoins the code common to all arms (merged patterns share blocks)
            region = reach[tgt] - common
            # arms sharing one target (merged patterns) are fine
            calls = [c for c in ph.calls() if c.bb in region]
            names = [c.decl for c in calls]
            if helper is None:
                ok = not any("parse_" in n or "take_till" in n for n in names)
                rep.check(ok, "R1", "decode|%s" % variant, "%s decodes nothing" % variant, "%s arm calls %s" % (variant, names[:4]), ph.span)
                continue
            if helper == "parse_binary_entry":
                cs = [c for c in calls if c.decl.endswith("header::parse_binary_entry")]
                ok = len(cs) == 1 and render(tb.term(cs[0].args[1])).endswith(".num_items")
                rep.check(ok, "R1", "decode|%s" % variant, "%s: num_items raw bytes" % variant, "%s arm: %s" % (variant, names[:4]), ph.span)
            elif helper == "parse_entry_data_number":
                cs = [c for c in calls if c.decl.endswith("header::parse_entry_data_number")]
                okc = len(cs) == 1 and render(tb.term(cs[0].args[1])).endswith(".num_items")
                fp = render(tb.term(cs[0].args[3])) if cs else ""
                rep.check(okc and re.search(r"nom::number::complete::%s(::<|$)" % fnptr, fp) is not None, "R1", "decode|%s" % variant, "%s: num_items x %s" % (variant, fnptr),
                          "%s arm decodes with %s (expected %s, count num_items)" % (variant, fp[-60:], fnptr), ph.span)
            elif helper == "take_till":
                cs = [c for c in calls if c.decl == "nom::bytes::complete::take_till"]
                inloop = any(any(c.bb in blks for (_h, blks) in ph.loops() if _h in region) for c in cs)
                rep.check(len(cs) == 1 and not inloop, "R1", "decode|%s" % variant, "%s: bytes up to the NUL" % variant, "%s arm: %s" % (variant, names[:5]), ph.span)
            else:
                cs = [c for c in calls if c.decl == "nom::bytes::complete::take_till"]
                nx = [c for c in calls if c.decl == "std::iter::Iterator::next" and (c.self_ty or "").startswith("std::ops::Range<u32>")]
                okl = len(cs) >= 1 and len(nx) >= 1 and any(render(tb.term(c.args[0])).endswith(".num_items}") for c in nx)
                rep.check(okl, "R1", "decode|%s" % variant, "%s: num_items NUL-terminated strings" % variant, "%s arm is not a loop of num_items take_till steps" % variant, ph.span)
        # text decoding keeps the text: every bytes->str conversion on the decode path is the lossy (never failing, never
        # dropping) one; a strict conversion with a fallback value silently replaces a non-UTF-8 string by the fallback
        convs = [c for c in ph.calls() if re.search(r"(from_utf8\w*|from_utf16\w*)$", c.decl)]
        rep.floor("R1", "bytes->text conversions in parse_header", len(convs), 2)
        for i_, c in enumerate(convs):
            rep.check(c.decl.endswith("String::from_utf8_lossy"), "R1", "decode|text|#%d" % i_, "string data is converted with from_utf8_lossy",
                      "string data is converted with %s: a string that is not valid UTF-8 is no longer returned as stored (lossily decoded) but replaced or rejected" % c.decl, c.loc())
        # zero byte is the terminator
        for cb in f.closures_of(ph):
            for bb in cb.reachable():
                for st in cb.stmts(bb):
                    if st["k"] == "assign" and st["rv"]["r"] == "bin" and st["rv"]["op"] == "Eq":
                        v = const_int(st["rv"]["b"])
                        if v is None:
                            v = const_int(st["rv"]["a"])
                        rep.check(v == 0, "R1", "decode|terminator|%s" % cb.path.rsplit("::", 1)[-1], "strings end at the NUL byte", "a string terminator test compares with %s" % v, cb.span)
    pn = f.one("header::parse_entry_data_number")
    tpn = TermBuilder(pn)
    nx = [c for c in pn.calls() if c.decl == "std::iter::Iterator::next" and (c.self_ty or "").startswith("std::ops::Range<u32>")]
    rep.check(len(nx) == 1 and render(tpn.term(nx[0].args[0])) == "std::ops::Range::Range{0_u32, num_items}", "R1", "numbers|count", "numeric arrays decode exactly num_items elements",
              "parse_entry_data_number loops over %s" % [render(tpn.term(c.args[0])) for c in nx], pn.span)
    pb = f.one("header::parse_binary_entry")
    tpb = TermBuilder(pb)
    g = [c for c in pb.calls() if re.search(r"<impl \[T\]>::get$", c.decl)]
    rep.check(len(g) == 1 and render(tpb.term(g[0].args[1])) == "std::ops::RangeTo::RangeTo{usize(num_items)}", "R1", "binary|count", "binary entries take exactly num_items bytes",
              "parse_binary_entry slices %s" % [render(tpb.term(c.args[1])) for c in g], pb.span)

    # ---- R2 ------------------------------------------------------------------------------------------
    n = 0
    loops = ph.loops()
    for c in ph.calls():
        if not (c.decl in ("std::ops::FnMut::call_mut", "std::ops::FnOnce::call_once") and "take_till" in (c.self_ty or "")):
            continue
        inner = [blks for (_h, blks) in loops if c.bb in blks]
        if not inner:
            continue    # single string: no iteration
        # innermost loop that is not the per-entry loop (the per-entry loop contains the IndexData match)
        blks = min(inner, key=len)
        if sw is not None and sw_bb in blks:
            continue
        n += 1
        t = tb.term(c.args[1])
        # unwrap tuple{cursor}
        if t[0] == "agg" and len(t[2]) == 1:
            t = t[2][0]
        alts = t[1] if t[0] == "phi" else [t]
        carried = [a for a in alts if "call_mut(" in render(a)]
        ok = bool(carried)
        why = "the cursor is not carried from one item to the next"
        for a in carried:
            r = render(a)
            if not (re.search(r"<impl \[T\]>::get\(.*RangeFrom::RangeFrom\{1_usize\}\)", r) or re.search(r"Index::index\(.*RangeFrom::RangeFrom\{1_usize\}\)", r)):
                ok = False
                why = "after an item the cursor continues at %s" % r[:160]
            # ... and on every path: a fallback to the un-advanced remainder (`get(1..).unwrap_or(rest)`) lets the loop stand
            # still on the terminator - it then yields empty strings without consuming input, as many as the entry's count says
            if re.match(r"^std::option::Option::<T>::(unwrap_or|unwrap_or_else|unwrap_or_default|map_or|map_or_else)\(", r) or r.startswith("phi("):
                ok = False
                why = "the step over the terminator has a fallback that does not advance (%s)" % r[:120]
        rep.check(ok, "R2", "string-loop|%d" % n, "string-list loop %d steps over the NUL terminator after each item" % n,
                  "a string-list loop does not skip the NUL terminator between items (%s): every later item decodes wrongly" % why, c.loc())
    rep.floor("R2", "string-list loops in parse_header", n, 1)

    # ---- R3 typed getters --------------------------------------------------------------------------------
    for name, (accept, first) in AS_TABLE.items():
        bs = [b for b in f.body_list if b.name == name and (b.impl_self or "").endswith("header::IndexData")]
        if not bs:
            if name in ("as_char_array", "as_u8_array"):
                continue
            rep.finding("R3", "as|%s|missing" % name, "IndexData::%s not found" % name)
            continue
        b = bs[0]
        info = None
        for sb in sorted(b.reachable()):
            i2 = switch_info(b, sb)
            if i2 and i2["kind"] == "discr" and (i2.get("enum") or "").endswith("IndexData"):
                info = i2
        if not rep.check(info is not None, "R3", "as|%s|match" % name, "%s matches on the variant" % name, "%s no longer matches on IndexData" % name, b.span):
            continue
        arms = arms_of(b, info)
        some = set()
        for v, tgt in arms.items():
            others = set(arms.values()) - {tgt}
            region = {x for x in reach_from(b, tgt, blocked_blocks=others)}
            makes_some = False
            for x in region:
                for st in b.stmts(x):
                    if st["k"] == "assign" and st["lhs"]["l"] == 0 and st["rv"]["r"] == "agg" and st["rv"].get("variant") == "Some":
                        makes_some = True
                if b.term(x)["t"] == "call" and b.term(x)["dest"]["l"] == 0:
                    makes_some = True
            if makes_some:
                some.add(v)
        rep.check(some == accept, "R3", "as|%s|variants" % name, "%s accepts exactly %s" % (name, sorted(accept)), "%s accepts %s (expected %s)" % (name, sorted(some), sorted(accept)), b.span)
        if first:
            # ... and nothing but the first element: the value returned for the accepted variant is first() / get(0) / [0] of the
            # stored list, optionally mapped by a conversion-only closure (a search for a "better" item returns a value the
            # entry does not store in first position)
            ret = render(TermBuilder(b).term({"c": {"l": 0, "p": []}}))
            alts = [a_ for a_ in (ret[4:-1].split(" | ") if ret.startswith("phi(") else [ret]) if not a_.startswith("std::option::Option::None")]
            CONV = r"(std::string::String::as_str|std::ops::Deref::deref|std::convert::AsRef::as_ref|std::clone::Clone::clone|std::borrow::Borrow::borrow)"
            shape = r"(std::option::Option::<&?T>::(copied|cloned|map)\()?(core::slice::<impl \[T\]>::(first|get)|std::iter::Iterator::next)\((core::slice::<impl \[T\]>::iter\()?self<\w+>\.0\)?(, 0_usize)?\)(, (closure\{\}|" + CONV + r")\))?"
            okf = bool(alts) and all(re.fullmatch(shape, a_) or re.fullmatch(r"std::option::Option::Some\{self<\w+>\.0\[0[^\]]*\]\}", a_) for a_ in alts)
            conv_only = all(re.search(CONV + "$", c2.decl) for cb2 in f.closures_of(b) for c2 in cb2.calls())
            # ... whatever the number of items (a slice pattern `[v]` instead of `[v, ..]` accepts one-element lists only)
            exact = []
            for bb_ in sorted(b.reachable()):
                for st_ in b.stmts(bb_):
                    if st_["k"] == "assign" and st_["rv"]["r"] == "bin" and st_["rv"]["op"] in ("Eq", "Ne"):
                        def _ci(o_):
                            v_ = const_int(o_)
                            if v_ is None and op_place(o_) is not None:
                                lv_ = b.origins(o_)
                                if len(lv_) == 1 and lv_[0]["kind"] == "const" and "bits" in lv_[0]["k"]:
                                    v_ = int(lv_[0]["k"]["bits"])
                            return v_
                        ca_, cb_ = _ci(st_["rv"]["a"]), _ci(st_["rv"]["b"])
                        other_ = st_["rv"]["b"] if ca_ is not None else st_["rv"]["a"]
                        k_ = ca_ if ca_ is not None else cb_
                        if k_ is not None and k_ >= 1 and any(lf_["kind"] == "un" and lf_["stmt"]["rv"]["op"] == "PtrMetadata" or (lf_["kind"] == "call" and re.search(r"::len$", lf_["call"].decl))
                                                              for lf_ in b.origins(other_, passthrough={})):
                            exact.append(k_)
            rep.check(not exact, "R3", "as|%s|any-length" % name, "%s accepts a list of any length" % name,
                      "%s tests the number of items for equality with %s: an entry with more items no longer yields its first one" % (name, exact), b.span)
            rep.check(okf and conv_only, "R3", "as|%s|first-only" % name, "%s returns the first stored element and nothing else" % name,
                      "%s returns %s: not (only) the first element of the stored list" % (name, [a_[:160] for a_ in alts]), b.span)
    for suffix, asfn in GETTER_AS.items():
        bs = [b for b in f.body_list if b.name == "get_entry_data_as_" + suffix and "header::Header<" in (b.impl_self or "")]
        if not rep.check(len(bs) == 1, "R3", "getter|%s|exists" % suffix, "get_entry_data_as_%s exists" % suffix, "get_entry_data_as_%s: %d bodies" % (suffix, len(bs))):
            continue
        b = bs[0]
        t = TermBuilder(b)
        calls = [c.decl for c in b.calls()]
        fe = [c for c in b.calls() if c.decl.endswith("find_entry_or_err")]
        ok = len(fe) == 1 and any(isinstance(u[2], tuple) and b.call_at(u[0]).decl == "std::ops::Try::branch" for u in b.uses(fe[0].dest["l"]))
        rep.check(ok and render(t.term(fe[0].args[1])) == "tag", "R3", "getter|%s|lookup" % suffix, "looks the tag up and propagates TagNotFound", "get_entry_data_as_%s lookup: %s" % (suffix, calls[:3]), b.span)
        ac_names = [c.decl for c in b.calls() if re.search(r"IndexData::as_\w+$", c.decl)]
        # the conversion may be handed to a (spliced-in) lookup helper as a function value: `lookup(tag, "uint32", IndexData::as_u32)`
        for c in b.calls():
            if re.search(r"^std::ops::(FnOnce::call_once|FnMut::call_mut|Fn::call)$", c.decl) and c.args:
                for lf in b.origins(c.args[0], passthrough={}):
                    if lf["kind"] == "const" and "fn" in lf["k"] and re.search(r"IndexData::as_\w+$", lf["k"]["fn"].get("path", "")):
                        ac_names.append(lf["k"]["fn"]["path"])
        rep.check(len(ac_names) == 1 and ac_names[0].endswith("::" + asfn), "R3", "getter|%s|as" % suffix, "uses IndexData::%s" % asfn,
                  "get_entry_data_as_%s uses %s" % (suffix, [n_.rsplit("::", 1)[-1] for n_ in ac_names]), b.span)
        errs = constructed_errors(f, b)      # in the getter itself (match / let-else form) or in its ok_or_else closure
        rep.check(errs == {"UnexpectedTagDataType"}, "R3", "getter|%s|type-error" % suffix, "a different data type is UnexpectedTagDataType", "type mismatch yields %s" % sorted(errs), b.span)
    fe = f.one("header::Header::<T>::find_entry_or_err")
    errs = constructed_errors(f, fe)
    # the index is in whatever order the package stored it (parse keeps the order): a lookup may not assume an order
    ORDERED = r"(binary_search\w*|partition_point|sort\w*|dedup\w*)$"
    n_lookup = 0
    for hb in [x for x in f.body_list if "headers::header::Header::<" in x.path]:
        htb = None
        for c in hb.calls():
            if re.search(ORDERED, c.decl) and c.args:
                htb = htb or TermBuilder(hb)
                recv = render(htb.term(c.args[0]))
                n_lookup += 1
                rep.check("index_entries" not in recv, "R3", "lookup|order-assumed|%s|%s" % (fmt_key(hb.path), re.search(ORDERED, c.decl).group(1)),
                          "no order-assuming operation on the index", "%s is applied to the header index (%s): the index of a parsed header is in stored order, not sorted" % (c.decl, recv[:120]), c.loc())
    rep.count("order_assuming_calls_on_header_paths", n_lookup)
    finds = [c for c in fe.calls() if re.search(r"Iterator::(find|position|find_map|rposition)$", c.decl.split("::<")[0]) or re.search(r"Iterator>::(find|position|find_map)", c.decl)]
    tfe = TermBuilder(fe)
    scans = [c for c in finds if "index_entries" in render(tfe.term(c.args[0]))]
    okscan = False
    for c in scans:
        for lf in fe.origins(c.args[1], passthrough={}):
            if lf["kind"] == "agg" and lf["stmt"]["rv"].get("ak") == "closure":
                cb = f.bodies.get(lf["stmt"]["rv"]["closure"])
                if cb is None:
                    continue
                ctb = TermBuilder(cb)
                for bb in cb.reachable():
                    for st in cb.stmts(bb):
                        if st["k"] == "assign" and st["rv"]["r"] == "bin" and st["rv"]["op"] == "Eq":
                            a, b2 = render(ctb.term(st["rv"]["a"])), render(ctb.term(st["rv"]["b"]))
                            if any(x.endswith(".tag") for x in (a, b2)) and any("to_u32(" in x for x in (a, b2)):
                                okscan = True
    loops_over = bool(fe.loops()) if hasattr(fe, "loops") else False
    rep.check(okscan or loops_over, "R3", "find_entry|scan", "find_entry_or_err scans the whole index for an entry whose tag equals the requested one",
              "find_entry_or_err no longer scans the index with a tag-equality predicate (calls: %s)" % sorted({c.decl.rsplit("::", 2)[-1] for c in fe.calls()})[:8], fe.span)
    rep.check(errs == {"TagNotFound"}, "R3", "find_entry|error", "an absent tag is TagNotFound", "find_entry_or_err yields %s" % sorted(errs), fe.span)

    # ---- R9 the value types the accessors build keep what they are given ---------------------------------------------
    rep.rule("R9", "FileDigest stores the digest text as given; FileMode conversions are C18's")
    fdn = [b for b in f.body_list if b.path.endswith("header::FileDigest::new") and b.kind != "closure"]
    if rep.anchor(len(fdn) == 1, "R9", "FileDigest::new"):
        fb = fdn[0]
        agf = agg_fields(fb, "header::FileDigest", TermBuilder(fb))
        want = {"digest": fb.local_name(2) or "_2", "algo": fb.local_name(1) or "_1"}
        rep.check(agf is not None and agf[0] == want,
                  "R9", "FileDigest|verbatim", "FileDigest::new stores the digest text and algorithm it is given",
                  "FileDigest::new stores %s (expected the arguments unchanged)" % (agf[0] if agf else None), fb.span)
        # no in-place edit of the text either (make_ascii_lowercase, truncate, ...)
        edits = [c.decl for c in fb.calls() if re.search(r"::(make_ascii_\w+|to_ascii_\w+|to_lowercase|to_uppercase|truncate|trim\w*|replace\w*|retain|remove|pop|push\w*|insert\w*|clear)$", c.decl)]
        rep.check(not edits, "R9", "FileDigest|no-edit", "FileDigest::new does not edit the digest text", "FileDigest::new applies %s to the digest text: what the accessor returns is no longer what the header stores" % edits, fb.span)
    rep.include("c18", f, fixture, cfg, tier, "R9", "FileMode conversion of the stored mode word", floor=20)

    # ---- R8 accessors hand the stored lists on as they are ----------------------------------------------------------
    # no accessor re-orders, de-duplicates, filters or truncates what it decoded: item i of the result is item i of the header
    rep.rule("R8", "accessors do not reorder / dedup / filter the stored lists")
    RESHAPE = r"::(dedup\w*|sort\w*|reverse|retain\w*|truncate|swap_remove|drain|rotate_\w+|split_off)(?:::<|$)|itertools::Itertools::(unique\w*|dedup\w*|sorted\w*)|Iterator::(filter|skip|take|step_by|rev|skip_while|take_while)$"
    acc_bodies = [b for b in f.body_list if (b.impl_self or "").endswith("package::PackageMetadata") and not b.derived]
    work, seen_acc = list(acc_bodies), set()
    n_acc_calls = 0
    while work:
        b = work.pop()
        if b.path in seen_acc:
            continue
        seen_acc.add(b.path)
        work += f.closures_of(b)
        for c in b.calls():
            n_acc_calls += 1
            m = re.search(RESHAPE, c.decl)
            if m:
                rep.finding("R8", "reshape|%s|%s" % (fmt_key(b.path), c.decl.rsplit("::", 1)[-1]),
                            "%s applies %s to a list on an accessor path: the result no longer corresponds position by position to what the header stores" % (b.path, c.decl), c.loc())
    rep.floor("R8", "calls scanned on accessor paths", n_acc_calls, 200)

    # ---- R7 tag numbers -----------------------------------------------------------------------------------------
    rep.rule("R7", "tag numbers equal rpm's (rpmtag.h)")
    from tagtable import check_tag_numbers
    check_tag_numbers(f, rep, "R7")

    # ---- R4 accessor table ------------------------------------------------------------------------------------
    def accessor(name):
        bs = [b for b in f.body_list if b.name == name and (b.impl_self or "").endswith("package::PackageMetadata") and b.kind != "closure"]
        return bs[0] if len(bs) == 1 else None
    n_acc = 0
    for name, tag in SCALAR.items():
        b = accessor(name)
        if not rep.check(b is not None, "R4", "%s|exists" % name, "%s exists" % name, "accessor %s not found" % name):
            continue
        n_acc += 1
        gs = getters_in(b)
        want = (TAG_TYPE[tag], "self.header", tag)
        rep.check(len(gs) == 1 and gs[0][:3] == want, "R4", "%s|tag" % name, "%s reads %s as %s" % (name, tag, TAG_TYPE[tag]),
                  "%s reads %s (expected %s as %s from the main header)" % (name, [g[:3] for g in gs], tag, TAG_TYPE[tag]), b.span)
    b = accessor("is_source_package")
    if b is not None:
        gs = getters_in(b)
        rep.check(len(gs) == 1 and gs[0][:3] == ("present", "self.header", "RPMTAG_SOURCEPACKAGE"), "R4", "is_source_package|tag", "is_source_package tests RPMTAG_SOURCEPACKAGE",
                  "is_source_package reads %s" % [g[:3] for g in gs], b.span)
    b = accessor("get_installed_size")
    if rep.check(b is not None, "R4", "get_installed_size|exists", "get_installed_size exists", "get_installed_size not found"):
        gs = getters_in(b)
        for cb in f.closures_of(b):
            gs += getters_in(cb)
        got = sorted((g[0], g[2]) for g in gs)
        rep.check(got == [("u32", "RPMTAG_SIZE"), ("u64", "RPMTAG_LONGSIZE")], "R4", "get_installed_size|tags", "LONGSIZE (u64) else SIZE (u32)", "get_installed_size reads %s" % got, b.span)
    for name, fam in SCRIPTS.items():
        b = accessor(name)
        if not rep.check(b is not None, "R4", "%s|exists" % name, "%s exists" % name, "accessor %s not found" % name):
            continue
        n_acc += 1
        t = TermBuilder(b)
        cs = [c for c in b.calls() if c.decl.endswith("PackageMetadata::get_scriptlet")]
        want = "(constants::IndexTag::RPMTAG_%s, constants::IndexTag::RPMTAG_%sFLAGS, constants::IndexTag::RPMTAG_%sPROG)" % (fam, fam, fam)
        got = render(t.term(cs[0].args[1])) if cs else ""
        rep.check(got == want, "R5", "%s|triple" % name, "%s uses the %s tag family (script, flags, prog)" % (name, fam), "%s passes %s" % (name, got[:200]), b.span)
    for name, fam in DEPS.items():
        b = accessor(name)
        if not rep.check(b is not None, "R4", "%s|exists" % name, "%s exists" % name, "accessor %s not found" % name):
            continue
        n_acc += 1
        t = TermBuilder(b)
        cs = [c for c in b.calls() if c.decl.endswith("PackageMetadata::get_dependencies")]
        got = [render(t.term(a)).replace(TAG, "").replace("{}", "") for a in cs[0].args[1:]] if cs else []
        want = ["RPMTAG_%sNAME" % fam, "RPMTAG_%sFLAGS" % fam, "RPMTAG_%sVERSION" % fam]
        rep.check(got == want, "R5", "%s|triple" % name, "%s passes (%s)" % (name, ", ".join(want)), "%s passes %s" % (name, got), b.span)
    rep.floor("R4", "public accessors checked", n_acc, 35)

    # ---- R5 helper bodies -------------------------------------------------------------------------------------------
    gd = f.one("package::PackageMetadata::get_dependencies")
    gs = [(g[0], g[2]) for g in getters_in(gd)]
    rep.check(gs == [("string_array", "names_tag"), ("u32_array", "flags_tag"), ("string_array", "versions_tag")], "R5", "get_dependencies|getters",
              "names: string array, flags: u32 array, versions: string array", "get_dependencies reads %s" % gs, gd.span)
    # fields of the assembled record, as "element of which getter's array" - independent of how the arrays are zipped
    from idioms import normalize

    def record_fields(fn_body, adt_suffix):
        out = None
        work = [fn_body]
        seen = set()
        while work:
            cb = work.pop()
            if cb.path in seen:
                continue
            seen.add(cb.path)
            work += f.closures_of(cb)
            tbc = TermBuilder(cb, closure_env=True)
            for bb in sorted(cb.reachable()):
                for st in cb.stmts(bb):
                    if st["k"] == "assign" and st["rv"]["r"] == "agg" and st["rv"].get("ak") == "adt" and st["rv"].get("adt", "").endswith(adt_suffix):
                        out = {n: render(normalize(f, tbc.term(o), tb=tbc)) for n, o in zip(st["rv"]["fields"], st["rv"]["ops"])}
        return out

    def elem_of(r):
        """(getter type, receiver, tag) when r is `ELEM(<getter>(self.X, TAG)<Ok>.0)`."""
        m = re.fullmatch(r"ELEM\(rpm::headers::header::Header::<T>::get_entry_data_as_(\w+)\(self\.(header|signature), (?:constants::Index(?:Signature)?Tag::)?(\w+)(?:\{\})?\)<Ok>\.0\)", r)
        return m.groups() if m else None
    dep = record_fields(gd, "types::Dependency") or {}
    okp, flags_inner = peel_lossless(dep.get("flags", ""), r"ELEM\(.*\)")
    rep.check(elem_of(dep.get("name", "")) == ("string_array", "header", "names_tag") and okp and elem_of(flags_inner) == ("u32_array", "header", "flags_tag")
              and elem_of(dep.get("version", "")) == ("string_array", "header", "versions_tag"),
              "R5", "get_dependencies|fields", "Dependency{name <- names[i], flags <- bits(flags[i]), version <- versions[i]}", "Dependency is assembled as %s" % {k: v[:120] for k, v in dep.items()}, gd.span)
    # "no such dependencies" is reported only when none of the three tags exists: the empty result is reached only through the
    # failure of all three getters (a partly present triple is an error, not an empty list)
    tgd0 = TermBuilder(gd)
    empties = []
    for bb in ok_assign_blocks(gd):
        for st in gd.stmts(bb):
            if st["k"] == "assign" and st["lhs"]["l"] == 0 and st["rv"]["r"] == "agg" and st["rv"].get("variant") == "Ok":
                r0 = render(tgd0.term(st["rv"]["ops"][0]))
                if r0 in ("vec![]", "buf[]") or r0.endswith("Vec::<T>::new()"):
                    empties.append(bb)
    gcalls = [c for c in gd.calls() if re.search(r"get_entry_data_as_(string_array|u32_array)$", c.decl)]
    if rep.check(len(empties) >= 1 and len(gcalls) == 3, "R5", "get_dependencies|empty-result", "get_dependencies has an empty result for absent tags", "no `Ok(vec![])` return (%d) or not three getter calls (%d) in get_dependencies" % (len(empties), len(gcalls)), gd.span):
        for g in gcalls:
            tagname = render(tgd0.term(g.args[1]))
            tested = False
            for sb in sorted(gd.reachable()):
                info = switch_info(gd, sb)
                if not info or info["kind"] != "discr":
                    continue
                lvs = gd.origins(info["place"], passthrough={})
                if not any(l["kind"] == "call" and l["call"] is g and not [p for p in l["proj"] if p.startswith("as ")] for l in lvs):
                    continue
                errt = info["targets"].get(1)
                if errt is None and info["targets"].get(0) is not None:
                    errt = info["otherwise"]
                if errt is not None and all(gd.dominates(errt, eb) for eb in empties):
                    tested = True
            if not tested:
                # the three-way decision may sit in a (spliced-in) helper whose `Ok(None)` comes back through `?` and a `let .. else`:
                # dominance is lost at the helper's return, so ask the path explorer - every abstract state that reaches the empty
                # result has seen this getter's result as Err
                try:
                    from pathsens import PathExplorer
                    if "_pe_gd" not in dir():
                        _pe_gd = PathExplorer(gd)
                        _pe_gd.run()
                    at_empty = [n_ for n_ in _pe_gd.parent if n_[0] in empties]
                    tested = bool(at_empty) and all(("d", ("call", g.bb, ()), 1) in n_[1] for n_ in at_empty)
                except RuntimeError:
                    tested = False
            rep.check(tested, "R5", "get_dependencies|empty-needs-absent|%s" % tagname, "the empty result requires %s to be absent" % tagname,
                      "get_dependencies returns an empty list without having seen the %s getter fail: a header that has the other tags of the triple is reported as having no dependencies" % tagname, g.loc())
    gsb = f.one("package::PackageMetadata::get_scriptlet")
    ag = agg_fields(gsb, "types::Scriptlet")
    if rep.anchor(ag is not None, "R5", "Scriptlet aggregate in get_scriptlet"):
        ft = ag[0]
        ok = ("get_entry_data_as_string(self.header, tags.0)" in ft.get("script", "") and "get_entry_data_as_u32(self.header, tags.1)" in ft.get("flags", "")
              and "get_entry_data_as_string_array(self.header, tags.2)" in ft.get("program", ""))
        okp, left = peel_lossless(ft.get("flags", ""), r"rpm::headers::header::Header::<T>::get_entry_data_as_u32\(self\.header, tags\.1\)(<Ok>\.0)?")
        rep.check(okp, "R5", "get_scriptlet|flags-lossless", "scriptlet flags keep every stored bit", "scriptlet flags are computed as %s" % ft.get("flags", "")[:200], gsb.span)
        rep.check(ok, "R5", "get_scriptlet|fields", "Scriptlet{script <- tags.0 string, flags <- tags.1 u32, program <- tags.2 string array}",
                  "Scriptlet is assembled as %s" % {k: v[:90] for k, v in ft.items()}, gsb.span)
    for cname, c in f.consts.items():
        m = re.search(r"constants::(\w+)_TAGS$", cname)
        if not m:
            continue
        fam = m.group(1)
        want = "(constants::IndexTag::RPMTAG_%s, constants::IndexTag::RPMTAG_%sFLAGS, constants::IndexTag::RPMTAG_%sPROG)" % (fam, fam, fam)
        rep.check(c["value"] == want, "R5", "const|%s_TAGS" % fam, "%s_TAGS is the (%s, FLAGS, PROG) family" % (fam, fam), "%s_TAGS is %s" % (fam, c["value"]))
    gc = f.one("package::PackageMetadata::get_changelog_entries")
    gs = [(g[0], g[2]) for g in getters_in(gc)]
    rep.check(gs == [("string_array", "RPMTAG_CHANGELOGNAME"), ("u32_array", "RPMTAG_CHANGELOGTIME"), ("string_array", "RPMTAG_CHANGELOGTEXT")], "R5", "changelog|getters",
              "changelog reads NAME, TIME, TEXT", "get_changelog_entries reads %s" % gs, gc.span)
    ce = record_fields(gc, "header::ChangelogEntry") or {}
    okp, ts_inner = peel_lossless(ce.get("timestamp", ""), r"ELEM\(.*\)")
    rep.check(elem_of(ce.get("name", "")) == ("string_array", "header", "RPMTAG_CHANGELOGNAME") and okp and elem_of(ts_inner) == ("u32_array", "header", "RPMTAG_CHANGELOGTIME")
              and elem_of(ce.get("description", "")) == ("string_array", "header", "RPMTAG_CHANGELOGTEXT"),
              "R5", "changelog|fields", "ChangelogEntry{name <- names[i], timestamp <- times[i], description <- texts[i]}", "ChangelogEntry is assembled as %s" % {k: v[:120] for k, v in ce.items()}, gc.span)

    # ---- R6 file paths and entries ----------------------------------------------------------------------------------------
    gp = f.one("package::PackageMetadata::get_file_paths")
    gs = [(g[0], g[2]) for g in getters_in(gp)]
    rep.check(gs == [("string_array", "RPMTAG_BASENAMES"), ("u32_array", "RPMTAG_DIRINDEXES"), ("string_array", "RPMTAG_DIRNAMES")], "R6", "file_paths|getters",
              "paths read BASENAMES, DIRINDEXES, DIRNAMES", "get_file_paths reads %s" % gs, gp.span)
    okj = False
    G = "rpm::headers::header::Header::<T>::get_entry_data_as_%s(self.header, constants::IndexTag::%s{})<Ok>.0"
    want_dir = "std::path::Path::new(core::slice::<impl [T]>::get(%s, usize(ELEM(%s)))<Some>.0)" % (G % ("string_array", "RPMTAG_DIRNAMES"), G % ("u32_array", "RPMTAG_DIRINDEXES"))
    want_base = "ELEM(%s)" % (G % ("string_array", "RPMTAG_BASENAMES"))
    work, seenp = [gp], set()
    joins_seen = []
    while work:
        cb = work.pop()
        if cb.path in seenp:
            continue
        seenp.add(cb.path)
        work += f.closures_of(cb)
        tcb = TermBuilder(cb, closure_env=True)
        for c in cb.calls():
            if c.decl == "std::path::Path::join":
                a0, a1 = render(normalize(f, tcb.term(c.args[0]))), render(normalize(f, tcb.term(c.args[1])))
                joins_seen.append((a0[:120], a1[:120]))
                # `dirs.get(i).ok_or_else(..)?` reads the element as the `Ok` payload of the converted Option
                if a0 in (want_dir, want_dir[:-len("<Some>.0)")] + "<Ok>.0)") and a1 == want_base:
                    okj = True
    okj = okj and "InvalidTagIndex" in constructed_errors(f, gp)
    rep.check(okj, "R6", "file_paths|join", "path = dirs.get(dirindex) joined with the basename of the same position; bad index -> InvalidTagIndex",
              "get_file_paths no longer joins dirs.get(dir_index) with the basename (or a bad index is not an InvalidTagIndex error)", gp.span)
    ge = f.one("package::PackageMetadata::get_file_entries")
    tge = TermBuilder(ge)
    gs = sorted({(g[0], g[2]) for g in getters_in(ge)} | {(g[0], g[2]) for cb in f.closures_of(ge) for g in getters_in(cb)})
    for (ty, tag) in gs:
        rep.check(TAG_TYPE.get(tag) == ty, "R6", "file_entries|type|%s" % tag, "%s read as %s" % (tag, ty), "%s is read as %s, rpm's tag table says %s" % (tag, ty, TAG_TYPE.get(tag)), ge.span)
    need = {"RPMTAG_FILEMODES", "RPMTAG_FILEUSERNAME", "RPMTAG_FILEGROUPNAME", "RPMTAG_FILEDIGESTS", "RPMTAG_FILEMTIMES", "RPMTAG_LONGFILESIZES", "RPMTAG_FILESIZES",
            "RPMTAG_FILEFLAGS", "RPMTAG_FILECAPS", "RPMTAG_FILELINKTOS", "RPMSIGTAG_FILESIGNATURES"}
    rep.check({t for (_y, t) in gs} >= need, "R6", "file_entries|tags", "all file attribute tags are read", "get_file_entries no longer reads %s" % sorted(need - {t for (_y, t) in gs}), ge.span)
    fe_fields = record_fields(ge, "header::FileEntry")
    own = record_fields(ge, "header::FileOwnership")
    if rep.anchor(fe_fields is not None and own is not None, "R6", "FileEntry aggregate in get_file_entries"):
        want_src = {"mode": ("u16_array", "header", "RPMTAG_FILEMODES"), "modified_at": ("u32_array", "header", "RPMTAG_FILEMTIMES"), "flags": ("u32_array", "header", "RPMTAG_FILEFLAGS"),
                    "linkto": ("string_array", "header", "RPMTAG_FILELINKTOS"), "user": ("string_array", "header", "RPMTAG_FILEUSERNAME"), "group": ("string_array", "header", "RPMTAG_FILEGROUPNAME")}
        allf = dict(fe_fields)
        allf.update(own)
        for fld, want in want_src.items():
            t = allf.get(fld, "")
            okp, inner = peel_lossless(t, r"ELEM\(.*\)")
            rep.check(okp, "R6", "file_entries|lossless|%s" % fld, "FileEntry.%s carries the stored value unchanged (only information-preserving conversions)" % fld,
                      "FileEntry.%s is computed as %s: `%s` is not an information-preserving conversion of the stored value" % (fld, t[:160], inner[:120]), ge.span)
            rep.check(okp and elem_of(inner) == want, "R6", "file_entries|fields|%s" % fld, "FileEntry.%s <- %s[i]" % (fld, want[2]),
                      "FileEntry.%s is taken from %s (expected the file's element of %s)" % (fld, inner[:160], want[2]), ge.span)
        pth = allf.get("path", "")
        rep.check(pth == "ELEM(rpm::package::PackageMetadata::get_file_paths(self)<Ok>.0)", "R6", "file_entries|fields|path", "FileEntry.path <- get_file_paths()[i]", "FileEntry.path is %s" % pth[:160], ge.span)
        okp, inner = peel_lossless(allf.get("size", ""), r"ELEM\(.*\)")
        rep.check(okp and "RPMTAG_LONGFILESIZES" in inner and inner.startswith("ELEM("), "R6", "file_entries|fields|size", "FileEntry.size <- (LONG)FILESIZES[i]", "FileEntry.size is %s" % allf.get("size", "")[:200], ge.span)
        rep.check(okp, "R6", "file_entries|lossless|size", "FileEntry.size carries the stored value unchanged", "FileEntry.size is computed as %s" % allf.get("size", "")[:160], ge.span)
        dg = allf.get("digest", "")
        rep.check("FileDigest::new(" in dg and "ELEM(rpm::headers::header::Header::<T>::get_entry_data_as_string_array(self.header, constants::IndexTag::RPMTAG_FILEDIGESTS{})<Ok>.0)" in dg,
                  "R6", "file_entries|fields|digest", "FileEntry.digest <- FILEDIGESTS[i]", "FileEntry.digest is %s" % dg[:200], ge.span)
        for fld, tagname in (("caps", "RPMTAG_FILECAPS"), ("ima_signature", "RPMSIGTAG_FILESIGNATURES")):
            t = allf.get(fld, "")
            others = set(re.findall(r"RPM(?:SIG)?TAG_\w+", t)) - {tagname}
            rep.check(tagname in t and "INDEX(" in t and "ELEM(" not in t.split("INDEX(")[0] and not (others - {"RPMTAG_BASENAMES", "RPMTAG_DIRINDEXES", "RPMTAG_DIRNAMES"} - set(re.findall(r"RPM(?:SIG)?TAG_\w+", t.split("INDEX(", 1)[1] if "INDEX(" in t else ""))),
                      "R6", "file_entries|%s" % fld, "%s is the %s entry at the file's own index" % (fld, tagname), "%s is %s" % (fld, t[:200]), ge.span)
