"""C18 - file modes convert without losing or inventing bits.

Complete abstract evaluation (E3, rules/absint.py) of the conversion functions over 16 symbolic
input bits (32 for the i32 entry point): every path of every function is enumerated, so each
obligation below is decided for all 65 536 words / all i32 values at once.
"""
from absint import Interp, BV, Enum, Ref, Tup, LeaveDomain, subst_value, Opaque
from common import fmt_key
from engine import AnchorLost

LEVEL = "proof"

# POSIX oracle (inode(7)): S_IFMT, S_IFDIR, S_IFREG, S_IFLNK
S_IFMT = 0o170000
ORACLE = {"Dir": 0o040000, "Regular": 0o100000, "SymbolicLink": 0o120000}
PERM_MASK = 0o7777


def x16():
    return BV.var("x", 16, False)


def find_from(f, src_ty):
    bs = [b for b in f.body_list if b.impl_trait == "std::convert::From" and b.name == "from"
          and b.impl_trait_full == "std::convert::From<%s>" % src_ty and (b.impl_self or "").endswith("FileMode")]
    if len(bs) != 1:
        raise AnchorLost("impl From<%s> for FileMode: found %d" % (src_ty, len(bs)))
    return bs[0]


def find_into(f, dst_ty):
    bs = [b for b in f.body_list if b.impl_trait == "std::convert::From" and b.name == "from"
          and (b.impl_self == dst_ty) and "FileMode" in (b.impl_trait_full or "")]
    if len(bs) != 1:
        raise AnchorLost("impl From<FileMode> for %s: found %d" % (dst_ty, len(bs)))
    return bs[0]


def method(f, name):
    bs = [b for b in f.body_list if b.name == name and (b.impl_self or "").endswith("::FileMode") and not b.impl_trait]
    if len(bs) != 1:
        raise AnchorLost("FileMode::%s: found %d" % (name, len(bs)))
    return bs[0]


def bits_eq(a, b):
    return isinstance(a, BV) and isinstance(b, BV) and a.w == b.w and a.bits == b.bits


def run(f, fixture, rep, cfg, tier):
    rep.explanation = (
        "Abstract interpretation of the MIR of FileMode's conversions over symbolic input bits (bit-vector domain with "
        "equality-switch refinement, interval predicates for the i32 guard, inlined callees). Every path of each body is "
        "enumerated; an obligation is discharged only if the abstract result is bit-for-bit the required one on every path. "
        "A body that leaves the domain is reported as undischarged.")
    rep.trusted = ["rustc nightly MIR construction", "soundness of the bit-vector abstract domain in rules/absint.py",
                   "POSIX S_IFMT/S_IFDIR/S_IFREG/S_IFLNK values (inode(7))"]
    rep.rule("O2", "raw_mode(from(x)) == x; file_type|permissions == x with disjoint parts; u16/u32 From<FileMode> agree")
    rep.rule("O3", "from(x) is Dir/Regular/SymbolicLink exactly when x & S_IFMT is S_IFDIR/S_IFREG/S_IFLNK, else Invalid keeping all bits")
    rep.rule("O4", "From<i32>: outside -32768..=65535 -> Invalid{raw_mode: v}; inside -> the 16-bit conversion of the low 16 bits; try_from_raw maps Invalid to Err only")
    rep.rule("O5", "regular/dir/symbolic_link store permissions & 0o7777 in their own variant")

    it = Interp(f)
    try:
        _run(f, rep, it)
    except LeaveDomain as e:
        rep.finding("domain", "left-domain", "a conversion body left the abstract domain (%s): obligation undischarged" % e)
    rep.count("paths_enumerated", it.paths)
    rep.notes.append("bodies inlined: %s" % sorted(fmt_key(p) for p in it.inlined))


def _run(f, rep, it):
    from16 = find_from(f, "u16")
    from32 = find_from(f, "i32")
    raw_mode = method(f, "raw_mode")
    file_type = method(f, "file_type")
    permissions = method(f, "permissions")
    to_u16 = find_into(f, "u16")
    to_u32 = find_into(f, "u32")
    x = x16()

    outs = it.evaluate(from16, [x])
    rep.count("from_u16_paths", len(outs))
    # ---- O3 classification ------------------------------------------------------------
    seen_variants = {}
    for o in outs:
        v = o.value
        if not isinstance(v, Enum):
            rep.finding("O3", "from-u16|not-enum", "From<u16> returned %r on some path" % (v,), from16.span)
            continue
        xs = x.subst(o.sigma)
        if v.variant in ORACLE:
            want = ORACLE[v.variant]
            type_bits_ok = all(xs.bits[i] == ((want >> i) & 1) for i in range(12, 16))
            free_low = all(xs.bits[i] == ("x", "x", i) for i in range(0, 12))
            only_type_bound = set(o.sigma) == {("x", i) for i in range(12, 16)}
            rep.check(type_bits_ok and free_low and only_type_bound and not o.excluded, "O3", "from-u16|%s|condition" % v.variant,
                      "%s is produced exactly under x & S_IFMT == %#o" % (v.variant, want),
                      "%s is produced under the wrong condition: path binds %s (expected type bits of %#o only)" % (
                          v.variant, {"x%d" % k[1]: b for k, b in sorted(o.sigma.items())}, want), from16.span)
            p = v.fields.get("permissions")
            want_p = BV(16, False, [("x", "x", i) for i in range(12)] + [0, 0, 0, 0])
            rep.check(bits_eq(p, want_p), "O3", "from-u16|%s|permissions" % v.variant,
                      "%s.permissions == x & 0o7777" % v.variant,
                      "%s.permissions is %r, expected x & 0o7777" % (v.variant, p), from16.span)
            seen_variants[v.variant] = seen_variants.get(v.variant, 0) + 1
        elif v.variant == "Invalid":
            seen_variants["Invalid"] = seen_variants.get("Invalid", 0) + 1
            rm = v.fields.get("raw_mode")
            want_rm = BV(32, True, list(xs.bits) + [0] * 16)
            rep.check(bits_eq(rm, want_rm), "O3", "from-u16|Invalid|raw_mode",
                      "Invalid keeps all 16 bits (zero-extended)",
                      "Invalid.raw_mode is %r: bits are lost or invented" % (rm,), from16.span)
            # the path must be exactly "type bits are none of the three constants"
            excluded_vals = set()
            ok_mask = True
            for (bits, vals) in o.excluded:
                for i in range(16):
                    exp = ("x", "x", i) if i >= 12 else 0
                    if bits.bits[i] != exp:
                        ok_mask = False
                excluded_vals.update(vals)
            if o.sigma:
                # reached through a case split: every bound type pattern must be a non-oracle one
                tb = [o.sigma.get(("x", i)) for i in range(12, 16)]
                if None not in tb:
                    val = sum(b << (12 + i) for i, b in enumerate(tb))
                    rep.check(val not in ORACLE.values(), "O3", "from-u16|Invalid|split",
                              "type bits %#o map to Invalid" % val, "type bits %#o (a POSIX dir/regular/symlink type) map to Invalid" % val, from16.span)
                else:
                    rep.finding("O3", "from-u16|Invalid|partial", "Invalid reached under a partial binding of the type bits: %s" % o.sigma, from16.span)
            else:
                rep.check(ok_mask and excluded_vals == set(ORACLE.values()), "O3", "from-u16|Invalid|condition",
                          "Invalid is produced exactly when x & S_IFMT is none of S_IFDIR/S_IFREG/S_IFLNK",
                          "Invalid is produced when the masked value %s is none of %s (expected mask S_IFMT and the three POSIX types)" % (
                              [repr(b) for b, _ in o.excluded], sorted(oct(v) for v in excluded_vals)), from16.span)
        else:
            rep.finding("O3", "from-u16|variant|" + v.variant, "unexpected variant %s from From<u16>" % v.variant, from16.span)
    for name in ORACLE:
        rep.check(seen_variants.get(name, 0) >= 1, "O3", "from-u16|%s|reachable" % name, "%s is reachable" % name,
                  "no 16-bit word is classified as %s" % name, from16.span)

    # ---- O2 round trips ------------------------------------------------------------------
    for o in outs:
        v = o.value
        if not isinstance(v, Enum):
            continue
        xs = x.subst(o.sigma)
        tag = v.variant + ("" if not o.sigma or v.variant in ORACLE else "|" + "".join(str(o.sigma.get(("x", i), "x")) for i in range(15, 11, -1)))
        for (fn, label) in ((raw_mode, "raw_mode"), (to_u16, "u16::from")):
            arg = Ref(v) if fn is raw_mode else v
            rs = it.evaluate(fn, [arg], o.sigma, o.constraints, o.excluded)
            ok = len(rs) >= 1 and all(bits_eq(r.value, xs) for r in rs)
            rep.check(ok, "O2", "%s|%s" % (label, tag), "%s(from(x)) == x on the %s path" % (label, v.variant),
                      "%s(from(x)) is %s, not x = %r, on the %s path" % (label, [repr(r.value) for r in rs], xs, v.variant), fn.span)
        rs = it.evaluate(to_u32, [v], o.sigma, o.constraints, o.excluded)
        want32 = BV(32, False, list(xs.bits) + [0] * 16)
        rep.check(len(rs) >= 1 and all(bits_eq(r.value, want32) for r in rs), "O2", "u32::from|" + tag,
                  "u32::from(from(x)) == x zero-extended on the %s path" % v.variant,
                  "u32::from(from(x)) is %s on the %s path" % ([repr(r.value) for r in rs], v.variant), to_u32.span)
        fts = it.evaluate(file_type, [Ref(v)], o.sigma, o.constraints, o.excluded)
        pms = it.evaluate(permissions, [Ref(v)], o.sigma, o.constraints, o.excluded)
        ok = len(fts) == 1 and len(pms) == 1
        if ok:
            ft, pm = fts[0].value, pms[0].value
            want_ft = BV(16, False, [0] * 12 + list(xs.bits[12:]))
            want_pm = BV(16, False, list(xs.bits[:12]) + [0] * 4)
            ok = bits_eq(ft, want_ft) and bits_eq(pm, want_pm)
        rep.check(ok, "O2", "parts|" + tag, "file_type == x & S_IFMT and permissions == x & 0o7777 on the %s path (disjoint, recombine to x)" % v.variant,
                  "file_type/permissions are %s / %s on the %s path" % ([repr(r.value) for r in fts], [repr(r.value) for r in pms], v.variant), file_type.span)

    # ---- O4 32-bit guard -------------------------------------------------------------------
    y = BV.var("y", 32, True)
    outs32 = it.evaluate(from32, [y])
    rep.count("from_i32_paths", len(outs32))

    def norm(c):
        (var, op, k, holds) = c
        # normalise to (lower bound on y) / (upper bound on y) as closed intervals
        if not holds:
            op = {"Gt": "Le", "Ge": "Lt", "Lt": "Ge", "Le": "Gt", "Eq": "Ne", "Ne": "Eq"}[op]
        if op == "Gt":
            return ("min", k + 1)
        if op == "Ge":
            return ("min", k)
        if op == "Lt":
            return ("max", k - 1)
        if op == "Le":
            return ("max", k)
        return (op, k)

    inside = []
    for o in outs32:
        lo, hi = -(1 << 31), (1 << 31) - 1
        odd = False
        for c in o.constraints:
            n = norm(c)
            if n[0] == "min":
                lo = max(lo, n[1])
            elif n[0] == "max":
                hi = min(hi, n[1])
            else:
                odd = True
        if odd:
            rep.finding("O4", "from-i32|odd-constraint", "From<i32> branches on %s" % (o.constraints,), from32.span)
            continue
        v = o.value
        if lo > hi:
            continue
        if lo >= 65536 or hi <= -32769:
            rng = "v > 65535" if lo >= 65536 else "v < -32768"
            ok = isinstance(v, Enum) and v.variant == "Invalid" and bits_eq(v.fields.get("raw_mode"), y.subst(o.sigma)) and not o.sigma
            rep.check(ok and (lo == 65536 or hi == -32769), "O4", "from-i32|out-of-range|" + rng,
                      "%s yields Invalid{raw_mode: v} (range bound exact)" % rng,
                      "for %d..=%d From<i32> yields %r" % (lo, hi, v), from32.span)
        else:
            inside.append((lo, hi, o))
    # the union of the "inside" paths must be exactly -32768..=65535 and each must equal From<u16>(low 16 bits)
    if inside:
        lo = min(i[0] for i in inside)
        hi = max(i[1] for i in inside)
        rep.check((lo, hi) == (-32768, 65535), "O4", "from-i32|in-range|bounds",
                  "the 16-bit conversion is reached exactly for -32768..=65535",
                  "the 16-bit conversion is reached for %d..=%d (expected -32768..=65535)" % (lo, hi), from32.span)
        ylow = BV(16, False, [("x", "y", i) for i in range(16)])
        ref = it.evaluate(from16, [ylow])
        refset = sorted(repr(Outcome_key(r)) for r in ref)
        got = sorted(repr(Outcome_key(o, drop_constraints=True)) for (_l, _h, o) in inside)
        rep.check(refset == got, "O4", "from-i32|in-range|delegates",
                  "in range, From<i32>(v) == From<u16>(v as u16) on every path (%d paths)" % len(got),
                  "in range, From<i32> does not equal From<u16> of the low 16 bits: %s vs %s" % (got[:2], refset[:2]), from32.span)
    else:
        rep.finding("O4", "from-i32|in-range|missing", "no path of From<i32> reaches the 16-bit conversion", from32.span)

    # try_from_raw / to_result
    to_result = method(f, "to_result")
    try_from_raw = method(f, "try_from_raw")
    shapes = {
        "Dir": Enum(from16.impl_self, "Dir", {"permissions": x}),
        "Regular": Enum(from16.impl_self, "Regular", {"permissions": x}),
        "SymbolicLink": Enum(from16.impl_self, "SymbolicLink", {"permissions": x}),
        "Invalid": Enum(from16.impl_self, "Invalid", {"raw_mode": y, "reason": Opaque("reason")}),
    }
    adt = None
    for p in f.adts:
        if p.endswith("::FileMode"):
            adt = p
    for name, shape in shapes.items():
        shape.adt = adt or shape.adt
        rs = it.evaluate(to_result, [shape])
        ok = len(rs) == 1 and isinstance(rs[0].value, Enum)
        if ok:
            r = rs[0].value
            if name == "Invalid":
                ok = r.variant == "Err"
                inner = r.fields.get("0")
                ok = ok and isinstance(inner, Enum) and inner.variant == "InvalidFileMode" and bits_eq(inner.fields.get("raw_mode"), y)
            else:
                inner = r.fields.get("0")
                ok = r.variant == "Ok" and isinstance(inner, Enum) and inner.variant == name and bits_eq(inner.fields.get("permissions"), x)
        rep.check(ok, "O4", "to_result|" + name, "to_result maps %s to %s" % (name, "Err(InvalidFileMode)" if name == "Invalid" else "Ok(self)"),
                  "to_result maps %s to %s" % (name, [repr(r.value) for r in rs]), to_result.span)
    rs = it.evaluate(try_from_raw, [y])
    bad = []
    for r in rs:
        v = r.value
        if not isinstance(v, Enum) or v.variant not in ("Ok", "Err"):
            bad.append(repr(v))
            continue
        inner = v.fields.get("0")
        if v.variant == "Ok" and not (isinstance(inner, Enum) and inner.variant in ORACLE):
            bad.append(repr(v))
        if v.variant == "Err" and not (isinstance(inner, Enum) and inner.variant == "InvalidFileMode"):
            bad.append(repr(v))
    rep.check(rs and not bad, "O4", "try_from_raw", "try_from_raw is Ok for the three valid kinds and Err(InvalidFileMode) otherwise (%d paths)" % len(rs),
              "try_from_raw yields %s" % bad[:3], try_from_raw.span)

    # ---- O5 constructors -------------------------------------------------------------------
    for (fname, variant) in (("regular", "Regular"), ("dir", "Dir"), ("symbolic_link", "SymbolicLink")):
        b = method(f, fname)
        rs = it.evaluate(b, [x])
        want_p = BV(16, False, [("x", "x", i) for i in range(12)] + [0, 0, 0, 0])
        ok = len(rs) == 1 and isinstance(rs[0].value, Enum) and rs[0].value.variant == variant and bits_eq(rs[0].value.fields.get("permissions"), want_p)
        rep.check(ok, "O5", "ctor|" + fname, "FileMode::%s(p) == %s{permissions: p & 0o7777}" % (fname, variant),
                  "FileMode::%s(p) yields %s" % (fname, [repr(r.value) for r in rs]), b.span)

    # public constants (API) agree with POSIX
    for cname, want in (("REGULAR_FILE_TYPE", 0o100000), ("DIR_FILE_TYPE", 0o040000), ("SYMBOLIC_LINK_FILE_TYPE", 0o120000)):
        try:
            v = f.const_int(cname)
        except AnchorLost:
            continue  # the constant is not part of what C18 states; absence is not a violation
        rep.check(v == want, "O3", "const|" + cname, "%s == %#o" % (cname, want), "%s is %#o, POSIX says %#o" % (cname, v, want))


def Outcome_key(o, drop_constraints=False):
    """Comparable rendering of an outcome with input variable renamed to 'v'."""
    def ren(b):
        if isinstance(b, tuple):
            return (b[0], "v", b[2])
        return b

    def rv(v):
        if isinstance(v, BV):
            return BV(v.w, v.signed, [ren(b) for b in v.bits])
        if isinstance(v, Enum):
            return Enum(v.adt, v.variant, {k: rv(x) for k, x in v.fields.items()})
        return v
    sig = tuple(sorted((k[1], b) for k, b in o.sigma.items()))
    excl = tuple(sorted((repr(rv(b)), tuple(sorted(vs))) for b, vs in o.excluded))
    return (sig, excl, repr(rv(o.value)))
