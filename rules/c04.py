"""C04 - untrusted bytes never crash the reader: complete panic / abort / allocation site audit of
the read side.  See rules/audit.py for the discharge arguments."""
import re
from engine import AnchorLost, op_place, const_int
from audit import Auditor
from common import fmt_key
from terms import TermBuilder, render

ENTRY_RX = [
    r"package::Package::(parse|open|files|verify_digests|verify_signature|signature_key_ids)$",
    r"package::PackageMetadata::(parse|open|get_\w+|is_\w+)$",
    r"header::Header::<T>::(entry_is_present|get_entry_data_as_\w+)$",
    r"package::FileIterator<'_> as std::iter::Iterator>::next$",
    r"signature::echo_signature$",
    r"signatures::decode_sig$",
    r"pgp::Verifier::parse_signature$",
    r"pgp::Verifier as rpm::signature::traits::Verifying>::verify$",
    r"payload::Reader::<R>::(new|finish|is_trailer)$",
    r"payload::Reader<R> as std::io::Read>::read$",
    r"compressor::decompress_stream$",
    r"header::FileDigest::new$",
    r"lead::Lead::parse$",
    r"errors::Error as std::convert::From<nom::Err",
    r"header::Header<constants::Index(Signature)?Tag> as std::fmt::Display>::fmt$",
    r"header::IndexEntry<T> as std::fmt::(Display|Debug)>::fmt$",
    r"types::FileMode as std::convert::From<(u16|i32)>>::from$",
]


# ---- allow-list preconditions (mechanically re-checked on every run) -------------------------
def pre_len_to_u32(f, s):
    """unwrap() of try_into() applied to the length of an in-memory Vec."""
    tb = TermBuilder(s.body)
    t = render(tb.term(s.call.args[0]))
    ok = t.startswith("std::convert::TryInto::try_into(std::vec::Vec::<T, A>::len(")
    return ok, "operand is try_into(Vec::len(..))" if ok else "operand is %s" % t[:120]


def pre_lead_rest(f, s):
    """rest.try_into().unwrap() in Lead::parse: every caller passes a [u8; 96] and 80 bytes were consumed."""
    lead_size = f.const_int("LEAD_SIZE")
    callers = []
    for b in f.body_list:
        for c in b.calls():
            if c.decl.endswith("lead::Lead::parse"):
                callers.append((b, c))
    if not callers:
        return False, "no caller of Lead::parse found"
    for (b, c) in callers:
        ok = False
        for lf in b.origins(c.args[0]):
            if lf["kind"] == "repeat" and lf["stmt"]["rv"]["n"].split("_")[0] == str(lead_size):
                ok = True
        pl = op_place(c.args[0])
        if not ok:
            return False, "caller %s does not pass a [u8; %d]" % (b.path, lead_size)
    from seqs import consumption
    seq = consumption(s.body)
    total = sum(w for (w, _d, _c) in seq if isinstance(w, int))
    want = lead_size - 16
    # the unwrapped value is the conversion of a slice into the 16 reserved bytes (whichever unwrap of the function this is)
    conv = [lf["call"] for lf in s.body.origins(s.call.args[0], passthrough={}) if lf["kind"] == "call" and lf["call"].decl == "std::convert::TryInto::try_into"] if s.call is not None and s.call.args else []
    if not (len(conv) == 1 and (conv[0].gargs or [None, None])[1] == "[u8; 16]"):
        return False, "the unwrapped value is not a conversion into [u8; 16]"
    return total == want, "callers pass [u8; %d]; Lead::parse consumes %d bytes before the 16 reserved ones" % (lead_size, total)


def pre_reader_invariant(f, s):
    """Reader.bytes_read <= Reader.file_size: bytes_read is only set to 0 at construction and advanced in
    read() by a count that is at most min(buf.len(), file_size - bytes_read)."""
    writers = []
    for b in f.body_list:
        if "payload::Reader" not in b.path:
            continue
        for bb in b.reachable():
            for st in b.stmts(bb):
                if st["k"] == "assign" and st["lhs"]["p"] and any(isinstance(p, dict) and p.get("n") == "bytes_read" for p in st["lhs"]["p"]):
                    writers.append(b.path)
                if st["k"] == "assign" and st["rv"]["r"] == "agg" and st["rv"].get("adt", "").endswith("payload::Reader"):
                    i = st["rv"]["fields"].index("bytes_read")
                    if const_int(st["rv"]["ops"][i]) != 0:
                        return False, "Reader is constructed with a non-zero bytes_read in %s" % b.path
    ws = sorted(set(writers))
    ok = len(ws) == 1 and ws[0].endswith("as std::io::Read>::read")
    if not ok:
        return False, "bytes_read is assigned in %s" % ws
    rd = f.bodies[ws[0]]
    tb = TermBuilder(rd)
    inner = [c for c in rd.calls() if c.decl == "std::io::Read::read"]
    if len(inner) != 1:
        return False, "read() has %d inner reads" % len(inner)
    t = render(tb.term(inner[0].args[1]))
    ok = "std::cmp::Ord::min(" in t and "SubWithOverflow(self.file_size, " in t
    return ok, "bytes_read only advances in read() by the count of an inner read limited to min(buf.len(), file_size - bytes_read)" if ok else "inner read buffer is %s" % t[:200]


def pre_header_size_checked(f, s):
    """Header::size arithmetic: Header::parse rejects intro fields whose total overflows u32."""
    hp = f.one("header::Header::<T>::parse")
    names = [c.decl for c in hp.calls()]
    work = list(f.closures_of(hp))
    while work:
        cb = work.pop()
        names += [c.decl for c in cb.calls()]
        work += f.closures_of(cb)
    need = ["core::num::<impl u32>::checked_mul", "core::num::<impl u32>::checked_add"]
    ok = all(n in names for n in need) and names.count("core::num::<impl u32>::checked_add") >= 2
    tb = TermBuilder(hp)
    t = ""
    for c in hp.calls():
        if c.decl == "std::io::Read::take":
            t = render(tb.term(c.args[1]))
    ok = ok and "checked_mul(index_header.num_entries" in t.replace("rpm::headers::header::IndexHeader::parse(buf)<Ok>.0", "index_header") or ok
    return ok, "Header::parse computes num_entries*16 + data_section_size (+16) with checked_mul/checked_add and errors on overflow"


def pre_debug_assert_entry_size(f, s):
    """debug_assert in parse_header: IndexEntry::parse consumes exactly INDEX_ENTRY_SIZE bytes."""
    from seqs import consumption
    ep = f.one("header::IndexEntry::<T>::parse")
    seq = consumption(ep)
    total = sum(w for (w, _d, _c) in seq if isinstance(w, int))
    want = f.const_int("INDEX_ENTRY_SIZE")
    return total == want, "IndexEntry::parse consumes %d bytes (INDEX_ENTRY_SIZE = %d) and returns the rest" % (total, want)


def pre_debug_assert_store_size(f, s):
    """second debug_assert in parse_header: buffer = num_entries*16 + data_section_size exactly."""
    ok1, why1 = pre_debug_assert_entry_size(f, s)
    hp = f.one("header::Header::<T>::parse")
    from common import switch_info
    has_len_check = any(c.decl == "std::io::Read::take" for c in hp.calls())
    ok2, why2 = pre_header_size_checked(f, s)
    return ok1 and ok2 and has_len_check, "Header::parse hands parse_header exactly num_entries*16 + data_section_size bytes (length checked) and each entry consumes 16"


def pre_placeholder_impl(f, s):
    ok = "PhantomData" in (s.body.impl_self or "")
    return ok, "impl for PhantomData<T> is a documented placeholder that panics independent of any input"


ALLOW = {
    "package::Package::signature_key_ids|unwrap|std::result::Result::<T, E>::unwrap|#0":
        ("usize -> u32 conversion of the length of an in-memory Vec of issuer ids: fails only beyond 2^32 elements", pre_len_to_u32),
    "package::Package::signature_key_ids|unwrap|std::result::Result::<T, E>::unwrap|#1":
        ("usize -> u32 conversion of the length of an in-memory Vec of issuer ids: fails only beyond 2^32 elements", pre_len_to_u32),
    "headers::lead::Lead::parse|unwrap|std::result::Result::<T, E>::unwrap|#*":
        ("the remainder after the fixed 80-byte prefix of a 96-byte lead is exactly the 16 reserved bytes", pre_lead_rest),
    "payload::Reader::<R>::finish|assert|Overflow(Sub)|#0":
        ("bytes_read never exceeds file_size", pre_reader_invariant),
    "<rpm::payload::Reader<R> as std::io::Read>::read|assert|Overflow(Sub)|#0":
        ("bytes_read never exceeds file_size", pre_reader_invariant),
    "<rpm::payload::Reader<R> as std::io::Read>::read|assert|Overflow(Add)|#0":
        ("bytes_read + n <= file_size because n <= file_size - bytes_read", pre_reader_invariant),
    "headers::header::Header::<T>::size|assert|Overflow(Mul)|#0":
        ("parsed headers satisfy num_entries*16 + data_section_size + 16 <= u32::MAX", pre_header_size_checked),
    "headers::header::Header::<T>::size|assert|Overflow(Add)|#0":
        ("parsed headers satisfy num_entries*16 + data_section_size + 16 <= u32::MAX", pre_header_size_checked),
    "headers::header::Header::<T>::size|assert|Overflow(Add)|#1":
        ("parsed headers satisfy num_entries*16 + data_section_size + 16 <= u32::MAX", pre_header_size_checked),
    "headers::header::Header::<T>::parse_header|assert|Overflow(Sub)|#0":
        ("debug assertion: the remainder after parsing one index entry is shorter than before", pre_debug_assert_entry_size),
    "headers::header::Header::<T>::parse_header|panic|core::panicking::assert_failed|#0":
        ("debug assertion: one index entry is 16 bytes", pre_debug_assert_entry_size),
    "headers::header::Header::<T>::parse_header|panic|core::panicking::assert_failed|#1":
        ("debug assertion: what remains after the index is the data section", pre_debug_assert_store_size),
    "<std::marker::PhantomData<T> as rpm::signature::traits::Verifying>::verify|panic|core::panicking::panic_fmt|#0":
        ("placeholder verifier", pre_placeholder_impl),
}


def read_cone(f):
    roots = []
    missing = []
    for rx in ENTRY_RX:
        bs = [b for b in f.find(rx=rx) if b.kind != "closure"]
        if not bs:
            missing.append(rx)
        roots += bs
    return roots, missing


def run(f, fixture, rep, cfg, tier):
    rep.explanation = (
        "Complete audit of every panic-capable, abort-capable or allocating construct (MIR Assert terminators, "
        "unwrap/expect/panic/indexing/slice-precondition calls, allocation calls) in the call-graph cone of the read-side API. "
        "Each site must be discharged by an interval/guard argument, by infeasibility in the predicate abstraction, or by a "
        "reviewed allow-list entry whose precondition is re-checked mechanically; any other site - in particular any new one - "
        "is reported. Panics inside dependencies (nom, pgp, decompressors) are trusted and listed in DESIGN.md.")
    rep.trusted = ["rustc nightly MIR (dev profile: overflow and bounds checks are explicit Assert terminators)",
                   "nom / pgp / base64 / decompressor crates do not panic on malformed input",
                   "the allow-list reasons in rules/c04.py"]
    rep.rule("R", "every panic/abort/allocation site on the read cone is bounded, guarded, infeasible or reviewed")
    if cfg == "no-default":
        entry = [rx for rx in ENTRY_RX if "pgp" not in rx and "decode_sig" not in rx and "signature_key_ids" not in rx and "verify_signature" not in rx]
    else:
        entry = ENTRY_RX
    roots = []
    for rx in entry:
        bs = [b for b in f.find(rx=rx) if b.kind != "closure"]
        rep.anchor(len(bs) >= 1, "R", "read-side entry point /%s/" % rx)
        roots += bs
    cone = f.cone(roots)
    bodies = [b for b in cone.values() if not b.derived]
    rep.floor("R", "bodies in the read cone (%s)" % cfg, len(bodies), 60 if cfg == "no-default" else 120)
    aud = Auditor(f, rep, "C04", "R", ALLOW)
    for b in bodies:
        aud.audit_body(b)
    aud.finish()
    rep.floor("R", "panic/alloc sites enumerated on the read cone (%s)" % cfg, aud.stats["sites"], 25)
    # tainted-count loops must be able to fail and must advance the cursor
    check_count_loops(f, rep, cone)
    check_iteration_ends(f, rep)
    # the string-list loops additionally have to advance past every terminator (C05.R2): a cursor that can stand still turns the
    # entry's count into that many empty strings
    rep.include("c05", f, fixture, cfg, tier, "R", "string-list loop cursor", only_rules={"R2"}, floor=1)
    # positive control: the fixture's unguarded constructs must be flagged
    from framework import Report
    probe = Report("C04", "quick")
    a2 = Auditor(fixture, probe, "C04", "R", {})
    for name in ("c04_unguarded_index", "c04_unchecked_add", "c04_alloc_from_input", "c04_unwrap"):
        a2.audit_body(fixture.one(name))
    flagged = {fd["key"].split("|")[2] for fd in probe.findings}
    for name in ("c04_unguarded_index", "c04_unchecked_add", "c04_alloc_from_input", "c04_unwrap"):
        rep.check(name in flagged, "control", "control|" + name, "control %s is flagged" % name, "positive control %s is no longer flagged: the audit is blind" % name)
    probe2 = Report("C04", "quick")
    a3 = Auditor(fixture, probe2, "C04", "R", {})
    for name in ("c04_guarded_index", "c04_bounded_alloc", "c04_exhaustive_question_marks"):
        a3.audit_body(fixture.one(name))
    rep.check(not probe2.findings, "control", "control|negative", "guarded / bounded / infeasible controls are accepted",
              "negative controls are flagged: %s" % [fd["key"] for fd in probe2.findings])


def check_iteration_ends(f, rep):
    """Iterating the payload of a hostile package terminates: whenever FileIterator::next reports an error it also ends the
    iteration (`count = file_entries.len()`), otherwise a truncated archive yields the same error forever."""
    its = [b for b in f.body_list if b.impl_trait == "std::iter::Iterator" and "package::FileIterator" in (b.impl_self or "") and b.name == "next"]
    if not rep.anchor(len(its) == 1, "R", "impl Iterator for FileIterator"):
        return
    it = its[0]
    from c07 import count_write_kinds
    steps, terminal, other = count_write_kinds(it)
    errs = []
    for bb in it.reachable():
        for st in it.stmts(bb):
            if st["k"] == "assign" and st["lhs"]["l"] == 0 and not st["lhs"]["p"] and st["rv"]["r"] == "agg" and st["rv"].get("variant") == "Some":
                is_err = False
                for lf in it.origins(st["rv"]["ops"][0], passthrough={}):
                    if lf["kind"] == "agg" and lf["stmt"]["rv"].get("variant") == "Err":
                        is_err = True
                if is_err:
                    errs.append(bb)
    rep.floor("R", "error returns of FileIterator::next", len(errs), 1)
    for i, bb in enumerate(sorted(errs)):
        ok = any(t_ == bb or it.dominates(t_, bb) for t_ in terminal)
        rep.check(ok, "R", "FileIterator::next|error-ends-iteration|#%d" % i, "an error return of FileIterator::next ends the iteration",
                  "FileIterator::next returns Some(Err(..)) without ending the iteration: the next call runs into the same condition again - files() on a truncated or corrupt archive never terminates",
                  "%s:%s" % (it.file, it.term(bb).get("line")))


def check_count_loops(f, rep, cone):
    """Loops `for _ in 0..n` whose bound is decoded from the input must consume input or fail in
    every iteration (otherwise a 16-byte entry can demand 2^32 iterations / pushes)."""
    n = 0
    for b in cone.values():
        if b.derived:
            continue
        for (head, blocks) in b.loops():
            # loop driven by Range<u32>::next ?
            nx = [c for c in b.calls() if c.bb in blocks and c.decl == "std::iter::Iterator::next" and (c.self_ty or "").startswith("std::ops::Range<u32>")]
            if not nx:
                continue
            tb = TermBuilder(b)
            t = render(tb.term(nx[0].args[0]))
            if not re.search(r"num_items|num_entries", t):
                continue
            n += 1
            pushes = [c for c in b.calls() if c.bb in blocks and c.decl.endswith("Vec::<T, A>::push")]
            fallible = [c for c in b.calls() if c.bb in blocks and c.decl == "std::ops::Try::branch"]
            # a `?` exit inside the loop whose operand depends on the input cursor
            ok = False
            for q in fallible:
                tq = render(tb.term(q.args[0]))
                if re.search(r"nom::|IndexEntry::<T>::parse|std::ops::Fn::call\(parser|<impl \[T\]>::get", tq):
                    ok = True
            rep.check(ok or not pushes, "R", "%s|count-loop|%d" % (fmt_key(b.path), head),
                      "%s: loop over a decoded count fails or consumes input in every iteration" % fmt_key(b.path),
                      "%s: a loop whose trip count is decoded from the input (%s) pushes without a failing decoder step - unbounded work/memory from a few bytes" % (b.path, t[:80]),
                      "%s:%s" % (b.file, b.term(head).get("line")))
    rep.count("decoded_count_loops", n)
