"""Path-sensitive reachability with a finite predicate abstraction (DESIGN §2.1).

The abstract state at a block is
    facts   : known discriminants of immutable values ("d", key) -> int, emptiness of slices
              ("empty", key) -> bool                      (key = canonical origin of the value)
    flags   : rule-defined events seen on the path (e.g. 'verify', 'digests')
    nexted  : collections whose iterator has already yielded on this path
    ret     : which Result variant was last stored into the return place
and the analysis is a reachability computation over (block, state) pairs - a dataflow analysis on
a finite lattice, not constraint solving: branches are pruned only by predicates that the code
itself tested earlier on the path (same canonical value), plus the lemma
    non-empty(S)  =>  the first next() of S.iter() yields Some.
"""
from collections import deque
from engine import op_place, proj_key
from common import switch_info, ok_assign_blocks, err_assign_blocks, residual_return_blocks

BOOL_TESTS = {
    # callee -> (kind, value-when-true)
    "std::result::Result::<T, E>::is_ok": ("d", 0),
    "std::result::Result::<T, E>::is_err": ("d", 1),
    "std::option::Option::<T>::is_some": ("d", 1),
    "std::option::Option::<T>::is_none": ("d", 0),
    "core::slice::<impl [T]>::is_empty": ("empty", True),
    "std::vec::Vec::<T, A>::is_empty": ("empty", True),
    "core::str::<impl str>::is_empty": ("empty", True),
    "std::string::String::is_empty": ("empty", True),
}


def canon(body, place_or_op, passthrough=None):
    """Canonical identity of the value a place denotes (through moves, refs and reborrows)."""
    lv = body.origins(place_or_op, passthrough=passthrough if passthrough is not None else {})
    keys = set()
    for l in lv:
        proj = tuple(p for p in l.get("proj", ()) if p != "*")
        if l["kind"] == "call":
            keys.add(("call", l["call"].bb, proj))
        elif l["kind"] == "arg":
            keys.add(("arg", l["n"], tuple(p for p in l["proj"] if p != "*")))
        else:
            keys.add((l["kind"], l.get("bb"), proj))
    if len(keys) == 1:
        return next(iter(keys))
    return None


class PathExplorer:
    def __init__(self, body, on_call=None):
        self.body = body
        self.on_call = on_call or (lambda call, flags: ())
        self.ok_blocks = set(ok_assign_blocks(body))
        self.err_blocks = {bb for (bb, _v) in err_assign_blocks(body)} | {bb for (bb, _c) in residual_return_blocks(body)}
        self.states = 0
        self.pruned = 0

    def run(self, max_states=400000):
        body = self.body
        init = (0, frozenset(), frozenset(), frozenset(), None)
        parent = {init: None}
        dq = deque([init])
        finals = []
        while dq:
            node = dq.popleft()
            self.states += 1
            if self.states > max_states:
                raise RuntimeError("state explosion")
            for nxt in self.step(node):
                if nxt not in parent:
                    parent[nxt] = node
                    if nxt[0] is None:
                        finals.append(nxt)
                    else:
                        dq.append(nxt)
        self.parent = parent
        return finals

    def trace(self, node):
        out = []
        while node is not None:
            out.append(node[0] if node[0] is not None else "return")
            node = self.parent.get(node)
        out.reverse()
        return out

    # ------------------------------------------------------------------------------------
    def step(self, node):
        body = self.body
        bb, facts, flags, nexted, ret = node
        t = body.term(bb)
        k = t["t"]
        if bb in self.ok_blocks:
            ret = "ok"
        elif bb in self.err_blocks:
            ret = "err"
        if k == "return":
            return [(None, facts, flags, nexted, ret)]
        if k in ("unreachable", "resume", "terminate"):
            return []
        if k == "call":
            c = body.call_at(bb)
            # kill facts about this call's previous result (loops)
            facts = frozenset(f for f in facts if not (f[1][0] == "call" and f[1][1] == bb))
            add = self.on_call(c, flags)
            if add:
                flags = flags | frozenset(add)
            if c.decl == "std::iter::Iterator::next":
                from engine import PASS_THROUGH
                K = canon(body, c.args[0], PASS_THROUGH)
                if K is not None:
                    if ("empty", K, False) in facts and K not in nexted:
                        facts = facts | {("d", ("call", bb, ()), 1)}
                    nexted = nexted | {K}
            elif c.decl in ("core::slice::<impl [T]>::iter", "std::iter::IntoIterator::into_iter"):
                from engine import PASS_THROUGH
                K = canon(body, c.args[0], PASS_THROUGH)
                if K is not None and K in nexted:
                    nexted = nexted - {K}
            if t["target"] is None:
                return []
            return [(t["target"], facts, flags, nexted, ret)]
        if k == "switch":
            info = switch_info(body, bb)
            out = []
            if info["kind"] == "discr":
                key = canon(body, info["place"])
                known = None
                if key is not None:
                    for f in facts:
                        if f[0] == "d" and f[1] == key:
                            known = f[2]
                if known is not None:
                    self.pruned += 1
                    return [(info["targets"].get(known, info["otherwise"]), facts, flags, nexted, ret)]
                seen_t = set()
                for v, tgt in info["targets"].items():
                    nf = facts | {("d", key, v)} if key is not None else facts
                    out.append((tgt, nf, flags, nexted, ret))
                    seen_t.add(tgt)
                # otherwise branch: for two-variant enums with one listed value the other is implied
                if info["otherwise"] not in seen_t or True:
                    nf = facts
                    vals = set(info["targets"].keys())
                    if key is not None and vals == {0}:
                        nf = facts | {("d", key, 1)}
                    elif key is not None and vals == {1}:
                        nf = facts | {("d", key, 0)}
                    if not self._is_unreachable(info["otherwise"]):
                        out.append((info["otherwise"], nf, flags, nexted, ret))
                return out
            if info["kind"] == "bool" and info["call"].decl in BOOL_TESTS:
                kind, tv = BOOL_TESTS[info["call"].decl]
                key = canon(body, info["call"].args[0])
                if key is not None:
                    if kind == "d":
                        known = None
                        for f in facts:
                            if f[0] == "d" and f[1] == key:
                                known = f[2]
                        if known is not None:
                            self.pruned += 1
                            return [((info["true"] if known == tv else info["false"]), facts, flags, nexted, ret)]
                        return [(info["true"], facts | {("d", key, tv)}, flags, nexted, ret),
                                (info["false"], facts | {("d", key, 1 - tv)}, flags, nexted, ret)]
                    else:
                        known = None
                        for f in facts:
                            if f[0] == "empty" and f[1] == key:
                                known = f[2]
                        if known is not None:
                            self.pruned += 1
                            return [((info["true"] if known == tv else info["false"]), facts, flags, nexted, ret)]
                        return [(info["true"], facts | {("empty", key, tv)}, flags, nexted, ret),
                                (info["false"], facts | {("empty", key, not tv)}, flags, nexted, ret)]
            for s in body.succ(bb):
                if not self._is_unreachable(s):
                    out.append((s, facts, flags, nexted, ret))
            return out
        return [(s, facts, flags, nexted, ret) for s in body.succ(bb)]

    def _is_unreachable(self, bb):
        return self.body.term(bb)["t"] == "unreachable" and not self.body.stmts(bb)
