"""Path-sensitive reachability with a finite predicate abstraction (DESIGN §2.1).

The abstract state at a block is
    facts   : known discriminants of immutable values ("d", key) -> int, emptiness of slices
              ("empty", key) -> bool                      (key = canonical origin of the value)
    flags   : rule-defined events seen on the path (e.g. 'verify', 'digests')
    nexted  : collections whose iterator has already yielded on this path
    ret     : which Result variant was last stored into the return place
and the analysis is a reachability computation over (block, state) pairs - a dataflow analysis on
a finite lattice, not constraint solving: branches are pruned only by predicates that the code
itself tested earlier on the path (same canonical value), plus the lemma
    non-empty(S)  =>  the first next() of S.iter() yields Some.
"""
from collections import deque
from engine import op_place, proj_key
from common import switch_info, ok_assign_blocks, err_assign_blocks, residual_return_blocks

BOOL_TESTS = {
    # callee -> (kind, value-when-true)
    "std::result::Result::<T, E>::is_ok": ("d", 0),
    "std::result::Result::<T, E>::is_err": ("d", 1),
    "std::option::Option::<T>::is_some": ("d", 1),
    "std::option::Option::<T>::is_none": ("d", 0),
    "core::slice::<impl [T]>::is_empty": ("empty", True),
    "std::vec::Vec::<T, A>::is_empty": ("empty", True),
    "core::str::<impl str>::is_empty": ("empty", True),
    "std::string::String::is_empty": ("empty", True),
}


# pure views of the same object (used to identify a matched value across repeated `.as_slice()` etc.)
VIEW_PASS = {
    "std::array::<impl [T; N]>::as_slice": {"args": [0], "proj": lambda p: p},
    "core::array::<impl [T; N]>::as_slice": {"args": [0], "proj": lambda p: p},
    "std::vec::Vec::<T, A>::as_slice": {"args": [0], "proj": lambda p: p},
    "std::ops::Deref::deref": {"args": [0], "proj": lambda p: p},
    "std::convert::AsRef::as_ref": {"args": [0], "proj": lambda p: p},
    "std::string::String::as_str": {"args": [0], "proj": lambda p: p},
    "std::string::String::as_bytes": {"args": [0], "proj": lambda p: p},
    "core::str::<impl str>::as_bytes": {"args": [0], "proj": lambda p: p},
}


def canon(body, place_or_op, passthrough=None):
    """Canonical identity of the value a place denotes (through moves, refs and reborrows)."""
    lv = body.origins(place_or_op, passthrough=passthrough if passthrough is not None else {})
    keys = set()
    for l in lv:
        proj = tuple(p for p in l.get("proj", ()) if p != "*")
        if l["kind"] == "call":
            keys.add(("call", l["call"].bb, proj))
        elif l["kind"] == "arg":
            keys.add(("arg", l["n"], tuple(p for p in l["proj"] if p != "*")))
        else:
            keys.add((l["kind"], l.get("bb"), proj))
    if len(keys) == 1:
        return next(iter(keys))
    return root_place(body, place_or_op)


def root_place(body, place_or_op):
    """Fallback identity for values with several possible origins (e.g. assigned in both arms of a
    match): the local that holds them, reached through single-definition moves / refs / tuple fields."""
    pl = place_or_op if ("l" in place_or_op and "p" in place_or_op) else op_place(place_or_op)
    if pl is None:
        return None
    l = pl["l"]
    proj = tuple(proj_key(p) for p in pl["p"])
    for _ in range(24):
        ds = [d for d in body.defs(l) if not d[4]]
        if len(ds) != 1 or ds[0][2] != "assign" or (1 <= l <= body.argc):
            break
        rv = ds[0][3]["rv"]
        if rv["r"] == "use" and op_place(rv["o"]) is not None:
            src = op_place(rv["o"])
            l, proj = src["l"], tuple(proj_key(p) for p in src["p"]) + proj
            continue
        if rv["r"] == "ref":
            src = rv["p"]
            if proj and proj[0] == "*":
                l, proj = src["l"], tuple(proj_key(p) for p in src["p"]) + proj[1:]
                continue
            break
        if rv["r"] == "agg" and rv["ak"] == "tuple" and proj and proj[0].startswith(".") and proj[0][1:].isdigit():
            i = int(proj[0][1:])
            if i < len(rv["ops"]) and op_place(rv["ops"][i]) is not None:
                src = op_place(rv["ops"][i])
                l, proj = src["l"], tuple(proj_key(p) for p in src["p"]) + proj[1:]
                continue
        break
    proj = tuple(p for p in proj if p != "*")
    return ("local", l, proj)


class PathExplorer:
    def __init__(self, body, on_call=None):
        self.body = body
        self.on_call = on_call or (lambda call, flags: ())
        self.ok_blocks = set(ok_assign_blocks(body))
        self.err_blocks = {bb for (bb, _v) in err_assign_blocks(body)} | {bb for (bb, _c) in residual_return_blocks(body)}
        self.states = 0
        self.pruned = 0

    @staticmethod
    def _feasible(facts):
        """An ("anyopp", keys, v) fact says: not all of `keys` have discriminant v.  A state in which all of them do is infeasible."""
        for f in facts:
            if f[0] == "anyopp" and all(("d", k, f[2]) in facts for k in f[1]):
                return False
        return True

    def _all_over_array(self, call):
        """`[&a, &b, &c].iter().all(|x| x.is_err())` (is_ok / is_some / is_none alike): -> ([canonical keys of a, b, c], discriminant value the
        predicate asks for), else None."""
        import re
        from engine import PASS_THROUGH
        body = self.body
        if not call.decl.endswith("std::iter::Iterator::all") and call.decl != "std::iter::Iterator::all":
            return None
        if len(call.args) != 2:
            return None
        elems = None
        for lf in body.origins(call.args[0], passthrough=PASS_THROUGH):
            if lf["kind"] == "agg" and lf["stmt"]["rv"].get("ak") == "array":
                elems = lf["stmt"]["rv"]["ops"]
            else:
                return None
        cbp = None
        for lf in body.origins(call.args[1], passthrough={}):
            if lf["kind"] == "agg" and lf["stmt"]["rv"].get("ak") == "closure":
                cbp = lf["stmt"]["rv"]["closure"]
        facts_ = getattr(body, "facts", None)
        cb = facts_.bodies.get(cbp) if (facts_ is not None and cbp) else None
        if not elems or cb is None:
            return None
        calls = [c for c in cb.calls()]
        if len(calls) != 1 or calls[0].decl not in BOOL_TESTS or BOOL_TESTS[calls[0].decl][0] != "d":
            return None
        # the closure returns that test of its own parameter
        if calls[0].dest is None or calls[0].dest["l"] != 0:
            return None
        if not any(lf["kind"] == "arg" and lf["n"] == 2 for lf in cb.origins(calls[0].args[0])):
            return None
        keys = []
        for o in elems:
            k_ = canon(body, o)
            if k_ is None:
                return None
            keys.append(k_)
        return keys, BOOL_TESTS[calls[0].decl][1]

    def run(self, max_states=400000, start=0, blocked=frozenset(), blocked_edges=frozenset()):
        """Explore from `start` (default: entry) with no initial facts; blocks in `blocked` are dead ends.
        self.visited_bbs holds every block some abstract state reached."""
        body = self.body
        init = (start, frozenset(), frozenset(), frozenset(), None)
        parent = {init: None}
        dq = deque([init])
        finals = []
        self.visited_bbs = {start}
        while dq:
            node = dq.popleft()
            self.states += 1
            if self.states > max_states:
                raise RuntimeError("state explosion")
            for nxt in self.step(node):
                if nxt[0] is not None and (nxt[0] in blocked or (node[0], nxt[0]) in blocked_edges):
                    continue
                if not self._feasible(nxt[1]):
                    self.pruned += 1
                    continue
                if nxt[0] is not None:
                    self.visited_bbs.add(nxt[0])
                if nxt not in parent:
                    parent[nxt] = node
                    if nxt[0] is None:
                        finals.append(nxt)
                    else:
                        dq.append(nxt)
        self.parent = parent
        return finals

    def trace(self, node):
        out = []
        while node is not None:
            out.append(node[0] if node[0] is not None else "return")
            node = self.parent.get(node)
        out.reverse()
        return out

    # ------------------------------------------------------------------------------------
    def step(self, node):
        body = self.body
        bb, facts, flags, nexted, ret = node
        t = body.term(bb)
        k = t["t"]
        if facts:
            dead = set()
            for st in body.stmts(bb):
                if st["k"] != "assign":
                    continue
                if not st["lhs"]["p"]:
                    dead.add(st["lhs"]["l"])
                rv = st["rv"]
                if rv["r"] == "ref" and rv.get("mut") and not rv["p"]["p"]:
                    dead.add(rv["p"]["l"])
            if dead:
                defbbs = set()
                for l in dead:
                    for d in body.defs(l):
                        defbbs.add(d[0])
                facts = frozenset(f for f in facts if not (
                    (f[1][0] == "local" and f[1][1] in dead) or
                    (f[1][0] in ("agg", "repeat") and f[1][1] in defbbs and any(body.defs(l) and body.defs(l)[0][0] == f[1][1] for l in dead))))
        # a Result / Option / ControlFlow built here has a known variant (both under the aggregate's identity and under the
        # local that holds it: a value assigned on several paths is identified by its local)
        for st in body.stmts(bb):
            # constant booleans, their negation and plain moves carry a known value along (matches!(..) lowers to a bool local
            # set in the arms of one switch and tested by the next)
            if st["k"] == "assign" and not st["lhs"]["p"] and st["rv"]["r"] in ("use", "un"):
                rv = st["rv"]
                lkey = ("local", st["lhs"]["l"], ())
                val = None
                if rv["r"] == "use":
                    kk = rv["o"].get("k")
                    if kk is not None and kk.get("ty") == "bool":
                        val = 1 if kk.get("s") == "true" else 0 if kk.get("s") == "false" else None
                    else:
                        sp = op_place(rv["o"])
                        if sp is not None and not sp["p"] and body.local_ty(st["lhs"]["l"]) == "bool":
                            for f in facts:
                                if f[0] == "d" and f[1] == ("local", sp["l"], ()):
                                    val = f[2]
                elif rv["op"] == "Not" and body.local_ty(st["lhs"]["l"]) == "bool":
                    sp = op_place(rv["a"])
                    if sp is not None and not sp["p"]:
                        for f in facts:
                            if f[0] == "d" and f[1] == ("local", sp["l"], ()) and f[2] in (0, 1):
                                val = 1 - f[2]
                if val is not None:
                    facts = frozenset(f for f in facts if not (f[0] == "d" and f[1] == lkey)) | {("d", lkey, val)}
            if st["k"] == "assign" and not st["lhs"]["p"] and st["rv"]["r"] == "agg" and st["rv"].get("ak") == "adt" and \
                    st["rv"].get("adt") in ("std::result::Result", "std::option::Option", "std::ops::ControlFlow"):
                v = st["rv"]["vidx"]
                wrap = "as " + str(st["rv"].get("variant"))
                facts = frozenset(f for f in facts if not (f[0] == "d" and f[1][:2] in (("agg", bb), ("local", st["lhs"]["l"])))) | \
                    {("d", ("agg", bb, ()), v), ("d", ("local", st["lhs"]["l"], ()), v)}
                # `Ok(x)` / `Some(x)` where x's own variant is known on this path (`Ok(None)`, `Ok(Some(..))`): remember it as the
                # variant of the payload, so that a later `match r? { None => .., Some(..) => .. }` stays decided
                if len(st["rv"].get("ops", [])) == 1:
                    pp = op_place(st["rv"]["ops"][0])
                    if pp is not None and not pp["p"]:
                        for f0 in list(facts):
                            if f0[0] == "d" and f0[1] == ("local", pp["l"], ()):
                                facts = facts | {("d", ("agg", bb, (wrap, ".0")), f0[2]), ("d", ("local", st["lhs"]["l"], (wrap, ".0")), f0[2])}
        if bb in self.ok_blocks:
            ret = "ok"
        elif bb in self.err_blocks:
            ret = "err"
        elif k == "call" and t.get("dest", {}).get("l") == 0 and not t["dest"]["p"]:
            c0 = body.call_at(bb)
            ret = "call:" + (c0.decl if c0 else "?")
        if k == "return":
            return [(None, facts, flags, nexted, ret)]
        if k in ("unreachable", "resume", "terminate"):
            return []
        if k == "call":
            c = body.call_at(bb)
            # kill facts about this call's previous result (loops)
            facts = frozenset(f for f in facts if not (f[1][0] == "call" and f[1][1] == bb))
            if c.dest is not None and not c.dest["p"]:
                facts = frozenset(f for f in facts if not (f[1][0] == "local" and f[1][1] == c.dest["l"]))
                if c.decl == "std::ops::FromResidual::from_residual":
                    # `?` on the failure side: the value built from a residual is Err(..) / None
                    ty0 = body.local_ty(c.dest["l"])
                    v0 = 1 if ty0.startswith("std::result::Result<") else 0 if ty0.startswith("std::option::Option<") else None
                    if v0 is not None:
                        facts = facts | {("d", ("call", bb, ()), v0), ("d", ("local", c.dest["l"], ()), v0)}
            add = self.on_call(c, flags)
            if add:
                flags = flags | frozenset(add)
            if c.decl == "std::ops::Try::branch" and c.args:
                # Continue/Break mirrors Ok/Err (Some/None) of the operand
                K = canon(body, c.args[0])
                if K is not None:
                    for f in facts:
                        if f[0] == "d" and f[1] == K:
                            ty = body.local_ty(c.dest["l"]) if c.dest and not c.dest["p"] else ""
                            v = f[2]
                            if "std::option::Option<" in ty.split(",")[0]:
                                v = 1 - v   # None(0)->Break(1), Some(1)->Continue(0)
                            facts = facts | {("d", ("call", bb, ()), v)}
                    # the payload's variant, when known, is the variant of `Continue`'s payload
                    for f in list(facts):
                        if f[0] == "d" and f[1][:2] == K[:2] and f[1][2] in (K[2] + ("as Ok", ".0"), K[2] + ("as Some", ".0")):
                            facts = facts | {("d", ("call", bb, ("as Continue", ".0")), f[2])}
            if c.decl == "std::iter::Iterator::next":
                from engine import PASS_THROUGH
                el = self._flatten_elems(c.args[0])
                if el and t["target"] is not None:
                    # `for x in [a, b].into_iter().flatten()` over Results / Options: the iterator yields exactly the Ok / Some
                    # elements.  Its first next() is None iff every element is Err / None.
                    Kf = ("flatten", c.bb if False else tuple(k_ for (k_, _y) in el))
                    first = Kf not in nexted
                    known = {}
                    for f_ in facts:
                        if f_[0] == "d":
                            known[f_[1]] = f_[2]
                    yields = [known.get(k_) == y_ for (k_, y_) in el if k_ in known]
                    all_dry = len(yields) == len(el) and not any(yields)
                    some_y = any(yields)
                    ck = ("call", bb, ())
                    out_ = []
                    if not (first and all_dry):
                        out_.append((t["target"], facts | {("d", ck, 1)}, flags, nexted | {Kf}, ret))
                    if not (first and some_y):
                        nf_ = facts | {("d", ck, 0)}
                        if first:
                            nf_ = nf_ | {("d", k_, 1 - y_) for (k_, y_) in el if k_ not in known}
                        out_.append((t["target"], nf_, flags, nexted | {Kf}, ret))
                    return out_
                K = canon(body, c.args[0], PASS_THROUGH)
                if K is not None:
                    if ("empty", K, False) in facts and K not in nexted:
                        facts = facts | {("d", ("call", bb, ()), 1)}
                    nexted = nexted | {K}
            elif c.decl in ("core::slice::<impl [T]>::iter", "std::iter::IntoIterator::into_iter"):
                from engine import PASS_THROUGH
                K = canon(body, c.args[0], PASS_THROUGH)
                if K is not None and K in nexted:
                    nexted = nexted - {K}
            if t["target"] is None:
                return []
            return [(t["target"], facts, flags, nexted, ret)]
        if k == "switch":
            info = switch_info(body, bb)
            out = []
            dpl = op_place(t["d"])
            if dpl is not None and not dpl["p"] and body.local_ty(dpl["l"]) == "bool":
                for f in facts:
                    if f[0] == "d" and f[1] == ("local", dpl["l"], ()):
                        tv_ = {int(v): b_ for v, b_ in t["targets"]}
                        self.pruned += 1
                        return [(tv_.get(f[2], t["otherwise"]), facts, flags, nexted, ret)]
            if info["kind"] in ("discr", "value"):
                key = canon(body, info["place"], VIEW_PASS if info["kind"] == "value" else None)
                known = None
                if key is not None:
                    for f in facts:
                        if f[0] == "d" and f[1] == key:
                            known = f[2]
                if known is not None:
                    self.pruned += 1
                    return [(info["targets"].get(known, info["otherwise"]), facts, flags, nexted, ret)]
                seen_t = set()
                for v, tgt in info["targets"].items():
                    nf = facts | {("d", key, v)} if key is not None else facts
                    out.append((tgt, nf, flags, nexted, ret))
                    seen_t.add(tgt)
                # otherwise branch: for two-variant enums with one listed value the other is implied
                if not info.get("otherwise_dead"):
                    nf = facts
                    vals = set(info["targets"].keys())
                    allv = set(info.get("vals") or [])
                    rest = allv - vals
                    if key is not None and len(rest) == 1:
                        nf = facts | {("d", key, next(iter(rest)))}
                    elif key is not None and not allv and vals == {0}:
                        nf = facts | {("d", key, 1)}
                    elif key is not None and not allv and vals == {1}:
                        nf = facts | {("d", key, 0)}
                    if not self._is_unreachable(info["otherwise"]):
                        out.append((info["otherwise"], nf, flags, nexted, ret))
                return out
            if info["kind"] == "bool" and info["call"].decl == "std::iter::Iterator::all":
                ao = self._all_over_array(info["call"])
                if ao is not None:
                    keys_, v_ = ao
                    return [(info["true"], facts | {("d", k_, v_) for k_ in keys_}, flags, nexted, ret),
                            (info["false"], facts | {("anyopp", tuple(keys_), v_)}, flags, nexted, ret)]
            if info["kind"] == "bool" and info["call"].decl in BOOL_TESTS:
                kind, tv = BOOL_TESTS[info["call"].decl]
                key = canon(body, info["call"].args[0])
                if key is not None:
                    if kind == "d":
                        known = None
                        for f in facts:
                            if f[0] == "d" and f[1] == key:
                                known = f[2]
                        if known is not None:
                            self.pruned += 1
                            return [((info["true"] if known == tv else info["false"]), facts, flags, nexted, ret)]
                        return [(info["true"], facts | {("d", key, tv)}, flags, nexted, ret),
                                (info["false"], facts | {("d", key, 1 - tv)}, flags, nexted, ret)]
                    else:
                        known = None
                        for f in facts:
                            if f[0] == "empty" and f[1] == key:
                                known = f[2]
                        if known is not None:
                            self.pruned += 1
                            return [((info["true"] if known == tv else info["false"]), facts, flags, nexted, ret)]
                        return [(info["true"], facts | {("empty", key, tv)}, flags, nexted, ret),
                                (info["false"], facts | {("empty", key, not tv)}, flags, nexted, ret)]
            if info["kind"] == "cmp":
                # statically decided comparisons (e.g. the length of a fixed-size array view)
                from audit import Intervals
                rv = info["stmt"]["rv"]
                iv = Intervals(body)
                a = iv.of_operand(rv["a"], bb)
                b_ = iv.of_operand(rv["b"], bb)
                verdict = None
                if a is not None and b_ is not None:
                    op = rv["op"]
                    if a.lo == a.hi == b_.lo == b_.hi:
                        verdict = {"Eq": True, "Ne": False, "Le": True, "Ge": True, "Lt": False, "Gt": False}.get(op)
                    elif a.hi < b_.lo:
                        verdict = {"Eq": False, "Ne": True, "Lt": True, "Le": True, "Gt": False, "Ge": False}.get(op)
                    elif a.lo > b_.hi:
                        verdict = {"Eq": False, "Ne": True, "Lt": False, "Le": False, "Gt": True, "Ge": True}.get(op)
                if verdict is not None:
                    self.pruned += 1
                    return [((info["true"] if verdict else info["false"]), facts, flags, nexted, ret)]
            for s in body.succ(bb):
                if not self._is_unreachable(s):
                    out.append((s, facts, flags, nexted, ret))
            return out
        return [(s, facts, flags, nexted, ret) for s in body.succ(bb)]

    def _flatten_elems(self, op):
        """[(canonical key, discriminant value that yields)] of the elements of `[a, b, ..].into_iter().flatten()` when `op` is
        (a borrow of) such an iterator over Results / Options, else None."""
        import re
        from engine import PASS_THROUGH
        body = self.body
        cur = [op]
        saw_flatten = False
        for _ in range(6):
            nxt = []
            for o in cur:
                for lf in body.origins(o, passthrough=PASS_THROUGH):
                    if lf["kind"] == "call" and re.search(r"(Iterator::flatten|IntoIterator::into_iter|Iterator::by_ref)$", lf["call"].decl) and lf["call"].args:
                        saw_flatten = saw_flatten or lf["call"].decl.endswith("Iterator::flatten")
                        nxt.append(lf["call"].args[0])
                    elif lf["kind"] == "agg" and lf["stmt"]["rv"].get("ak") == "array" and saw_flatten:
                        out = []
                        for eo in lf["stmt"]["rv"]["ops"]:
                            pl = op_place(eo)
                            if pl is None:
                                return None
                            ty = body.local_ty(pl["l"]).lstrip("&")
                            y = 0 if ty.startswith("std::result::Result<") else 1 if ty.startswith("std::option::Option<") else None
                            k_ = canon(body, eo)
                            if y is None or k_ is None:
                                return None
                            out.append((k_, y))
                        return out or None
                    else:
                        return None
            if not nxt:
                return None
            cur = nxt
        return None

    def _is_unreachable(self, bb):
        return self.body.term(bb)["t"] == "unreachable" and not self.body.stmts(bb)


def ps_reach(body, start=0, blocked_edges=(), blocked_blocks=()):
    """Blocks some abstract state reaches from `start` (no initial facts): like common.reach_from, but a path is followed
    only while the discriminants it has itself fixed (a Result built as Err is Err at the `?` that follows) allow it."""
    pe = PathExplorer(body)
    try:
        pe.run(start=start, blocked=frozenset(blocked_blocks), blocked_edges=frozenset(blocked_edges))
    except RuntimeError:
        from common import reach_from
        return reach_from(body, start, blocked_edges=blocked_edges, blocked_blocks=blocked_blocks)
    return set(pe.visited_bbs)
