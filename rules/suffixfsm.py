"""Acceptance table of a character-by-character validator, by abstract evaluation (used by C19.R5 for validate_suffix).

The validator's body is evaluated with E3 (absint) on a *symbolic* text of n = 0..3 characters: `s.chars()` is an opaque
iterator whose k-th `next()` yields `Some(c_k)` with c_k an unconstrained 32-bit value, and `None` after n characters.
Every switch on a character splits the path into the listed values and "none of these"; helper functions and closures
of the crate are evaluated in place; calls that only build the error value (format!, to_owned, ..) are opaque.  Each
path ends in Ok, Err or a panic, under the constraints it collected on c_0..c_{n-1}.  The caller compares that table
with the specification for *every* assignment of character classes consistent with a path's constraints - so a
character the code never looked at counts as "any character".

This decides the accept / reject verdict for all texts of up to three characters whatever the code's shape (match,
if-chains, matches!, helper predicates, Option combinators).  The validator keeps one remembered character of state;
three characters are what it takes for a stale remembered character to change a verdict (`=p+`).
"""
import re
from absint import Interp, BV, Enum, Tup, Ref, Opaque, Closure, FnItem, LeaveDomain, int_ty

POS = ("__pos__", 0)


class Panic(Exception):
    pass


class LenientInterp(Interp):
    """E3 with opaque results for calls outside the domain (they cannot write interpreter state: a mutable borrow of a
    tracked value leaves the domain), character constants, and a scripted character iterator."""

    def __init__(self, facts, nchars, **kw):
        Interp.__init__(self, facts, **kw)
        self.nchars = nchars
        self.panics = []

    def read_op(self, body, env, op, sg, want_ty=None):
        k = op.get("k") if isinstance(op, dict) else None
        if k and k.get("ty") == "char" and "bits" in k:
            return BV.const(32, False, int(k["bits"]))
        if k and re.fullmatch(r"&?\[char; \d+\]", k.get("ty", "")):
            # a constant table of characters (`const OPERATORS: [char; 3]`)
            raw = (k.get("alloc_chain") or [None])[-1] or k.get("alloc")
            if raw:
                bs = bytes.fromhex(raw)
                v = Tup([BV.const(32, False, int.from_bytes(bs[i:i + 4], "little")) for i in range(0, len(bs), 4)])
                return Ref(v) if k["ty"].startswith("&") else v
        return Interp.read_op(self, body, env, op, sg, want_ty)

    def rvalue(self, body, env, st, sg, depth):
        rv = st["rv"]
        if rv["r"] == "ref" and rv.get("mut"):
            v = self.read_place(body, env, rv["p"], sg)
            if isinstance(v, Opaque):
                return [(sg, Ref(v))]
            raise LeaveDomain("mutable borrow of a tracked value")
        if rv["r"] == "agg" and rv["ak"] == "array":
            return [(sg, Opaque("array"))]
        if rv["r"] == "cast":
            a = self.read_op(body, env, rv["o"], sg)
            if isinstance(a, (Opaque, Ref)) and not (isinstance(a, Ref) and not isinstance(a.v, Opaque)):
                return [(sg, a)]
        return Interp.rvalue(self, body, env, st, sg, depth)

    def call(self, body, env, t, sg, cons, excl, depth):
        fn = (t["func"].get("k") or {}).get("fn")
        if not fn:
            raise LeaveDomain("indirect call")
        decl = fn["path"]
        full = fn.get("full") or decl
        args = [self.read_op(body, env, a, sg) for a in t["args"]]

        def unref(v):
            while isinstance(v, Ref):
                v = v.v
            return v
        if re.search(r"^(core|std)::panicking::|^std::rt::(begin_panic|panic_fmt)", decl):
            self.panics.append((dict(sg), list(excl)))
            return []
        if decl.endswith("<impl str>::chars"):
            return [(sg, cons, excl, Opaque("chars"))]
        if decl == "std::iter::IntoIterator::into_iter" and len(args) == 1 and isinstance(unref(args[0]), Opaque):
            return [(sg, cons, excl, args[0])]
        if decl == "std::iter::Iterator::next" and len(args) == 1 and isinstance(unref(args[0]), Opaque) and unref(args[0]).desc == "chars":
            pos = sg.get(POS, 0)
            s2 = dict(sg)
            s2[POS] = pos + 1
            if pos < self.nchars:
                return [(s2, cons, excl, Enum("std::option::Option", "Some", {"0": BV.var("c%d" % pos, 32, False)}))]
            return [(s2, cons, excl, Enum("std::option::Option", "None", {}))]
        if re.search(r"<impl \[T\]>::contains$", decl) and len(args) == 2:
            tbl, item = unref(args[0]), unref(args[1])
            if isinstance(tbl, Tup) and all(isinstance(x, BV) and x.is_const() for x in tbl.items) and isinstance(item, BV):
                vals = [x.value() for x in tbl.items]
                item = item.subst(sg)
                if item.is_const():
                    return [(sg, cons, excl, BV.const(1, False, 1 if item.value() in vals else 0))]
                nm = item.whole_var()
                if nm:
                    out = []
                    banned = set()
                    for (xb, xv) in excl:
                        if isinstance(xb, BV) and xb.whole_var() == nm:
                            banned |= set(xv)
                    for v in vals:
                        if v in banned:
                            continue
                        s2 = dict(sg)
                        for b in range(item.w):
                            s2[(nm, b)] = (v >> b) & 1
                        out.append((s2, cons, excl, BV.const(1, False, 1)))
                    out.append((sg, cons, excl + [(item, vals)], BV.const(1, False, 0)))
                    return out
        m = re.search(r"^std::option::Option::<.*>::(is_some|is_none|is_some_and|is_none_or)$", decl)
        if m and args:
            o = unref(args[0])
            if isinstance(o, Enum) and o.adt == "std::option::Option":
                some = o.variant == "Some"
                if m.group(1) in ("is_some", "is_none"):
                    return [(sg, cons, excl, BV.const(1, False, 1 if some == (m.group(1) == "is_some") else 0))]
                if not some:
                    return [(sg, cons, excl, BV.const(1, False, 0 if m.group(1) == "is_some_and" else 1))]
                return self.apply(args[1], [o.fields["0"]], sg, cons, excl, depth)
        try:
            return Interp.call(self, body, env, t, sg, cons, excl, depth)
        except LeaveDomain as e:
            if "is outside the domain" not in str(e) and "has no local body" not in str(e):
                raise
        # a call the domain does not model: its result is opaque.  It cannot have changed tracked state (see rvalue).
        return [(sg, cons, excl, Opaque("call %s" % full))]


def evaluate_validator(facts, body, max_chars=3):
    """-> [(n, kind, {char index: exact value}, {char index: set(excluded values)})] with kind in Ok / Err / panic;
    raises LeaveDomain when the body cannot be evaluated."""
    table = []
    for n in range(max_chars + 1):
        it = LenientInterp(facts, n, max_paths=20000)
        outs = it.evaluate(body, [Ref(Opaque("text"))])
        rows = [(o.sigma, o.excluded, o.value.variant if isinstance(o.value, Enum) and o.value.adt == "std::result::Result" else "?%r" % (o.value,)) for o in outs]
        rows += [(sg, ex, "panic") for (sg, ex) in it.panics]
        for (sg, ex, kind) in rows:
            if kind.startswith("?"):
                raise LeaveDomain("validator returned %s" % kind)
            exact, excluded = {}, {}
            for i in range(n):
                bits = [sg.get(("c%d" % i, b)) for b in range(32)]
                if all(x is not None for x in bits):
                    exact[i] = sum(x << b for b, x in enumerate(bits))
                elif any(x is not None for x in bits):
                    raise LeaveDomain("character %d is constrained bit-wise" % i)
            for (xb, vals) in ex:
                if isinstance(xb, BV):
                    nm = xb.whole_var()
                    if nm and re.fullmatch(r"c\d+", nm):
                        excluded.setdefault(int(nm[1:]), set()).update(vals)
                    elif not xb.subst(sg).is_const():
                        raise LeaveDomain("exclusion on a derived value")
            table.append((n, kind, exact, excluded))
    return table


def check_against(table, spec, alphabet):
    """Compare with spec(list of characters) -> 'Ok' | 'Err' | ('Ok', 'panic') ...: every assignment of alphabet members to the
    unconstrained characters of a row must get that row's verdict.  -> list of (text, got, want) mismatches, and the number of
    (row, assignment) pairs compared."""
    import itertools
    bad, n_cmp = [], 0
    covered = {}
    for (n, kind, exact, excluded) in table:
        choices = []
        for i in range(n):
            if i in exact:
                choices.append([exact[i]])
            else:
                choices.append([a for a in alphabet if a not in excluded.get(i, ())])
        for combo in itertools.product(*choices):
            n_cmp += 1
            want = spec(list(combo))
            want = want if isinstance(want, tuple) else (want,)
            covered.setdefault(combo, set()).add(kind)
            if kind not in want:
                bad.append(("".join(chr(c) if 32 <= c < 127 else "\\u{%x}" % c for c in combo), kind, want))
    return bad, n_cmp, covered
