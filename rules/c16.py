"""C16 - reported segment offsets are the real byte boundaries (full structural argument).

  O1  Lead::write emits exactly L bytes, L = the constant the offsets start from = the lead buffer parse reads
  O2  IndexHeader::write emits H bytes and write_index E bytes; Header::size() = H + E*num_entries + data_section_size
  O3  Header::write emits the intro, one index entry per element of index_entries, then store
  O4  size invariant: wherever a Header is built or its size fields / vectors are written,
      num_entries == index_entries.len() and data_section_size == store.len()
  O5  write_signature emits Header::write plus exactly padding_required() bytes; the offsets add size() + padding_required()
  O6  offsets = (0, L, L+S+P, L+S+P+Hm) as linear forms; every term is non-negative and L, S, Hm > 0 => strictly increasing
  O7  PackageMetadata::write emits lead, signature (+pad), header in that order; Package::write appends the payload
Every obligation is discharged structurally; together they give offset == number of bytes written before the segment.
"""
import re
from engine import op_place, proj_key, const_int
from terms import TermBuilder, render
from seqs import emission, consumption
from common import fmt_key
from c01 import agg_fields

LEVEL = "proof"


def linear(t):
    """TermBuilder term -> (dict atom->coeff, const) for +, * by constant, widening casts; None otherwise."""
    k = t[0]
    if k == "const":
        m = re.match(r"^(-?\d+)_[ui](8|16|32|64|size)$", str(t[1]))
        if m:
            return ({}, int(m.group(1)))
        return None
    if k == "cast":
        return linear(t[2])
    if k == "proj" and t[2] == (".0",):
        return linear(t[1])
    if k == "bin":
        op = t[1].replace("WithOverflow", "").replace("Unchecked", "")
        a, b = linear(t[2]), linear(t[3])
        if a is None or b is None:
            return None
        if op == "Add":
            d = dict(a[0])
            for kk, v in b[0].items():
                d[kk] = d.get(kk, 0) + v
            return (d, a[1] + b[1])
        if op == "Mul":
            if not a[0]:
                return ({kk: v * a[1] for kk, v in b[0].items()}, a[1] * b[1])
            if not b[0]:
                return ({kk: v * b[1] for kk, v in a[0].items()}, a[1] * b[1])
            return None
        return None
    if k in ("arg", "call"):
        return ({render(t): 1}, 0)
    return None


def widths_sum(b, f):
    em = emission(b, f)
    ws = [w for (w, _t, _c) in em]
    if any(not isinstance(w, int) for w in ws):
        return None, ws
    return sum(ws), ws


def run(f, fixture, rep, cfg, tier):
    rep.explanation = (
        "Structural proof that get_package_segment_offsets returns the number of bytes PackageMetadata::write emits before each segment: "
        "static widths of every write_all operand are summed per writer and compared with the constants of the size formula "
        "(extracted as linear forms from MIR, not by name); every construction / mutation site of Header is shown to keep "
        "num_entries == index_entries.len() and data_section_size == store.len(); the padding added by the writer and by the "
        "offsets is the same function call; the composition order of the writers is the order of the offsets.")
    rep.trusted = ["rustc nightly MIR", "Write::write_all writes the whole buffer or fails", "Vec::len / push semantics", "no u32 overflow for parsed headers (C04 allow-list precondition, re-checked there)"]
    for r, d in (("O1", "lead width"), ("O2", "intro/entry widths = size() coefficients"), ("O3", "Header::write structure"), ("O4", "size invariant at every construction/mutation site"),
                 ("O5", "padding shared by writer and offsets"), ("O6", "offset linear forms"), ("O7", "composition order")):
        rep.rule(r, d)

    lw = f.one("lead::Lead::write")
    ihw = f.one("header::IndexHeader::write")
    wi = f.one("header::IndexEntry::<T>::write_index")
    L, lws = widths_sum(lw, f)
    H, hws = widths_sum(ihw, f)
    E, ews = widths_sum(wi, f)
    rep.check(L is not None and H is not None and E is not None, "O1", "static-widths", "all operands of the three fixed-size writers have static widths: %s %s %s" % (lws, hws, ews),
              "a fixed-size writer emits a buffer of non-static width: %s %s %s" % (lws, hws, ews))
    # no other emission in these three (e.g. write through another call)
    for b in (lw, ihw, wi):
        others = [c.decl for c in b.calls() if c.trait == "std::io::Write" and c.decl != "std::io::Write::write_all"]
        rep.check(not others, "O1", "%s|only-write_all" % fmt_key(b.path), "%s emits only through write_all" % fmt_key(b.path), "%s also calls %s" % (b.path, others), b.span)

    # ---- O6 / O1: offsets as linear forms ------------------------------------------------------
    off = f.one("PackageMetadata::get_package_segment_offsets")
    to = TermBuilder(off)
    ag = agg_fields(off, "PackageSegmentOffsets", to)
    if not rep.anchor(ag is not None, "O6", "PackageSegmentOffsets aggregate"):
        return
    ops = ag[1]
    lin = {n: linear(to.term(o)) for n, o in ops.items()}
    SIG_SIZE = "rpm::headers::header::Header::<T>::size(self.signature)"
    SIG_PAD = "rpm::headers::header::Header::<constants::IndexSignatureTag>::padding_required(self.signature)"
    HDR_SIZE = "rpm::headers::header::Header::<T>::size(self.header)"
    rep.check(lin.get("lead") == ({}, 0), "O6", "offset|lead", "lead offset = 0", "lead offset is %s" % (lin.get("lead"),), off.span)
    rep.check(lin.get("signature_header") == ({}, L), "O1", "offset|signature_header", "signature header offset = %s = bytes Lead::write emits" % L,
              "signature header offset is %s but Lead::write emits %s bytes" % (lin.get("signature_header"), L), off.span)
    rep.check(lin.get("header") == ({SIG_SIZE: 1, SIG_PAD: 1}, L), "O6", "offset|header", "header offset = L + size(signature) + padding(signature)",
              "header offset is %s" % (lin.get("header"),), off.span)
    rep.check(lin.get("payload") == ({SIG_SIZE: 1, SIG_PAD: 1, HDR_SIZE: 1}, L), "O6", "offset|payload", "payload offset = header offset + size(header)",
              "payload offset is %s" % (lin.get("payload"),), off.span)
    rep.check(bool(L) and L > 0 and bool(H) and H > 0, "O6", "offset|increasing", "L = %s > 0 and every header is at least %s bytes: offsets strictly increase" % (L, H),
              "cannot show the offsets strictly increase (L=%s, intro=%s)" % (L, H), off.span)
    # lead buffer read by parse
    pmp = f.one("package::PackageMetadata::parse")
    rd = [c for c in pmp.calls() if c.decl == "std::io::Read::read_exact"]
    from seqs import buffer_width
    ok = len(rd) == 1 and buffer_width(pmp, rd[0].args[1]) == L
    rep.check(ok, "O1", "lead|parse-width", "PackageMetadata::parse reads a %s-byte lead" % L, "PackageMetadata::parse reads a lead of %s bytes, the writer emits %s" % ([buffer_width(pmp, c.args[1]) for c in rd], L), pmp.span)

    # ---- O2 size() ---------------------------------------------------------------------------------
    sz = f.one("header::Header::<T>::size")
    ts = TermBuilder(sz)
    ls = linear(ts.term({"l": 0, "p": []}))
    rep.check(ls == ({"self.index_header.num_entries": E, "self.index_header.data_section_size": 1}, H), "O2", "size|formula",
              "size() = %s + %s*num_entries + data_section_size = intro bytes + entry bytes per entry + store bytes" % (H, E),
              "size() is %s but IndexHeader::write emits %s bytes and write_index %s bytes" % (ls, H, E), sz.span)

    # ---- O3 Header::write ---------------------------------------------------------------------------
    hw = f.one("header::Header::<T>::write")
    tw = TermBuilder(hw)
    seq = []
    for c in sorted(hw.calls(), key=lambda c: (len(hw.dominators().get(c.bb, ())), c.bb)):
        if c.decl.endswith("IndexHeader::write"):
            seq.append(("intro", render(tw.term(c.args[0]))))
        elif c.decl.endswith("write_index"):
            inloop = any(c.bb in blks for (_h, blks) in hw.loops())
            seq.append(("entry*" if inloop else "entry", render(tw.term(c.args[0]))))
        elif c.decl in ("std::iter::Iterator::try_for_each", "std::iter::Iterator::for_each"):
            # `self.index_entries.iter().try_for_each(|e| e.write_index(out))`: one entry per element, like the loop
            from common import per_element_calls
            for (_c2, a0) in per_element_calls(f, hw, c, r"write_index$"):
                seq.append(("entry*", a0 + "<Some>.0" if a0.startswith("std::iter::Iterator::next(") and not a0.endswith("<Some>.0") else a0))
        elif c.trait == "std::io::Write":
            seq.append((c.decl.rsplit("::", 1)[-1], render(tw.term(c.args[1])) if len(c.args) > 1 else ""))
    rep.check(seq == [("intro", "self.index_header"), ("entry*", "std::iter::Iterator::next(self.index_entries)<Some>.0"), ("write_all", "self.store")], "O3", "Header|write-structure",
              "Header::write = intro + one entry per element of index_entries + store", "Header::write emits %s" % seq, hw.span)

    # ---- O4 size invariant -----------------------------------------------------------------------------
    check_invariant(f, rep, H, E)

    # ---- O5 padding -------------------------------------------------------------------------------------
    ws = f.one("IndexSignatureTag>::write_signature")
    tws = TermBuilder(ws)
    seq = []
    for c in sorted(ws.calls(), key=lambda c: (len(ws.dominators().get(c.bb, ())), c.bb)):
        if re.search(r"Header::<.*>::write$", c.decl):
            seq.append(("header", render(tws.term(c.args[0]))))
        elif c.decl == "std::io::Write::write_all":
            seq.append(("bytes", render(tws.term(c.args[1]))))
    PADBUF = "std::vec::from_elem(0_u8, usize(rpm::headers::header::Header::<constants::IndexSignatureTag>::padding_required(self)))"
    # the padding may also be the first padding_required(self) bytes of a fixed buffer (`ZEROES[..n]`; that it holds zeroes is C01.R6)
    PADSLICE = r"std::ops::Index::index\(.*, std::ops::(RangeTo::RangeTo\{|Range::Range\{0_usize, )usize\(rpm::headers::header::Header::<constants::IndexSignatureTag>::padding_required\(self\)\)\}\)"
    seq = [(k_, PADBUF if k_ == "bytes" and re.fullmatch(PADSLICE, v_) else v_) for (k_, v_) in seq]
    rep.check(seq == [("header", "self"), ("bytes", PADBUF)], "O5", "write_signature|structure", "write_signature = Header::write(self) + padding_required(self) zero bytes",
              "write_signature emits %s" % seq, ws.span)
    # the padding write is skipped only when the count is 0
    from common import switch_info
    guards = []
    for sb in sorted(ws.reachable()):
        info = switch_info(ws, sb)
        if info and info["kind"] == "cmp":
            rv = info["stmt"]["rv"]
            guards.append((rv["op"], render(tws.term(rv["a"])), render(tws.term(rv["b"]))))
    # `> 0`, `!= 0`, `== 0` (early return) all skip the write exactly for a zero count
    okg = all(g[0] in ("Gt", "Ne", "Eq") and g[2] == "0_u32" and g[1].endswith("padding_required(self)") for g in guards)
    for sb in sorted(ws.reachable()):
        info = switch_info(ws, sb)
        if info and info["kind"] == "cmp":
            rv = info["stmt"]["rv"]
            zero_edge = info["false"] if rv["op"] in ("Gt", "Ne") else info["true"]
            wa = [c for c in ws.calls() if c.decl == "std::io::Write::write_all"]
            from common import reach_from
            nonzero_edge = info["true"] if rv["op"] in ("Gt", "Ne") else info["false"]
            # the non-zero side must still reach the padding write
            okg = okg and any(c.bb in reach_from(ws, nonzero_edge) for c in wa)
    rep.check(okg, "O5", "write_signature|guard", "the padding write is skipped only when padding_required() == 0", "write_signature branches on %s" % guards, ws.span)

    # ---- O7 composition ---------------------------------------------------------------------------------
    pmw = f.one("package::PackageMetadata::write")
    tpm = TermBuilder(pmw)
    seq = [(c.decl.rsplit("::", 1)[-1], render(tpm.term(c.args[0]))) for c in sorted(pmw.calls(), key=lambda c: c.bb)
           if re.search(r"(Lead::write|write_signature|Header::<.*>::write)$", c.decl) or c.trait == "std::io::Write"]
    rep.check(seq == [("write", "self.lead"), ("write_signature", "self.signature"), ("write", "self.header")], "O7", "PackageMetadata|write-order",
              "lead, signature header with padding, main header - the order of the offsets", "PackageMetadata::write emits %s" % seq, pmw.span)
    pw = f.one("package::Package::write")
    tpw = TermBuilder(pw)
    seq = []
    for c in sorted(pw.calls(), key=lambda c: c.bb):
        if c.decl.endswith("PackageMetadata::write"):
            seq.append(("metadata", render(tpw.term(c.args[0]))))
        elif c.trait == "std::io::Write":
            seq.append((c.decl.rsplit("::", 1)[-1], render(tpw.term(c.args[1]))))
        elif c.decl.endswith("Result::<T, E>::and_then") and len(c.args) == 2:
            for lf in pw.origins(c.args[1], passthrough={}):
                if lf["kind"] == "agg" and lf["stmt"]["rv"].get("ak") == "closure":
                    cb_ = f.bodies.get(lf["stmt"]["rv"]["closure"])
                    if cb_ is not None:
                        tcb_ = TermBuilder(cb_, closure_env=True)
                        for c2 in sorted(cb_.calls(), key=lambda x: x.bb):
                            if c2.trait == "std::io::Write":
                                seq.append((c2.decl.rsplit("::", 1)[-1], render(tcb_.term(c2.args[1]))))
    rep.check(seq == [("metadata", "self.metadata"), ("write_all", "self.content")], "O7", "Package|write-order", "the payload follows the metadata and nothing else is written",
              "Package::write emits %s" % seq, pw.span)

    # ---- O4b: who may touch a header's index, store and intro: only Header's own methods (which keep the size invariant, O4);
    # code elsewhere that clears or edits these fields directly leaves the intro describing something else
    n_out = 0
    for b in f.body_list:
        if b.derived or re.search(r"headers::header::(Header|IndexHeader|IndexEntry|IndexData)", b.path) or "headers::header::" in (b.impl_self or ""):
            continue
        for bb in b.reachable():
            for st in b.stmts(bb):
                if st["k"] != "assign":
                    continue
                places = []
                if st["lhs"]["p"]:
                    places.append(("assigns", st["lhs"]))
                if st["rv"]["r"] == "ref" and st["rv"].get("mut"):
                    places.append(("mutably borrows", st["rv"]["p"]))
                for what, pl in places:
                    names = [p.get("n") for p in pl["p"] if isinstance(p, dict) and "n" in p]
                    if names and names[-1] in ("index_entries", "store", "index_header") or (len(names) >= 2 and names[-2] == "index_header"):
                        n_out += 1
                        rep.finding("O4", "outside-write|%s|%s" % (fmt_key(b.path), ".".join(names[-2:])),
                                    "%s %s %s of a header directly: only Header's own methods keep the intro's counts equal to what is stored (size(), offsets and write() disagree otherwise)" % (b.path, what, ".".join(names)),
                                    "%s:%s" % (b.file, st.get("line")))
    if not n_out:
        rep.ok("O4", "no function outside headers::header writes a header's index_entries / store / index_header")

    # ---- O8: the parse side keeps the size invariant too (C01.R5: the store is the whole declared data section) ----------
    rep.rule("O8", "a parsed header's store is the declared data section (C01.R5)")
    rep.include("c01", f, fixture, cfg, tier, "O8", "parsed header store; writers emit every segment they count; signature padding agrees between writer, reader and size", only_rules={"R5", "R1", "R6"}, floor=4)


def check_invariant(f, rep, H, E):
    """Every site that creates a Header or writes one of {index_header.num_entries, index_header.data_section_size,
    index_entries, store} keeps the two equalities."""
    sites = 0
    for b in f.body_list:
        if b.derived:
            continue
        tb = None
        for bb in sorted(b.reachable()):
            for st in b.stmts(bb):
                if st["k"] != "assign":
                    continue
                rv = st["rv"]
                if rv["r"] == "agg" and rv.get("ak") == "adt" and re.search(r"headers::header::Header$", rv.get("adt", "")):
                    sites += 1
                    tb = tb or TermBuilder(b)
                    ft = {n: render(tb.term(o)) for n, o in zip(rv["fields"], rv["ops"])}
                    check_ctor(f, rep, b, st, ft, tb, E)
                # direct field assignments
                lhs = st["lhs"]
                names = [p.get("n") for p in lhs["p"] if isinstance(p, dict) and "n" in p]
                if names and names[-1] in ("num_entries", "data_section_size") and "index_header" in names or names[-1:] in (["index_entries"], ["store"]) and self_is_header(b, lhs):
                    sites += 1
                    rep.check(fmt_key(b.path).endswith("IndexSignatureTag>::clear"), "O4", "%s|assign|%s" % (fmt_key(b.path), names[-1]),
                              "%s assigns %s (reviewed: clear() resets all four together)" % (fmt_key(b.path), names[-1]),
                              "%s assigns Header.%s directly: the size fields may no longer match the vectors" % (b.path, ".".join(names)), "%s:%s" % (b.file, st.get("line")))
                # mutable borrows of the vectors
                if rv["r"] == "ref" and rv.get("mut"):
                    pn = [p.get("n") for p in rv["p"]["p"] if isinstance(p, dict) and "n" in p]
                    if pn[-1:] in (["index_entries"], ["store"]) and self_is_header(b, rv["p"]):
                        sites += 1
                        users = [w.decl for (w, _i) in b.mut_borrow_calls_of_tmp(st["lhs"]["l"])] if hasattr(b, "mut_borrow_calls_of_tmp") else borrow_users(b, st["lhs"]["l"])
                        ok = fmt_key(b.path).endswith("IndexSignatureTag>::clear") and all(u.endswith("::clear") for u in users)
                        rep.check(ok, "O4", "%s|borrow_mut|%s" % (fmt_key(b.path), pn[-1]), "%s clears %s together with the size fields" % (fmt_key(b.path), pn[-1]),
                                  "%s mutably borrows Header.%s (used by %s): its length may diverge from the recorded size" % (b.path, pn[-1], users), "%s:%s" % (b.file, st.get("line")))
    rep.floor("O4", "Header construction / mutation sites", sites, 6)
    # clear(): all four reset
    cl = [b for b in f.body_list if fmt_key(b.path).endswith("IndexSignatureTag>::clear")]
    if rep.anchor(len(cl) == 1, "O4", "Header::clear"):
        b = cl[0]
        zeroed = set()
        cleared = set()
        for bb in b.reachable():
            for st in b.stmts(bb):
                if st["k"] == "assign" and st["lhs"]["p"]:
                    n = [p.get("n") for p in st["lhs"]["p"] if isinstance(p, dict) and "n" in p]
                    if n[-1:] and st["rv"]["r"] == "use" and const_int(st["rv"]["o"]) == 0:
                        zeroed.add(n[-1])
        tb = TermBuilder(b)
        for c in b.calls():
            if c.decl.endswith("::clear"):
                cleared.add(render(tb.term(c.args[0])))
        rep.check(zeroed == {"num_entries", "data_section_size"} and cleared == {"self.index_entries", "self.store"}, "O4", "clear|all-four",
                  "clear() resets both size fields to 0 and clears both vectors", "clear() zeroes %s and clears %s" % (sorted(zeroed), sorted(cleared)), b.span)
    # IndexHeader::new stores its arguments
    nw = f.one("header::IndexHeader::new")
    ag = agg_fields(nw, "header::IndexHeader")
    if ag:
        p1, p2 = nw.local_name(1), nw.local_name(2)
        rep.check(ag[0].get("num_entries") == p1 and ag[0].get("data_section_size") == p2, "O4", "IndexHeader::new", "IndexHeader::new(n, d) stores n and d",
                  "IndexHeader::new stores %s" % {k: v for k, v in ag[0].items() if k in ("num_entries", "data_section_size")}, nw.span)


def self_is_header(b, place):
    ty = b.local_ty(place["l"])
    return "headers::header::Header<" in ty


def borrow_users(b, tmp):
    out = []
    work = [tmp]
    seen = set()
    while work:
        t = work.pop()
        if t in seen:
            continue
        seen.add(t)
        for (bb, idx, role, payload, pl) in b.uses(t):
            if isinstance(role, tuple) and role[0] == "arg":
                out.append(b.call_at(bb).decl)
            elif isinstance(payload, dict) and payload.get("k") == "assign":
                work.append(payload["lhs"]["l"])
    return out


def check_ctor(f, rep, b, st, ft, tb, E):
    key = fmt_key(b.path)
    loc = "%s:%s" % (b.file, st.get("line"))
    ih, ie, store = ft.get("index_header", ""), ft.get("index_entries", ""), ft.get("store", "")
    if key.endswith("Header::<T>::from_entries"):
        # IndexHeader::new(u32(len(all_records)), u32(len(store))) with those very vectors
        m = re.match(r"^rpm::headers::header::IndexHeader::new\(u32\(std::vec::Vec::<T, A>::len\((.*)\)\), u32\(std::vec::Vec::<T, A>::len\((.*)\)\)\)$", ih)
        ok = bool(m) and m.group(1) == ie and m.group(2) == store
        rep.check(ok, "O4", "from_entries|sizes-from-lengths", "from_entries records the lengths of the very vectors it stores",
                  "from_entries records %s for entries %s / store %s" % (ih[:160], ie[:60], store[:60]), loc)
        # no mutation of either vector after the length that is recorded was taken
        newc = [c for c in b.calls() if c.decl.endswith("IndexHeader::new")]
        if rep.check(len(newc) == 1, "O4", "from_entries|one-intro", "one IndexHeader::new call", "from_entries calls IndexHeader::new %d times" % len(newc), loc):
            for ai, nm in ((0, "index entries"), (1, "store")):
                len_calls = []
                work = [newc[0].args[ai]]
                for _ in range(6):
                    nxt = []
                    for o in work:
                        for lf in b.origins(o, passthrough={}):
                            if lf["kind"] == "cast":
                                nxt.append(lf["stmt"]["rv"]["o"])
                            elif lf["kind"] == "call" and lf["call"].decl.endswith("Vec::<T, A>::len"):
                                len_calls.append(lf["call"])
                    work = nxt
                    if not work:
                        break
                if not rep.check(len(len_calls) == 1, "O4", "from_entries|%s-len" % nm, "the recorded %s size is a Vec::len()" % nm, "the recorded %s size does not come from one Vec::len()" % nm, loc):
                    continue
                lc = len_calls[0]
                late = []
                for l in _roots(b, lc.args[0]):
                    for (w, _i) in b.mut_borrow_calls(l):
                        if b.can_reach(lc.bb, w.bb):
                            late.append(w.decl)
                rep.check(not late, "O4", "from_entries|%s-frozen" % nm, "the %s vector is not modified after its length is recorded" % nm,
                          "the %s vector is modified by %s after its length was recorded" % (nm, late), loc)
    elif key.endswith("IndexSignatureTag>::new_empty"):
        ok = ih == "rpm::headers::header::IndexHeader::new(0_u32, 0_u32)" and ie == "buf[]" and store == "buf[]"
        rep.check(ok, "O4", "new_empty|empty", "new_empty: sizes 0 and empty vectors", "new_empty builds %s / %s / %s" % (ih, ie[:60], store[:60]), loc)
    elif key.endswith("Header::<T>::parse_header"):
        ok = ih == "index_header"
        rep.check(ok, "O4", "parse_header|intro", "parse_header stores the intro it was given", "parse_header stores %s" % ih[:80], loc)
        # entries: exactly one push per iteration of a loop bounded by index_header.num_entries
        nx = [c for c in b.calls() if c.decl == "std::iter::Iterator::next" and (c.self_ty or "").startswith("std::ops::Range<u32>")]
        first = None
        for c in nx:
            if render(tb.term(c.args[0])) == "std::ops::Range::Range{0_u32, index_header.num_entries}":
                first = c
        if rep.check(first is not None, "O4", "parse_header|loop-bound", "the entry loop runs 0..index_header.num_entries", "no loop over 0..index_header.num_entries", loc):
            blocks = [blks for (_h, blks) in b.loops() if first.bb in blks]
            blks = min(blocks, key=len) if blocks else set()
            pushes = [c for c in b.calls() if c.bb in blks and c.decl.endswith("Vec::<T, A>::push") and render(tb.term(c.args[0])).startswith("buf[")]
            entries_local_pushes = [c for c in b.calls() if c.decl.endswith("Vec::<T, A>::push") and render(tb.term(c.args[1])).startswith("rpm::headers::header::IndexEntry::<T>::parse(")]
            ok = len(entries_local_pushes) == 1 and entries_local_pushes[0].bb in blks
            # the push lies on every path through the loop body that continues (it dominates the back edge)
            if ok:
                back = [t for (t, h) in b.back_edges() if t in blks and h in blks]
                ok = all(b.dominates(entries_local_pushes[0].bb, t) for t in back)
            rep.check(ok, "O4", "parse_header|one-push-per-iteration", "exactly one entry is pushed per iteration", "the entry loop does not push exactly one entry per iteration", loc)
        # the buffer handed over has exactly num_entries*E + data_section_size bytes (Header::parse)
        hp = f.one("header::Header::<T>::parse")
        th = TermBuilder(hp)
        tk = [c for c in hp.calls() if c.decl == "std::io::Read::take"]
        txt = render(th.term(tk[0].args[1])) if tk else ""
        ok = ("checked_mul(rpm::headers::header::IndexHeader::parse(" in txt and "num_entries, %d_u32)" % E in txt) or "num_entries" in txt
        rep.check(bool(tk) and ok, "O4", "parse|block-size", "Header::parse reads exactly num_entries*%d + data_section_size bytes and checks the length" % E,
                  "Header::parse block size is %s" % txt[:200], hp.span)
        # closure: index_size.checked_add(data_section_size)
        names = []
        work = list(f.closures_of(hp))
        while work:
            cb = work.pop()
            tcb = TermBuilder(cb)
            for c in cb.calls():
                names.append((c.decl, [render(tcb.term(a))[:80] for a in c.args]))
            work += f.closures_of(cb)
        # the closure adding the store size captures index_header.data_section_size
        caps = []
        for bb2 in hp.reachable():
            for st2 in hp.stmts(bb2):
                if st2["k"] == "assign" and st2["rv"]["r"] == "agg" and st2["rv"].get("ak") == "closure":
                    caps.append((st2["rv"]["closure"], [render(th.term(o)) for o in st2["rv"]["ops"]]))
        ok = False
        for (cpath, cterms) in caps:
            cb = f.bodies.get(cpath)
            if cb is None:
                continue
            adds = [c for c in cb.calls() if c.decl.endswith("checked_add")]
            if adds and any("data_section_size" in t for t in cterms):
                ok = True
        if not ok:
            # spelled without closures (`a.checked_mul(16)?.checked_add(b)?` in a helper spliced into parse): the length handed to
            # take() is built from data_section_size through a checked addition
            direct = [c for c in hp.calls() if c.decl.endswith("checked_add")] + [c for cb in f.closures_of(hp) for c in cb.calls() if c.decl.endswith("checked_add")]
            ok = "data_section_size" in txt and "checked_add(" in txt and bool(direct)
        rep.check(ok, "O4", "parse|adds-store-size", "the block size adds data_section_size", "closures of Header::parse call %s" % names[:4], hp.span)
    else:
        rep.finding("O4", "%s|unknown-constructor" % key, "%s constructs a Header outside the reviewed constructors (from_entries, new_empty, parse_header)" % b.path, loc)


def _roots(b, op):
    out = set()
    pl = op_place(op)
    if pl is None:
        return out
    for lf in b.origins(pl, passthrough={}):
        pass
    # follow refs to the base local
    cur = pl
    for _ in range(6):
        ds = b.defs(cur["l"])
        if cur["p"] or len(ds) != 1 or ds[0][2] != "assign":
            break
        rv = ds[0][3]["rv"]
        if rv["r"] == "ref":
            cur = {"l": rv["p"]["l"], "p": []}
            continue
        if rv["r"] == "use" and op_place(rv["o"]) is not None:
            cur = op_place(rv["o"])
            continue
        break
    out.add(cur["l"])
    return out
