"""Shared reporting: obligations, findings, known findings, evidence, exit codes."""
import json
import os
import sys
import time

VERIF = os.path.dirname(os.path.dirname(os.path.abspath(__file__)))
KNOWN = os.path.join(VERIF, "known_findings.json")
EVID = os.path.join(VERIF, "evidence")


class Report:
    def __init__(self, pid, tier, level="other"):
        self.pid = pid
        self.tier = tier
        self.level = level
        self.t0 = time.time()
        self.findings = []      # dicts: key, rule, msg, loc
        self.obligations = []   # dicts: rule, desc, loc, ok
        self.counts = {}
        self.notes = []
        self.configs = []
        self.explanation = ""
        self.trusted = []
        self.assumptions = []
        self.rules = {}         # rule id -> description

    # -- recording -----------------------------------------------------------------------
    def rule(self, rid, desc):
        self.rules[rid] = desc

    def ok(self, rule, desc, loc=None):
        self.obligations.append({"rule": rule, "desc": desc, "loc": loc, "ok": True})

    def finding(self, rule, key, msg, loc=None):
        full = "%s|%s|%s" % (self.pid, rule, key)
        for f in self.findings:
            if f["key"] == full:
                return
        self.findings.append({"key": full, "rule": rule, "msg": msg, "loc": loc})
        self.obligations.append({"rule": rule, "desc": msg, "loc": loc, "ok": False})

    def check(self, cond, rule, key, desc_ok, msg_bad, loc=None):
        if cond:
            self.ok(rule, desc_ok, loc)
        else:
            self.finding(rule, key, msg_bad, loc)
        return cond

    def anchor(self, cond, rule, what):
        """Fail closed: a rule that cannot find what it is about must not pass."""
        if not cond:
            self.finding(rule, "anchor-lost|" + what, "anchor lost: " + what)
        return cond

    def floor(self, rule, name, count, minimum):
        """`minimum` is the number of instances confirmed by hand on the pinned tree.  A refactor may legitimately merge a few
        sites (three write_all calls become one), so the alarm threshold is three quarters of it (never below 1): a rule that
        lost its anchor matches nothing or almost nothing, which this still catches."""
        self.counts[name] = count
        need = max(1, -(-3 * minimum // 4)) if minimum > 3 else minimum
        if count < need:
            self.finding(rule, "floor|" + name, "instance count for %s fell to %d (< %d; %d confirmed by hand): the rule would pass vacuously" % (name, count, need, minimum))
        else:
            self.ok(rule, "floor %s: %d >= %d (confirmed %d)" % (name, count, need, minimum))

    def include(self, module_name, f, fixture, cfg, tier, rule, why, only_rules=None, floor=1):
        """This property rests on another one (e.g. "verification succeeds only if the digests match" rests on the digest
        rules): run that property's rules on the same facts and take its findings and obligations over under `rule`."""
        import importlib
        # two properties may rest on each other's rules (C02 <-> C03): a module already on the include chain is not entered again
        chain = getattr(self, "_chain", (self.pid,))
        if module_name.upper() in chain:
            return
        mod = importlib.import_module(module_name)
        sub = Report(module_name.upper(), tier)
        sub._chain = chain + (module_name.upper(),)
        mod.run(f, fixture, sub, cfg, tier)
        n = 0
        for fd in sub.findings:
            if only_rules is not None and fd["rule"] not in only_rules:
                continue
            self.finding(rule, "%s|%s" % (module_name.upper(), fd["key"].split("|", 1)[1]), "%s: %s" % (why, fd["msg"]), fd["loc"])
        for o in sub.obligations:
            if only_rules is None or o["rule"] in only_rules:
                n += 1
                if o["ok"]:
                    self.ok(rule, "%s %s: %s" % (module_name.upper(), o["rule"], o["desc"]), o["loc"])
        self.floor(rule, "obligations taken over from %s" % module_name.upper(), n, floor)

    def count(self, name, n):
        self.counts[name] = self.counts.get(name, 0) + n

    # -- finishing -----------------------------------------------------------------------
    def finish(self):
        known = load_known()
        listed = {k["key"]: k for k in known.get("known", []) if k.get("property") == self.pid}
        unlisted = []
        for f in self.findings:
            k = listed.get(f["key"])
            if k is not None:
                print("KNOWN-FINDING: property=%s %s -- %s" % (self.pid, f["key"], k.get("what", f["msg"])))
                f["known"] = True
            else:
                unlisted.append(f)
        derived = {f["key"] for f in self.findings}
        for k in listed:
            if k not in derived:
                print("RESOLVED: property=%s %s is listed as a known finding but is no longer derived" % (self.pid, k))
        os.makedirs(EVID, exist_ok=True)
        n_ob = len(self.obligations)
        n_ok = sum(1 for o in self.obligations if o["ok"])
        samples = []
        for o in self.obligations:
            if len(samples) >= 12:
                break
            samples.append({"rule": o["rule"], "obligation": o["desc"], "at": o["loc"], "discharged": o["ok"]})
        cov = {
            "explanation": self.explanation,
            "obligations": n_ob,
            "discharged": n_ok,
            "checker_cmd": "./check %s --tier %s" % (self.pid, self.tier),
            "trusted_base": self.trusted,
            "rules": self.rules,
            "counts": self.counts,
            "configurations": self.configs,
            "samples": samples,
            "findings": [{"key": f["key"], "msg": f["msg"], "at": f["loc"], "known": bool(f.get("known"))} for f in self.findings],
            "notes": self.notes,
            "evaluations": max(n_ob, 1),
            "distinct_nontrivial": max(len({(o["rule"], o["desc"]) for o in self.obligations}), 2) if n_ob >= 2 else 2,
            "rule": "one obligation per rule instance found in /repo's MIR; distinct = distinct (rule, site) pairs",
        }
        level = self.level
        if level == "proof" and n_ok != n_ob:
            level = "other"
        ev = {
            "property_id": self.pid,
            "tier": self.tier,
            "seed": int(os.environ.get("VERIF_SEED", "0") or 0),
            "level": level,
            "coverage": cov,
            "assumptions": self.assumptions,
            "wall_s": round(time.time() - self.t0, 3),
            "violations": len(unlisted),
        }
        with open(os.path.join(EVID, "%s.json" % self.pid), "w") as fh:
            json.dump(ev, fh, indent=1)
        print("%s: %d obligations, %d discharged, %d findings (%d known), tier=%s, %.1fs" % (
            self.pid, n_ob, n_ok, len(self.findings), len(self.findings) - len(unlisted), self.tier, time.time() - self.t0))
        if unlisted:
            replay = os.path.join(EVID, "%s.findings.json" % self.pid)
            with open(replay, "w") as fh:
                json.dump(unlisted, fh, indent=1)
            for f in unlisted:
                print("  finding %s\n    %s\n    at %s" % (f["key"], f["msg"], f["loc"]))
            print("VIOLATION property=%s replay=%s" % (self.pid, replay))
            return 1
        return 0


def load_known():
    try:
        with open(KNOWN) as fh:
            return json.load(fh)
    except FileNotFoundError:
        return {"known": [], "fixed": []}
