"""C02 - signature verification never succeeds without a verified signature.

Decided on Package::verify_signature (and the pgp Verifier) - control/data-flow clauses only:
  R1  every path to Ok(()) passes at least one Verifying::verify call          (path-sensitive)
  R2  every verify verdict is binding (`?` / returned), none dropped or .ok()-ed
  R3  verify_digests is called and propagated before any success
  R4  coverage table: each verify call gets the signature of its tag and exactly the bytes that
      signature covers (header; header ++ payload for the legacy PGP tag)
  R6  pgp Verifier::verify: Ok only from pgp::Signature::verify's Ok; key = own key / id-matched subkey
  R7  base64 decode errors are propagated
Not decided: cryptographic soundness; "any byte change is rejected" (needs C01 + collision resistance).
"""
import re
from engine import op_place, AnchorLost
from terms import TermBuilder, render, strip_proj
from common import (ok_assign_blocks, err_assign_blocks, residual_return_blocks, question_mark_source,
                    reach_from, switch_info, users_switches, fmt_key, result_consumed)
from pathsens import PathExplorer, canon

VERIFY = "rpm::signature::traits::Verifying::verify"
HDR = "buf[ser(self.metadata.header)]"
GETTER_RX = re.compile(r"Header::<.*>::(get_entry_data_as_\w+)$")
# signature tag -> (getter, bytes the signature must be presented with)
COVER = {
    "RPMSIGTAG_OPENPGP": ("get_entry_data_as_string_array", HDR),
    "RPMSIGTAG_RSA": ("get_entry_data_as_binary", HDR),
    "RPMSIGTAG_DSA": ("get_entry_data_as_binary", HDR),
    "RPMSIGTAG_PGP": ("get_entry_data_as_binary", "chain(cursor(%s), cursor(self.content))" % HDR),
}


_F = {"facts": None}


def sig_tags(term):
    """All (getter, tag, decoded?, receiver) rows the signature argument can come from: one, or - for a loop over
    `[a, b].into_iter().flatten()` - one per element of the array."""
    if _F["facts"] is not None:
        import idioms
        term = idioms.array_map_elem(_F["facts"], term)
    t = term
    dec = False
    for _ in range(12):
        if t[0] == "proj":
            t = t[1]
            continue
        if t[0] == "call" and t[1].endswith("decode_sig"):
            dec = True
            t = t[2][0]
            continue
        if t[0] == "call" and re.search(r"(Iterator::next|IntoIterator::into_iter|Iterator::flatten|Iterator::by_ref)$", t[1]) and t[2]:
            t = t[2][0]
            continue
        break
    if t[0] == "agg" and t[1] == "array" and t[2]:
        rows = [sig_tag(x) for x in t[2]]
        if all(r is not None for r in rows):
            return [(g, tg, d or dec, rc) for (g, tg, d, rc) in rows]
        return []
    one = sig_tag(term)
    return [one] if one is not None else []


def sig_tag(term):
    """(getter, tag, decoded?) of the signature argument's provenance term."""
    decoded = False
    if _F["facts"] is not None:
        import idioms
        term = idioms.array_map_elem(_F["facts"], term)
    t = term
    for _ in range(10):
        if t[0] == "proj":
            t = t[1]
            continue
        if t[0] == "call" and t[1].endswith("decode_sig"):
            decoded = True
            t = t[2][0]
            continue
        if t[0] == "call" and re.search(r"(Iterator::next|IntoIterator::into_iter|<impl \[T\]>::iter|Deref::deref|as_slice|as_ref|as_str|as_bytes)$", t[1]):
            t = t[2][0]
            continue
        break
    if t[0] == "call":
        m = GETTER_RX.search(t[1])
        if m and len(t[2]) >= 2:
            tagt = strip_proj(t[2][1])
            if tagt[0] == "agg":
                return (m.group(1), tagt[1].rsplit("::", 1)[-1], decoded, render(t[2][0]))
    return None


def data_term(t):
    """Normalise the data argument term to the oracle notation."""
    def norm(x):
        x = strip_proj(x) if x[0] == "proj" and not x[2] else x
        if x[0] == "call":
            n = x[1]
            if n.endswith("io::Read::chain"):
                return "chain(%s)" % ", ".join(norm(a) for a in x[2])
            if re.search(r"io::Cursor::<T>::new$", n):
                return "cursor(%s)" % norm(x[2][0])
        return render(x)
    return norm(t)


def run(f, fixture, rep, cfg, tier):
    _F["facts"] = f
    rep.explanation = (
        "Path-sensitive reachability over Package::verify_signature's MIR with a finite predicate abstraction "
        "(discriminants / is_ok / is_empty facts on immutable values, first-iteration lemma for non-empty slices): "
        "no (block, state) pair reaches a return of Ok(()) without a Verifying::verify call and a propagated "
        "verify_digests. Each verify call site is then checked for a binding verdict and for the provenance of "
        "its signature and data arguments against the coverage table; the pgp verifier's Ok returns are tied to "
        "pgp::Signature::verify by dominance.")
    rep.trusted = ["rustc nightly MIR", "pgp crate's Signature::verify", "third-party Verifying impls honour the trait contract",
                   "pass-through table in rules/engine.py"]
    for r, d in (("R1", "must-verify on every success path"), ("R2", "verdicts are binding"), ("R3", "digests first"),
                 ("R4", "coverage table"), ("R6", "pgp verifier Ok only from Signature::verify"), ("R7", "decode errors propagate")):
        rep.rule(r, d)
    if cfg == "no-default":
        rep.notes.append("configuration without signature-meta: verify_signature does not exist; nothing to decide")
        rep.ok("R1", "no signature support compiled in this configuration")
        return

    b = f.one("Package::verify_signature")
    tb = TermBuilder(b)
    # closures of verify_signature belong to it (e.g. a loop rewritten as try_for_each)
    closures = []
    work = list(f.closures_of(b))
    while work:
        cb = work.pop()
        closures.append(cb)
        work += f.closures_of(cb)
    tbs = {b.path: tb}
    for cb in closures:
        tbs[cb.path] = TermBuilder(cb, closure_env=True)
    verify_calls = [c for c in b.calls() if c.decl == VERIFY] + [c for cb in closures for c in cb.calls() if c.decl == VERIFY]

    def closure_must_verify(cb):
        """Every Ok(..)-capable return of the closure passes a verify call whose verdict it returns/propagates."""
        def oc(c, flags):
            return ("verify",) if c.decl == VERIFY else ()
        ex2 = PathExplorer(cb, oc)
        fins = ex2.run()
        for n in fins:
            r = n[4]
            if r == "err":
                continue
            if r is not None and r.startswith("call:") and r[5:] == VERIFY:
                continue
            if "verify" not in n[2]:
                return False
        return bool(fins)
    verifying_closures = {cb.path for cb in closures if closure_must_verify(cb)}
    rep.floor("R1", "Verifying::verify call sites in verify_signature", len(verify_calls), 4)
    digest_calls = [c for c in b.calls() if c.decl.endswith("Package::verify_digests")]
    rep.check(len(digest_calls) >= 1, "R3", "digests|called", "verify_digests is called", "verify_signature no longer calls verify_digests", b.span)

    # ---- R1 / R3 path-sensitive --------------------------------------------------------
    ITER_ALL = ("std::iter::Iterator::try_for_each", "std::iter::Iterator::try_fold")

    def on_call(c, flags):
        if c.decl == VERIFY:
            return ("verify",)
        if c.decl.endswith("Package::verify_digests"):
            return ("digests",)
        if c.decl in ITER_ALL:
            # `iter.try_for_each(closure)`: if the closure verifies on every Ok return, the call verifies every
            # element - and at least one exists when the collection was tested non-empty on this path
            cl = None
            for lf in b.origins(c.args[-1], passthrough={}):
                if lf["kind"] == "agg" and lf["stmt"]["rv"].get("ak") == "closure":
                    cl = lf["stmt"]["rv"]["closure"]
            if cl in verifying_closures:
                from engine import PASS_THROUGH
                K = canon(b, c.args[0], PASS_THROUGH)
                return ("verify-if-nonempty:%s" % (K,),)
        return ()

    ex = PathExplorer(b, on_call)
    finals = ex.run()
    rep.count("states_explored", ex.states)
    rep.count("branches_pruned_by_predicates", ex.pruned)

    def state_verified(n):
        if "verify" in n[2]:
            return True
        for fl in n[2]:
            if fl.startswith("verify-if-nonempty:"):
                for fact in n[1]:
                    if fact[0] == "empty" and fact[2] is False and str(fact[1]) == fl[len("verify-if-nonempty:"):]:
                        return True
        return n[4] is not None and n[4] == "call:" + VERIFY
    # a Result handed back straight from a call may be Ok: it counts as a success return
    ok_finals = [n for n in finals if n[4] == "ok" or (n[4] or "").startswith("call:")]
    rep.check(len(ok_finals) >= 1, "R1", "has-success", "verify_signature has a success return", "no success path found (anchor)", b.span)
    bad_v = [n for n in ok_finals if not state_verified(n)]
    bad_d = [n for n in ok_finals if "digests" not in n[2]]
    if bad_v:
        tr = ex.trace(bad_v[0])
        lines = []
        for bb in tr:
            if bb == "return":
                continue
            ln = b.term(bb).get("line")
            if ln and (not lines or lines[-1] != ln):
                lines.append(ln)
        tag = "openpgp-branch" if any(c.bb in tr for c in b.calls() if c.decl.endswith("is_empty") or c.decl == "std::iter::Iterator::next") else "legacy-branch"
        rep.finding("R1", "success-without-verify|" + tag,
                    "a path returns Ok(()) without consulting the verifier: blocks %s (source lines %s)" % (tr[:40], lines[:30]), b.span)
    else:
        rep.ok("R1", "all %d abstract success states passed a Verifying::verify call" % len(ok_finals), b.span)
    rep.check(not bad_d, "R3", "success-without-digests", "every success path has verify_digests propagated",
              "a path returns Ok(()) without verify_digests", b.span)
    for dc in digest_calls:
        ok, how = result_consumed(b, dc.dest["l"])
        via_q = any(isinstance(u[2], tuple) and b.call_at(u[0]).decl == "std::ops::Try::branch" for u in b.uses(dc.dest["l"]))
        rep.check(via_q, "R3", "digests|propagated", "verify_digests' error is propagated with `?`",
                  "verify_digests' result is not `?`-propagated (%s)" % how, dc.loc())

    # ---- R2 binding verdicts ---------------------------------------------------------------
    for i, c in enumerate(verify_calls):
        ob = c.body
        otb = tbs[ob.path]
        uses = [u for u in ob.uses(c.dest["l"]) if u[2] != "drop"]
        via_q = any(isinstance(u[2], tuple) and ob.call_at(u[0]).decl == "std::ops::Try::branch" for u in uses)
        returned = c.dest["l"] == 0
        st = sig_tag(otb.term(c.args[2]))
        tag = st[1] if st else "unknown#%d" % i
        rep.check(via_q or returned, "R2", "binding|%s" % tag, "the verdict for %s is `?`-propagated" % tag,
                  "the verifier's verdict for %s is not binding (not `?`-propagated nor returned)" % tag, c.loc())

    # ---- R4 coverage table -------------------------------------------------------------------
    seen_tags = set()
    for i, c in enumerate(verify_calls):
        otb = tbs[c.body.path]
        sts = sig_tags(otb.term(c.args[2]))
        if not rep.check(bool(sts), "R4", "sig-origin|#%d" % i, "signature argument comes from a signature tag getter",
                         "the signature passed to the verifier does not come from a signature-header tag: %s" % render(otb.term(c.args[2]))[:200], c.loc()):
            continue
        for (getter, tag, decoded, recv) in sts:
            seen_tags.add(tag)
            if tag not in COVER:
                rep.finding("R4", "sig-tag|%s" % tag, "a signature is read from %s, which is not a signature tag of the table" % tag, c.loc())
                continue
            want_getter, want_data = COVER[tag]
            rep.check(getter == want_getter and recv == "self.metadata.signature", "R4", "sig-getter|%s" % tag, "%s read with %s from the signature header" % (tag, want_getter),
                      "%s read with %s from %s" % (tag, getter, recv), c.loc())
            rep.check(decoded == (tag == "RPMSIGTAG_OPENPGP"), "R4", "sig-decode|%s" % tag, "%s %s" % (tag, "base64-decoded" if decoded else "used raw"),
                      "%s is %s" % (tag, "not base64-decoded" if not decoded else "unexpectedly base64-decoded"), c.loc())
            got = data_term(otb.term(c.args[1]))
            rep.check(got == want_data, "R4", "data|%s" % tag, "%s is verified over %s" % (tag, want_data),
                      "%s is verified over %s, but it covers %s" % (tag, got, want_data), c.loc())
    for tag in COVER:
        rep.check(tag in seen_tags, "R4", "tag-consulted|%s" % tag, "%s is consulted" % tag, "%s is never presented to the verifier" % tag, b.span)

    # ---- R7 decode errors ----------------------------------------------------------------------
    dec = [c for c in b.calls() if c.decl.endswith("decode_sig")] + [c for cb in closures for c in cb.calls() if c.decl.endswith("decode_sig")]
    rep.check(len(dec) >= 1, "R7", "decode|present", "OpenPGP entries are base64-decoded", "decode_sig is no longer called", b.span)
    for c in dec:
        via_q = any(isinstance(u[2], tuple) and c.body.call_at(u[0]).decl == "std::ops::Try::branch" for u in c.body.uses(c.dest["l"]))
        rep.check(via_q, "R7", "decode|propagated", "decode errors are `?`-propagated", "a base64 decode error is not propagated", c.loc())

    # ---- R8 what the signature vouches for ---------------------------------------------------------
    # the signature covers the header only; the payload is tied to it through the digests recorded in the header, so
    # those must be recorded on every build (C08.R2) - otherwise a signed package carries an unprotected payload
    rep.rule("R8", "the payload digest the signed header vouches for is always recorded")
    from c08 import check_always_recorded
    check_always_recorded(f, rep, "R8")

    # ---- R10 the digests verify_signature relies on -----------------------------------------------------------------
    rep.rule("R10", "verify_signature's digest step is sound (C03's rules on verify_digests)")
    rep.include("c03", f, fixture, cfg, tier, "R10", "digest verification (a step of verify_signature)", floor=20)

    # ---- R9 the signature tags are rpm's signature tags ------------------------------------------------------------
    rep.rule("R9", "signature tag numbers equal rpm's (rpmtag.h)")
    from tagtable import check_tag_numbers
    check_tag_numbers(f, rep, "R9", names={"RPMSIGTAG_OPENPGP", "RPMSIGTAG_RSA", "RPMSIGTAG_DSA", "RPMSIGTAG_PGP", "RPMSIGTAG_GPG", "RPMSIGTAG_SHA256", "RPMSIGTAG_SHA1", "RPMSIGTAG_MD5",
                                            "RPMTAG_PAYLOADDIGEST", "RPMTAG_PAYLOADDIGESTALGO"})

    # ---- R6 pgp verifier --------------------------------------------------------------------------
    if cfg in ("default", "default+bzip2"):
        pv = [x for x in f.body_list if x.impl_trait == "rpm::signature::traits::Verifying" and x.name == "verify" and (x.impl_self or "").endswith("pgp::Verifier")]
        if rep.anchor(len(pv) == 1, "R6", "<pgp::Verifier as Verifying>::verify"):
            check_pgp_verifier(pv[0], rep)
        check_pgp_data(f, rep, "R6", cfg)


def check_pgp_verifier(b, rep):
    tb = TermBuilder(b)
    sv = [c for c in b.calls() if re.search(r"pgp::(packet::)?Signature::verify$", c.decl)]
    rep.floor("R6", "pgp Signature::verify call sites", len(sv), 3)
    # (a) Ok returns
    for bb in ok_assign_blocks(b):
        ok = False
        for c in sv:
            if not c.dest or c.dest["p"]:
                continue
            for sb in users_of_discr(b, c):
                info = switch_info(b, sb)
                okt = info["targets"].get(0)
                if okt is not None and b.dominates(okt, bb) and b.pred(okt) == [sb]:
                    ok = True
        rep.check(ok, "R6", "ok-return|bb-dominated", "an explicit Ok(()) is dominated by the Ok arm of Signature::verify",
                  "the pgp verifier returns Ok(()) at a point not dominated by a successful pgp Signature::verify", "%s:%s" % (b.file, b.term(bb).get("line")))
    # direct returns `_0 = call(...)`
    for (bb, idx, kind, payload, lhs_proj) in b.defs(0):
        if kind != "call":
            continue
        c = b.call_at(bb)
        if c.decl == "std::ops::FromResidual::from_residual":
            continue
        if re.search(r"pgp::(packet::)?Signature::verify$", c.decl):
            srcs = [c.decl]
        else:
            leaves = b.origins(c.args[0]) if c.args else []
            srcs = [l["call"].decl for l in leaves if l["kind"] == "call"]
        ok = bool(srcs) and all(re.search(r"pgp::(packet::)?Signature::verify$", s) for s in srcs)
        rep.check(ok, "R6", "ok-return|direct|%s" % c.decl.rsplit("::", 1)[-1], "returned Result derives from Signature::verify",
                  "the pgp verifier returns the result of %s, not of pgp Signature::verify" % srcs, c.loc())
    # (b) key argument
    for i, c in enumerate(sv):
        kt = render(tb.term(c.args[1]))
        own = kt == "self.public_key"
        sub = "self.public_key.public_subkeys" in kt
        rep.check(own or sub, "R6", "key|#%d" % i, "verification key is %s" % kt[:80],
                  "pgp Signature::verify is given a key that is not the verifier's own key or one of its subkeys: %s" % kt[:120], c.loc())
        if sub:
            # must be guarded by an equality test involving this subkey's key id
            guarded = False
            for sb in b.reachable():
                info = switch_info(b, sb)
                if info and info["kind"] == "bool" and info["call"].decl in ("std::cmp::PartialEq::eq", "std::cmp::PartialEq::ne"):
                    tt = info["true"] if info["call"].decl.endswith("::eq") else info["false"]
                    if b.dominates(tt, c.bb) and b.pred(tt) == [sb]:
                        ts = render(tb.term(info["call"].args[0])) + " " + render(tb.term(info["call"].args[1]))
                        if "key_id" in ts and "public_subkeys" in ts:
                            guarded = True
            rep.check(guarded, "R6", "subkey-guard|#%d" % i, "subkey verification is guarded by key-id equality",
                      "a subkey is used for verification without the key-id equality guard", c.loc())


def check_pgp_data(f, rep, rule, cfg):
    """The pgp signer and verifier hand the bytes they are given to the pgp crate untouched and whole:
    what is signed is what is later verified (a partial read on either side breaks sign-then-verify for large headers)."""
    if "no-default" in cfg:
        return
    pv = [x for x in f.body_list if x.impl_trait == "rpm::signature::traits::Verifying" and x.name == "verify" and (x.impl_self or "").endswith("pgp::Verifier")]
    ps = [x for x in f.body_list if x.impl_trait == "rpm::signature::traits::Signing" and x.name == "sign" and "pgp::Signer" in (x.impl_self or "")]
    if not rep.anchor(len(pv) == 1 and len(ps) == 1, rule, "pgp Signer::sign and Verifier::verify"):
        return
    for b, rx, argi, floor in ((pv[0], r"pgp::(packet::)?Signature::verify$", 2, 3), (ps[0], r"pgp::packet::SignatureConfig::sign$", 3, 1)):
        tb = TermBuilder(b)
        calls = [c for c in b.calls() if re.search(rx, c.decl)]
        rep.floor(rule, "%s call sites in %s" % (rx, fmt_key(b.path)), len(calls), floor)
        want = b.local_name(2) or "_2"
        for i, c in enumerate(calls):
            got = render(tb.term(c.args[argi])) if len(c.args) > argi else "?"
            whole = (want, "buf[write:std::io::Read::read_to_end(%s)]" % want)   # the reader itself, or everything read from it
            rep.check(got in whole, rule, "pgp-data|%s|#%d" % (b.name, i), "%s hands its `%s` reader to the pgp crate as given" % (fmt_key(b.path), want),
                      "%s gives the pgp crate %s instead of the reader it received: the bytes %s may be a part or a transformation of the header"
                      % (b.path, got[:160], "verified" if b.name == "verify" else "signed"), c.loc())
        # nothing else may consume the reader first
        for c in b.calls():
            if re.search(rx, c.decl) or c.decl.startswith("log::") or not c.args:
                continue
            for ai, a in enumerate(c.args):
                if render(tb.term(a)) == want and re.search(r"(Read::read\w*|BufRead::\w+|io::copy|Read::take|Read::bytes)$", c.decl) and not c.decl.endswith("Read::read_to_end"):
                    rep.finding(rule, "pgp-data|%s|consumed-by|%s" % (b.name, c.decl.rsplit("::", 1)[-1]), "%s reads from the data itself (%s) before/besides the pgp crate" % (b.path, c.decl), c.loc())


def users_of_discr(b, call):
    """Switch blocks that branch on the discriminant of `call`'s result."""
    out = []
    for sb in b.reachable():
        info = switch_info(b, sb)
        if info and info["kind"] == "discr":
            k = canon(b, info["place"])
            if k == ("call", call.bb, ()):
                out.append(sb)
    return out
