"""Idiom normalisation on provenance terms: equivalent spellings of one computation are rewritten to one canonical
term before a rule compares them, so that a rule states *what* is computed and not *how* it is spelled.

  MIN(opt, v)   "v, clamped from above by opt when opt is Some":
                  opt.map_or(v, |d| d.min(v))            opt.map(|d| d.min(v)).unwrap_or(v)
                  opt.filter(|d| *d < v).unwrap_or(v)    min(opt.unwrap_or(v), v)
                  match opt { Some(d) => d.min(v), None => v }
                (the guarded form `match opt { Some(d) if d < v => d, _ => v }` is a CFG pattern, checked with its polarity by C11)
"""
import re
from terms import TermBuilder, render

RET = {"k": "copy", "l": 0, "p": []}


def _closure_ret(f, t, item=None):
    """(return term, name of the closure's value parameter) of a closure aggregate term.  The captured values are the ones the
    aggregate term shows (the view of the body the closure is built in - which, for a closure of a spliced-in helper, is the
    caller and not the closure's lexical parent); `item`, when given, is what the closure's value parameter is bound to."""
    if t[0] != "agg" or len(t) < 4 or not t[3]:
        return None, None
    cb = f.bodies.get(t[3])
    if cb is None:
        return None, None
    tb = TermBuilder(cb, closure_env=True)
    env = dict(tb.env or {})
    for i, ct in enumerate(t[2]):
        env[i] = ct
    if item is not None:
        env["item"] = item
        env["item_n"] = 2
    tb.env = env
    return normalize(f, tb.term(RET), 1), (cb.local_name(2) or "_2")


def _some(recv):
    from terms import simplify_proj
    return simplify_proj(recv, ("as Some", ".0"))


def _is_param(t, pname):
    """Is `t` the closure's value parameter?  `pname` is its name or (name, receiver term): with the closure environment
    resolved, the parameter of an Option adaptor's closure reads as the receiver's `Some` payload."""
    recv = None
    if isinstance(pname, tuple):
        pname, recv = pname
    while t[0] == "proj" and not [p for p in t[2] if p != "*"]:
        t = t[1]
    if t[0] == "arg" and t[1] == pname:
        return True
    return recv is not None and render(t) in (render(recv) + "<Some>.0", render(("proj", recv, ("as Some", ".0"))))


def _min_of(t, pname, dflt_r):
    """t == min(param, dflt) in either order?"""
    if t[0] == "call" and re.search(r"(Ord::min|cmp::min)$", t[1]) and len(t[2]) == 2:
        a, b = t[2]
        return (_is_param(a, pname) and render(b) == dflt_r) or (_is_param(b, pname) and render(a) == dflt_r)
    return False


def _lt_of(t, pname, dflt_r):
    """t == (param < dflt) / (param <= dflt) / (dflt > param) / (dflt >= param)?"""
    if t[0] == "call" and len(t[2]) == 2:
        m = re.search(r"PartialOrd::(lt|le|gt|ge)$", t[1])
        if m:
            a, b = t[2]
            if m.group(1) in ("lt", "le"):
                return _is_param(a, pname) and render(b) == dflt_r
            return _is_param(b, pname) and render(a) == dflt_r
    if t[0] == "bin" and t[1] in ("Lt", "Le", "Gt", "Ge"):
        a, b = t[2], t[3]
        if t[1] in ("Lt", "Le"):
            return _is_param(a, pname) and render(b) == dflt_r
        return _is_param(b, pname) and render(a) == dflt_r
    return False


ITER_VIEW = re.compile(r"(<impl \[T\]>::iter|IntoIterator::into_iter|Iterator::by_ref|Iterator::copied|Iterator::cloned|Vec::<T, A>::iter|Vec::<T, A>::into_iter|Iterator::rev|Iterator::peekable|Iterator::fuse)$")


def resolve_item(it, path):
    """Which source collection does `item.path` of iterator term `it` come from?  -> (term, remaining path) with
    term = ELEM(collection) or INDEX(collection)."""
    for _ in range(24):
        if it[0] == "call" and ITER_VIEW.search(it[1]) and it[2]:
            it = it[2][0]
            continue
        if it[0] == "call" and re.search(r"(itertools::multizip|itertools::izip)$", it[1]) and it[2] and it[2][0][0] == "agg" and path and re.fullmatch(r"\.\d+", path[0]):
            i = int(path[0][1:])
            parts = it[2][0][2]
            if i < len(parts):
                it, path = parts[i], path[1:]
                continue
            break
        if it[0] == "call" and it[1].endswith("Iterator::zip") and len(it[2]) == 2 and path and path[0] in (".0", ".1"):
            it, path = it[2][int(path[0][1:])], path[1:]
            continue
        if it[0] == "call" and it[1].endswith("Iterator::enumerate") and it[2] and path and path[0] in (".0", ".1"):
            if path[0] == ".0":
                return ("call", "INDEX", (it[2][0],)), path[1:]
            it, path = it[2][0], path[1:]
            continue
        break
    return ("call", "ELEM", (it,)), path


def MIN(o, v):
    return ("call", "MIN", (o, v))


_CTX = {"tb": None}


def _len_bases(t, out, depth=0):
    """collections whose length bounds `t` from above: t = len(X) / min(.., len(X), ..) through casts"""
    if depth > 8 or not isinstance(t, tuple) or not t:
        return
    if t[0] == "cast":
        _len_bases(t[2], out, depth + 1)
    elif t[0] == "call" and re.search(r"(Ord::min|cmp::min)$", t[1]):
        for a in t[2]:
            _len_bases(a, out, depth + 1)
    elif t[0] == "call" and re.search(r"::len$", t[1]) and t[2]:
        out.append(render(t[2][0]))
    elif t[0] == "un" and t[1] == "PtrMetadata":
        out.append(render(t[2]))


def normalize(f, t, depth=0, tb=None):
    """Bottom-up rewrite of the idioms listed in the module docstring.  With `tb` (the TermBuilder the term came from) an element
    read by position inside a counting loop, `xs[i]` with `i` from `0..len(xs)` / `0..min(len(xs), ..)`, is ELEM(xs) as well."""
    if tb is not None:
        old = _CTX["tb"]
        _CTX["tb"] = tb
        try:
            return normalize(f, t, depth)
        finally:
            _CTX["tb"] = old
    if depth > 40 or not isinstance(t, tuple) or not t:
        return t
    k = t[0]
    if k == "call":
        if t[1] == "std::iter::Iterator::next" and len(t[2]) == 1:
            e, rest = resolve_item(normalize(f, t[2][0], depth + 1), ())
            return e
        args = tuple(normalize(f, a, depth + 1) for a in t[2])
        t = ("call", t[1], args) + tuple(t[3:])
        d = t[1]
        if re.search(r"bool>::then$", d) and len(args) == 2:
            # `cond.then(|| value)`: show the value the closure computes (its captures resolved) instead of the opaque closure
            ret, _pn = _closure_ret(f, args[1])
            if ret is not None:
                return ("call", d, (args[0], ret))
        if d.endswith("Option::<T>::map_or") and len(args) == 3:
            ret, pn = _closure_ret(f, args[2], _some(args[0]))
            if ret is not None and _min_of(ret, (pn, args[0]), render(args[1])):
                return MIN(args[0], args[1])
        if d.endswith("Option::<T>::unwrap_or") and len(args) == 2:
            inner = args[0]
            if inner[0] == "call" and inner[1].endswith("Option::<T>::filter") and len(inner[2]) == 2:
                ret, pn = _closure_ret(f, inner[2][1], _some(inner[2][0]))
                if ret is not None and _lt_of(ret, (pn, inner[2][0]), render(args[1])):
                    return MIN(inner[2][0], args[1])
            if inner[0] == "call" and inner[1].endswith("Option::<T>::map") and len(inner[2]) == 2:
                ret, pn = _closure_ret(f, inner[2][1], _some(inner[2][0]))
                if ret is not None and _min_of(ret, (pn, inner[2][0]), render(args[1])):
                    return MIN(inner[2][0], args[1])
        if re.search(r"(Ord::min|cmp::min)$", d) and len(args) == 2:
            for x, y in ((args[0], args[1]), (args[1], args[0])):
                if x[0] == "call" and x[1].endswith("Option::<T>::unwrap_or") and len(x[2]) == 2 and render(x[2][1]) == render(y):
                    return MIN(x[2][0], y)
        return t
    if k == "phi":
        alts = [normalize(f, a, depth + 1) for a in t[1]]
        if len(alts) == 2:
            for x, y in ((alts[0], alts[1]), (alts[1], alts[0])):
                if x[0] == "call" and re.search(r"(Ord::min|cmp::min)$", x[1]) and len(x[2]) == 2:
                    for a, b in ((x[2][0], x[2][1]), (x[2][1], x[2][0])):
                        ar = render(a)
                        if ar.endswith("<Some>.0") and render(b) == render(y):
                            from terms import strip_proj
                            return MIN(a[1] if a[0] == "proj" else a, y)
        return ("phi", alts)
    if k in ("agg", "vec", "buf"):
        idx = 2 if k == "agg" else 1
        lst = [normalize(f, a, depth + 1) for a in t[idx]]
        return t[:idx] + (lst,) + tuple(t[idx + 1:])
    if k == "write":
        return ("write", t[1], [normalize(f, a, depth + 1) for a in t[2]])
    if k == "proj":
        inner = t[1]
        if inner[0] == "call" and inner[1] == "std::iter::Iterator::next" and len(inner[2]) == 1:
            # element of an iterator chain: name the collection it comes from, whatever zip/enumerate shape was used
            path = tuple(p for p in t[2] if p != "*")
            if len(path) >= 2 and path[0] == "as Some" and path[1] == ".0":
                path = path[2:]
            e, rest = resolve_item(normalize(f, inner[2][0], depth + 1), path)
            return ("proj", e, tuple(rest)) if rest else e
        tb_ = _CTX["tb"]
        idxs = [i for i, p in enumerate(t[2]) if isinstance(p, str) and re.fullmatch(r"\[_\d+\]", p)]
        if tb_ is not None and len(idxs) == 1:
            i0 = idxs[0]
            base = ("proj", t[1], tuple(t[2][:i0])) if i0 else t[1]
            it = tb_.term({"l": int(t[2][i0][2:-1]), "p": []})
            # i = next(Range{0, E})<Some>.0 with E bounded by len(base)
            x = it
            while x[0] == "proj" and all(p in ("as Some", ".0", "*") for p in x[2]):
                x = x[1]
            if x[0] == "call" and x[1] == "std::iter::Iterator::next" and x[2] and x[2][0][0] == "agg" and str(x[2][0][1]).startswith("std::ops::Range") and len(x[2][0][2]) == 2:
                lo, hi = x[2][0][2]
                bases = []
                _len_bases(hi, bases)
                if render(lo) == "0_usize" and render(base) in bases:
                    e = ("call", "ELEM", (normalize(f, base, depth + 1),))
                    rest = tuple(t[2][i0 + 1:])
                    return ("proj", e, rest) if rest else e
        return ("proj", normalize(f, t[1], depth + 1), t[2])
    if k in ("cast", "un"):
        return (k, t[1], normalize(f, t[2], depth + 1))
    if k == "bin":
        return ("bin", t[1], normalize(f, t[2], depth + 1), normalize(f, t[3], depth + 1))
    if k in ("hex", "ser"):
        return (k, normalize(f, t[1], depth + 1))
    return t


def _array_items(t):
    """elements when t is (an iterator over) an array literal: array{a, b, c}, into_iter(array{..}), iter(array{..})"""
    for _ in range(6):
        if t[0] == "agg" and t[1] == "array":
            return list(t[2])
        if t[0] == "call" and ITER_VIEW.search(t[1]) and t[2]:
            t = t[2][0]
            continue
        if t[0] == "proj" and not [p for p in t[2] if p != "*"]:
            t = t[1]
            continue
        break
    return None


def _find_array_next(t, depth=0):
    """first sub-term `Iterator::next(<array literal iterator>)` of t, or None"""
    if depth > 40 or not isinstance(t, tuple) or not t:
        return None
    if t[0] == "call" and t[1] == "std::iter::Iterator::next" and len(t[2]) == 1 and _array_items(t[2][0]) is not None:
        return t
    kids = []
    if t[0] == "call":
        kids = list(t[2])
    elif t[0] in ("agg",):
        kids = list(t[2])
    elif t[0] in ("vec", "buf", "phi"):
        kids = list(t[1])
    elif t[0] == "write":
        kids = list(t[2])
    elif t[0] == "proj":
        kids = [t[1]]
    elif t[0] in ("cast", "un"):
        kids = [t[2]]
    elif t[0] == "bin":
        kids = [t[2], t[3]]
    elif t[0] in ("hex", "ser"):
        kids = [t[1]]
    for k_ in kids:
        r = _find_array_next(k_, depth + 1)
        if r is not None:
            return r
    return None


def _replace(t, old, new, depth=0):
    if depth > 40 or not isinstance(t, tuple) or not t:
        return t
    if t == old:
        return new
    k = t[0]
    if k == "call":
        return ("call", t[1], tuple(_replace(a, old, new, depth + 1) for a in t[2])) + tuple(t[3:])
    if k == "agg":
        return ("agg", t[1], [_replace(a, old, new, depth + 1) for a in t[2]]) + tuple(t[3:])
    if k in ("vec", "buf", "phi"):
        return (k, [_replace(a, old, new, depth + 1) for a in t[1]])
    if k == "write":
        return ("write", t[1], [_replace(a, old, new, depth + 1) for a in t[2]])
    if k == "proj":
        from terms import simplify_proj
        inner = _replace(t[1], old, new, depth + 1)
        if inner is not t[1]:
            proj = tuple(p for p in t[2] if p != "*")
            # element of an array iterator: next(..) is Some(element)
            if proj[:2] == ("as Some", ".0"):
                proj = proj[2:]
            return simplify_proj(inner, proj) if proj else inner
        return t
    if k in ("cast", "un"):
        return (k, t[1], _replace(t[2], old, new, depth + 1))
    if k == "bin":
        return ("bin", t[1], _replace(t[2], old, new, depth + 1), _replace(t[3], old, new, depth + 1))
    if k in ("hex", "ser"):
        return (k, _replace(t[1], old, new, depth + 1))
    return t


def expand_rows(terms):
    """`terms`: a tuple of terms that describe one site (e.g. tag and data of an IndexEntry::new call).  If they mention an element
    of an array literal that is being iterated (`for (a, b) in [(x1, y1), (x2, y2)]`, or the same through into_iter().map/
    filter_map), return one tuple of terms per array element with the element substituted; otherwise [terms]."""
    node = None
    for t in terms:
        node = _find_array_next(t)
        if node is not None:
            break
    if node is None:
        return [tuple(terms)]
    items = _array_items(node[2][0])
    out = []
    for it in items:
        out.append(tuple(_replace(t, node, it) for t in terms))
    return out


def array_map_elem(f, t, depth=0):
    """`[a, b, c].map(closure)[k]` (an element of a mapped array literal, e.g. after `let [x, y, z] = [A, B, C].map(|t| get(t))`) is the
    closure's value for element k: rewritten bottom-up wherever it occurs in `t`."""
    from terms import simplify_proj
    if depth > 30 or not isinstance(t, tuple) or not t:
        return t
    if t[0] == "proj" and t[2] and isinstance(t[2][0], str) and re.fullmatch(r"\[\d+\]", t[2][0]):
        inner = t[1]
        if inner[0] == "call" and re.search(r"<impl \[T; N\]>::map$", inner[1]) and len(inner[2]) == 2 and inner[2][0][0] == "agg" and inner[2][0][1] == "array":
            k = int(t[2][0][1:-1])
            items = inner[2][0][2]
            if k < len(items):
                ret, _pn = _closure_ret(f, inner[2][1], items[k])
                if ret is not None:
                    rest = tuple(t[2][1:])
                    return simplify_proj(ret, rest) if rest else ret
    out = []
    for x in t:
        if isinstance(x, tuple):
            out.append(array_map_elem(f, x, depth + 1))
        elif isinstance(x, list):
            out.append([array_map_elem(f, y, depth + 1) if isinstance(y, tuple) else y for y in x])
        else:
            out.append(x)
    return tuple(out)
