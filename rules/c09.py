"""C09 - emitted packages satisfy rpm's structural rules (layout-algorithm clauses and constant tables).

  R1  single constructor: every header the builder or signer emits comes from Header::from_entries
  R2  sorted and unique: sort by tag dominates the layout loop; no tag is emitted twice on one path
  R3  alignment / count tables of IndexData::append and num_items equal the oracle; the pad count is added to the offset
  R4  region tag: type Bin, count 16, trailer offset -(16 * (records + 1)), placed first in the index, data last in the store
  R5  signature padding: see C01.R6 / C16.O5 (re-stated)
  R6  lead constants equal the oracle
  R7  rpmlib() requirement table: unconditional and conditional rows with their guarding conditions
  R8  archive side: entries carry the map key as name and the entry's mode; header-order == archive order (one loop)
Not decided: numeric consequences of the layout (non-overlap) beyond the per-type table; zero-count entries from empty user vectors.
"""
import re
from engine import op_place, const_int, const_str
from terms import TermBuilder, render
from common import switch_info, arms_of, reach_from, fmt_key, call_leaves
from c01 import agg_fields
from c08 import index_entries

ALIGN = {"Int16": 2, "Int32": 4, "Int64": 8}
LEAD = {"major": "3_u8", "minor": "0_u8", "package_type": "0_u16", "arch": "0_u16", "os": "1_u16", "signature_type": "5_u16",
        "magic": '*b"\\xed\\xab\\xee\\xdb"', "reserved": "('repeat', ('const', '0_u8'), '16')"}
RPMLIB_ALWAYS = {("CompressedFileNames", "3.0.4-1"), ("FileDigests", "4.6.0-1"), ("PayloadFilesHavePrefix", "4.0-1")}
RPMLIB_CODEC = {"Zstd": ("PayloadIsZstd", "5.4.18-1"), "Xz": ("PayloadIsXz", "5.2-1"), "Bzip2": ("PayloadIsBzip2", "3.0.5-1")}
RPMLIB_COND = {"FileCaps": "4.6.1-1", "LargeFiles": "4.12.0-1"}


def run(f, fixture, rep, cfg, tier):
    rep.explanation = (
        "Layout-algorithm and constant-table rules over MIR: which constructor produces every emitted header, dominance of the "
        "tag sort over the layout loop with the comparator's provenance, per-type alignment / terminator / count arm tables, the "
        "region tag's provenance terms, the lead aggregate's constants, and the rpmlib() requirement rows with the conditions "
        "that guard them - all compared with oracle tables taken from rpm's format documentation.")
    rep.trusted = ["rustc nightly MIR", "slice::sort_by sorts by the given comparator", "rpm header format documentation (alignment, region tags, lead)", "rpmlib() feature versions"]
    for r, d in (("R1", "single constructor"), ("R2", "sorted and unique"), ("R3", "alignment and counts"), ("R4", "region tag"), ("R6", "lead constants"),
                 ("R7", "rpmlib table"), ("R8", "archive entries")):
        rep.rule(r, d)
    fe = f.one("header::Header::<T>::from_entries")
    tb = TermBuilder(fe)
    pd = f.one("PackageBuilder::prepare_data")
    tp = TermBuilder(pd)

    # ---- R1 ---------------------------------------------------------------------------------------
    ret_hdr = render(tp.term({"l": 0, "p": [{"d": "Ok"}, {"f": 0, "n": "0"}, {"f": 1, "n": "1"}]}))
    rep.check(ret_hdr.startswith("rpm::headers::header::Header::<T>::from_entries(") and ret_hdr.endswith("constants::IndexTag::RPMTAG_HEADERIMMUTABLE{})"), "R1", "main-header",
              "the main header is from_entries(records, HEADERIMMUTABLE)", "prepare_data returns header %s" % ret_hdr[:120], pd.span)
    if cfg != "no-default" or True:
        sb_ = f.one("SignatureHeaderBuilder::build")
        ts = TermBuilder(sb_)
        rh = render(ts.term({"l": 0, "p": [{"d": "Ok"}, {"f": 0, "n": "0"}]}))
        rep.check(rh.startswith("rpm::headers::header::Header::<T>::from_entries(") and rh.endswith("constants::IndexSignatureTag::HEADER_SIGNATURES{})"), "R1", "signature-header",
                  "the signature header is from_entries(entries, HEADER_SIGNATURES)", "SignatureHeaderBuilder::build returns %s" % rh[:120], sb_.span)
    ctor_sites = []
    for b in f.body_list:
        if b.derived:
            continue
        for bb in b.reachable():
            for st in b.stmts(bb):
                if st["k"] == "assign" and st["rv"]["r"] == "agg" and st["rv"].get("ak") == "adt" and re.search(r"headers::header::Header$", st["rv"].get("adt", "")):
                    ctor_sites.append(fmt_key(b.path))
    ok = sorted(set(x.split("::")[-1] for x in ctor_sites)) == ["from_entries", "new_empty", "parse_header"]
    rep.check(ok, "R1", "constructors", "Header values are built only in from_entries, parse_header, new_empty", "Header is constructed in %s" % sorted(set(ctor_sites)))

    # ---- R2 ----------------------------------------------------------------------------------------
    sort = [c for c in fe.calls() if re.search(r"<impl \[T\]>::sort(_by|_by_key|_unstable_by|_unstable_by_key)?$", c.decl)]
    loop_next = [c for c in fe.calls() if c.decl == "std::iter::Iterator::next"]
    okd = len(sort) == 1 and loop_next and all(fe.dominates(sort[0].bb, c.bb) for c in loop_next) and render(tb.term(sort[0].args[0])) == (fe.local_name(1) or "_1")
    rep.check(okd, "R2", "sort-dominates-layout", "the records are sorted before the layout loop", "from_entries: sort calls %s do not dominate the layout loop" % [c.decl for c in sort], fe.span)
    cmpok = False
    for cb in f.closures_of(fe):
        t = TermBuilder(cb)
        for c in cb.calls():
            if c.decl == "std::cmp::Ord::cmp":
                a = [render(t.term(x)) for x in c.args]
                p1, p2 = cb.local_name(2), cb.local_name(3)
                cmpok = a == ["%s.tag" % p1, "%s.tag" % p2]
        # sort_by_key / sort_unstable_by_key: the key is the entry's tag
        if sort and re.search(r"_by_key$", sort[0].decl) and not cb.calls():
            cmpok = cmpok or render(t.term({"k": "copy", "l": 0, "p": []})) == "%s.tag" % (cb.local_name(2) or "_2")
    rep.check(cmpok, "R2", "comparator", "the comparator orders by tag, ascending", "the sort comparator does not compare e1.tag with e2.tag", fe.span)
    # uniqueness per from_entries call site
    for (b, t_) in ((pd, tp), (f.one("SignatureHeaderBuilder::build"), None)):
        t_ = t_ or TermBuilder(b)
        ents = index_entries(b, t_)
        by_tag = {}
        for tag, data, c in ents:
            by_tag.setdefault(tag, []).append(c)
        for tag, cs in by_tag.items():
            if len(cs) < 2:
                continue
            excl = all(not b.can_reach(x.bb, y.bb) and not b.can_reach(y.bb, x.bb) for i, x in enumerate(cs) for y in cs[i + 1:])
            rep.check(excl, "R2", "%s|unique|%s" % (fmt_key(b.path), tag), "%s is emitted on mutually exclusive paths only" % tag,
                      "%s can be emitted twice into the same header (%d sites on one path)" % (tag, len(cs)), cs[0].loc())
        rep.count("entry_sites_" + fmt_key(b.path).rsplit("::", 1)[-1], len(ents))
    # scriptlet tags reach the header through Scriptlet::apply(records, offset, <family>_TAGS): the families' tags must be pairwise
    # distinct and distinct from every tag prepare_data emits itself, else two index entries carry the same tag
    fam = {}
    for cname, c in f.consts.items():
        if cname.endswith("_TAGS") and "IndexTag" in (c.get("ty") or ""):
            fam[cname.rsplit("::", 1)[-1]] = re.findall(r"RPMTAG_\w+", c.get("value") or "")
    rep.floor("R2", "scriptlet tag families (<X>_TAGS constants)", len(fam), 9)
    seen = {}
    direct = {tag for tag, _d, _c in index_entries(pd, tp)}
    for name in sorted(fam):
        for tag in fam[name]:
            dup = seen.get(tag) or ("prepare_data" if tag in direct else None)
            rep.check(dup is None, "R2", "script-tags|distinct|%s|%s" % (name, tag), "%s of %s is used by no other emitter" % (tag, name),
                      "%s appears in %s and in %s: a package using both gets two index entries with the same tag" % (tag, name, dup))
            seen.setdefault(tag, name)

    # ---- R5 signature padding (the rule lives in C01.R6: one padding function, tabulated over all 8 residues, used by writer and offsets)
    rep.rule("R5", "the signature header is padded to an 8-byte boundary (C01.R6)")
    rep.include("c01", f, fixture, cfg, tier, "R5", "signature header padding", only_rules={"R6"}, floor=3)

    # ---- R10 what this crate emits stays well-formed across failed operations and in the archive ---------------------------
    rep.rule("R10", "a failed sign leaves a well-formed package (C10.R2); cpio headers are well-formed (C07.R2)")
    if cfg != "no-default":
        rep.include("c10", f, fixture, cfg, tier, "R10", "mutators change the package only after their fallible steps", only_rules={"R2"}, floor=4)
    rep.include("c07", f, fixture, cfg, tier, "R10", "cpio header fields, name size and padding; codec table", only_rules={"R2", "R6"}, floor=5)
    # the c_mode field is `u32::from(entry.mode)`: that conversion must reproduce the 16-bit mode word (C18.O2)
    rep.include("c18", f, fixture, cfg, tier, "R10", "mode word conversions used for the archive header", only_rules={"O2"}, floor=5)
    # header names (DIRNAMES[DIRINDEXES[i]] + BASENAMES[i]) equal the archive names: rests on the builder's field -> tag table (C06.R2)
    rep.include("c06", f, fixture, cfg, tier, "R10", "file name columns of the header", only_rules={"R2"}, floor=50)

    # ---- R9 tag numbers ---------------------------------------------------------------------------------------
    rep.rule("R9", "tag numbers equal rpm's (rpmtag.h)")
    from tagtable import check_tag_numbers
    check_tag_numbers(f, rep, "R9")

    # ---- R3 alignment ---------------------------------------------------------------------------------
    ap = f.one("header::IndexData::append")
    ta = TermBuilder(ap)
    sw = None
    for sb in sorted(ap.reachable()):
        info = switch_info(ap, sb)
        if info and info["kind"] == "discr" and (info.get("enum") or "").endswith("IndexData"):
            sw, sw_bb = info, sb
    if rep.anchor(sw is not None, "R3", "match on IndexData in append"):
        arms = arms_of(ap, sw)
        reach = {t: reach_from(ap, t, blocked_blocks={sw_bb}) for t in set(arms.values())}
        common = set.intersection(*reach.values())
        for name, t in arms.items():
            region = reach[t] - common
            mods = set()
            for bb in region:
                for st in ap.stmts(bb):
                    if st["k"] == "assign" and st["rv"]["r"] == "bin" and st["rv"]["op"] == "Rem":
                        v = const_int(st["rv"]["b"])
                        if v is None:
                            # the modulus handed to a (spliced-in) padding helper as an argument
                            lv_ = [lf for lf in ap.origins(st["rv"]["b"])]
                            if len(lv_) == 1 and lv_[0]["kind"] == "const" and "bits" in lv_[0]["k"]:
                                v = int(lv_[0]["k"]["bits"])
                        a = render(ta.term(st["rv"]["a"]))
                        if v is not None and "Vec::<T, A>::len(store)" in a:
                            mods.add(v)
            want = {ALIGN[name]} if name in ALIGN else set()
            rep.check(mods == want, "R3", "align|%s" % name, "%s is aligned to %s" % (name, (ALIGN.get(name) or 1)), "%s is aligned with modulus %s (expected %s)" % (name, sorted(mods), sorted(want) or "none"), ap.span)
            calls = [c for c in ap.calls() if c.bb in region]
            if name in ("Int16", "Int32", "Int64"):
                cl = [c for cb in f.closures_of(ap) for c in cb.calls() if c.decl.endswith("to_be_bytes")]
                direct = any(re.search(r"(extend_from_slice|Extend::extend)$", c.decl) and len(c.args) > 1 and "::to_be_bytes(" in render(ta.term(c.args[1])) for c in calls)
                rep.check((any(c.decl.endswith("::push") for c in calls) and bool(cl)) or direct, "R3", "encode|%s" % name, "%s elements are appended big-endian" % name, "%s arm does not append to_be_bytes" % name, ap.span)
            if name in ("StringTag", "StringArray", "I18NString"):
                nul = [c for c in calls if c.decl.endswith("Vec::<T, A>::push") and const_int(c.args[1]) == 0]
                ext = [c for c in calls if c.decl.endswith("extend_from_slice")]
                rep.check(len(nul) == 1 and len(ext) == 1, "R3", "terminator|%s" % name, "%s: bytes followed by one NUL per string" % name,
                          "%s arm: %d NUL pushes, %d extends" % (name, len(nul), len(ext)), ap.span)
    # the returned pad count is added to the recorded offset: offset = len(store) taken before append() + what append() returned
    offs = []
    leaves = []
    for bb in sorted(fe.reachable()):
        for st in fe.stmts(bb):
            if st["k"] == "assign" and st["lhs"]["p"] and any(isinstance(p, dict) and p.get("n") == "offset" for p in st["lhs"]["p"]):
                rv = st["rv"]
                offs.append(render(tb.term(rv.get("o") or st["lhs"])))
                calls_in = set()
                for o in [rv.get(k2) for k2 in ("o", "a", "b") if rv.get(k2) is not None]:
                    calls_in |= call_leaves(fe, o)
                leaves.append((bb, calls_in))
    all_calls = set().union(*[c for (_b, c) in leaves]) if leaves else set()
    lens = [c for c in all_calls if c.decl.endswith("Vec::<T, A>::len")]
    apps_ = [c for c in all_calls if c.decl.endswith("IndexData::append")]
    last_has_append = bool(leaves) and any(c.decl.endswith("IndexData::append") for c in leaves[-1][1])
    ok = (len(lens) == 1 and len(apps_) == 1 and last_has_append and fe.dominates(lens[0].bb, apps_[0].bb)
          and render(tb.term(lens[0].args[0])).startswith("buf[") and not any(re.search(r"\b(Sub|Mul|Div|Rem|Shl|Shr)\w*\(", o) for o in offs))
    rep.check(ok, "R3", "offset-plus-pad", "offset = store length before the entry + the padding append() inserted", "record.offset assignments: %s" % [o[:90] for o in offs], fe.span)
    ni = f.one("header::IndexData::num_items")
    tn = {}
    for sb in sorted(ni.reachable()):
        info = switch_info(ni, sb)
        if info and info["kind"] == "discr":
            arms = arms_of(ni, info)
            reach = {t: reach_from(ni, t, blocked_blocks={sb}) for t in set(arms.values())}
            common = set.intersection(*reach.values())
            for name, t in arms.items():
                region = reach[t] - common
                val = None
                for bb in region:
                    for st in ni.stmts(bb):
                        if st["k"] == "assign" and st["lhs"]["l"] == 0:
                            val = const_int(st["rv"].get("o", {})) if st["rv"]["r"] == "use" else ("len" if st["rv"]["r"] == "cast" else val)
                tn[name] = val
    want = {n: "len" for n in ("Bin", "Char", "I18NString", "StringArray", "Int8", "Int16", "Int32", "Int64")}
    want.update({"Null": 0, "StringTag": 1})
    rep.check(tn == want, "R3", "num_items", "count = element count (1 for a string, 0 for null)", "num_items table is %s" % tn, ni.span)

    # ---- R4 region tag ------------------------------------------------------------------------------------
    crt = f.one("header::Header::<T>::create_region_tag")
    tc = TermBuilder(crt)
    news = [c for c in crt.calls() if re.search(r"IndexEntry::<.*>::new$", c.decl)]
    # an entry may also be written as a struct literal `IndexEntry { tag: tag.to_u32(), data, offset, num_items, .. }`
    lit_cnt = []

    class _Lit:
        pass
    for bb_ in sorted(crt.reachable()):
        for st_ in crt.stmts(bb_):
            if st_["k"] == "assign" and st_["rv"]["r"] == "agg" and st_["rv"].get("ak") == "adt" and st_["rv"].get("adt", "").endswith("header::IndexEntry"):
                fl_ = dict(zip(st_["rv"]["fields"], st_["rv"]["ops"]))
                if {"tag", "offset", "data"} <= set(fl_):
                    x_ = _Lit()
                    x_.bb, x_.args, x_.line, x_.lit = bb_, [fl_["tag"], fl_["offset"], fl_["data"]], st_.get("line"), True
                    x_.loc = (lambda ln: (lambda: "%s:%s" % (crt.file, ln)))(st_.get("line"))
                    news.append(x_)
                    if const_int(fl_.get("num_items", {})) is not None:
                        lit_cnt.append(const_int(fl_["num_items"]))
    if rep.check(len(news) == 2, "R4", "region|two-entries", "trailer entry + region entry", "create_region_tag builds %d entries" % len(news), crt.span):
        trailer, region = sorted(news, key=lambda c: c.bb)
        a = [render(tc.term(x)) for x in trailer.args]
        if getattr(trailer, "lit", False):
            a[0] = re.sub(r"^(?:\w+::)*(?:Tag|ToPrimitive)::to_u32\((\w+)\)(?:<Some>\.0)?$", r"\1", a[0])      # the literal stores `tag.to_u32()`, as `new` does
        rep.check(a == ["tag", "MulWithOverflow(AddWithOverflow(records_count, 1_i32), Neg(i32(16_u32)))", "rpm::headers::header::IndexData::Bin{buf[]}"], "R4", "region|trailer",
                  "trailer = (tag, -(16 * (records + 1)), Bin)", "trailer entry is built from %s" % a, trailer.loc())
        cnt = []
        for bb in crt.reachable():
            for st in crt.stmts(bb):
                if st["k"] == "assign" and st["lhs"]["p"] and any(isinstance(p, dict) and p.get("n") == "num_items" for p in st["lhs"]["p"]):
                    cnt.append(const_int(st["rv"].get("o", {})))
        cnt += lit_cnt
        rep.check(cnt == [16], "R4", "region|trailer-count", "trailer count = 16", "trailer count is %s" % cnt, crt.span)
        r = [render(tc.term(x)) for x in region.args]
        rep.check(r[0] == "tag" and r[1] == "offset" and r[2].startswith("rpm::headers::header::IndexData::Bin{buf[write:rpm::headers::header::IndexEntry::<T>::write_index("), "R4", "region|entry",
                  "region entry = (tag, offset, Bin(serialised trailer))", "region entry is built from %s" % [x[:80] for x in r], region.loc())
    call = [c for c in fe.calls() if c.decl.endswith("create_region_tag")]
    if rep.check(len(call) == 1, "R4", "region|call", "from_entries creates one region tag", "create_region_tag is called %d times" % len(call), fe.span):
        a = [render(tb.term(x)) for x in call[0].args]
        ok = a[0] == (fe.local_name(2) or "_2") and a[1] == "i32(std::vec::Vec::<T, A>::len(%s))" % (fe.local_name(1) or "_1") and a[2].startswith("i32(std::vec::Vec::<T, A>::len(buf[write:rpm::headers::header::IndexData::append(")
        rep.check(ok, "R4", "region|args", "region(tag, number of records, end of the laid-out store)", "create_region_tag is given %s" % [x[:80] for x in a], call[0].loc())
        # called after the layout loop, its data appended last, placed first in the index
        nxt = [c for c in fe.calls() if c.decl == "std::iter::Iterator::next"]
        after = all(not fe.can_reach(call[0].bb, c.bb) for c in nxt)
        apps = [c for c in fe.calls() if c.decl.endswith("IndexData::append") and fe.can_reach(call[0].bb, c.bb)]
        last = len(apps) == 1 and render(tb.term(apps[0].args[0])).startswith("rpm::headers::header::Header::<T>::create_region_tag(")
        ag = agg_fields(fe, "header::Header", tb)
        ie = ag[0]["index_entries"] if ag is not None else ""
        p1 = fe.local_name(1) or "_1"
        REG = "rpm::headers::header::Header::<T>::create_region_tag("
        # the index is [region entry] followed by all sorted records: `vec![region]` + append(records), or push(region) + extend/append(records)
        first = ie.startswith("vec![" + REG) or ie.startswith("buf[write:std::vec::Vec::<T, A>::push(" + REG)
        # ... or `once(region).chain(records).collect()`
        CH = "std::iter::Iterator::collect(std::iter::Iterator::chain(std::iter::once(" + REG
        chained = ie.startswith(CH) and ie.endswith("), %s))" % p1)
        va = [c for c in fe.calls() if re.search(r"(Vec::<T, A>::append|Extend::extend|Vec::<T, A>::extend_from_slice)$", c.decl)]
        okva = False
        for c_ in va:
            recv, src = render(tb.term(c_.args[0])), render(tb.term(c_.args[1]))
            if src == p1 and (recv.startswith("vec![" + REG) or recv.startswith("buf[write:std::vec::Vec::<T, A>::push(" + REG) or recv.startswith("buf[")) and ie.rstrip("]").endswith("(%s)" % p1) or (src == p1 and ie.startswith("vec![" + REG)):
                okva = True
        okva = okva and len(va) == 1
        if chained and not va:
            first = okva = True
        rep.check(after and last and first and okva, "R4", "region|placement", "region entry first in the index, its data last in the store, created after layout",
                  "region placement: after-layout=%s data-last=%s index-first=%s append-order=%s" % (after, last, first, okva), fe.span)

    # ---- R6 lead ---------------------------------------------------------------------------------------------
    ln = f.one("lead::Lead::new")
    tl = TermBuilder(ln)
    ag = agg_fields(ln, "lead::Lead", tl)
    if rep.anchor(ag is not None, "R6", "Lead aggregate in Lead::new"):
        for k, v in LEAD.items():
            rep.check(ag[0].get(k) == v, "R6", "lead|%s" % k, "lead.%s = %s" % (k, v), "lead.%s is %s (expected %s)" % (k, ag[0].get(k), v), ln.span)
        cp = [c for c in ln.calls() if c.decl.endswith("clone_from_slice") or c.decl.endswith("copy_from_slice")]
        t = render(tl.term(cp[0].args[0])) if cp else ""
        # the copy is cut to min(65, name.len()) - `cmp::min` or `.min()`, either operand order - and lands in a zeroed [u8; 66]
        cap = r"(?:SubWithOverflow\(core::slice::<impl \[T\]>::len\(\('repeat', \('const', '0_u8'\), '66'\)\), 1_usize\)|SubWithOverflow\(66_usize, 1_usize\)|65_usize)"
        nl = r"core::str::<impl str>::len\(%s\)" % re.escape(ln.local_name(1) or "name")
        okn = re.search(r"(?:std::cmp::min|std::cmp::Ord::min)\((?:%s, %s|%s, %s)\)" % (cap, nl, nl, cap), t) is not None and "('repeat', ('const', '0_u8'), '66')" in t
        rep.check(okn, "R6", "lead|name", "name: at most 65 bytes copied into a zeroed [u8; 66] (always NUL-terminated)", "lead name copy target is %s" % t[:200], ln.span)
    use = [c for c in pd.calls() if c.decl.endswith("lead::Lead::new")]
    rep.check(len(use) == 1 and render(tp.term(use[0].args[0])) == "self.name", "R6", "lead|used", "the builder's lead is Lead::new(name)", "prepare_data builds the lead from %s" % [render(tp.term(c.args[0])) for c in use], pd.span)

    # ---- R7 rpmlib ---------------------------------------------------------------------------------------------
    rl = [c for c in pd.calls() if c.decl.endswith("types::Dependency::rpmlib")]
    rows = {}
    row_bb = {}
    # table form: `let feature = match codec { Zstd => Some(("PayloadIsZstd", "5.4.18-1")), .., Gzip | None => None };
    #              if let Some((name, since)) = feature { requires.push(Dependency::rpmlib(name, since)) }`
    # - each (name, version) tuple built in an arm is a row located in that arm, provided the call sits on the Some edge
    pairs = []
    for bb in sorted(pd.reachable()):
        for st in pd.stmts(bb):
            if st["k"] == "assign" and st["rv"]["r"] == "agg" and st["rv"].get("ak") == "tuple" and len(st["rv"]["ops"]) == 2:
                ss = [const_str(o) for o in st["rv"]["ops"]]
                if all(isinstance(x, str) for x in ss):
                    pairs.append((ss[0].strip('"'), ss[1].strip('"'), bb))
    for c in rl:
        if const_str(c.args[0]) is None and render(tp.term(c.args[0])).startswith("phi("):
            names = {lf["k"]["s"].strip('"') for lf in pd.origins(c.args[0]) if lf["kind"] == "const" and "s" in lf["k"]}
            vers = {lf["k"]["s"].strip('"') for lf in pd.origins(c.args[1]) if lf["kind"] == "const" and "s" in lf["k"]}
            mine = [p_ for p_ in pairs if p_[0] in names]
            on_some = False
            for sb in sorted(pd.reachable()):
                info = switch_info(pd, sb)
                if info and info["kind"] == "discr" and (info.get("enum") or "").endswith("option::Option"):
                    a_ = arms_of(pd, info)
                    if "Some" in a_ and pd.dominates(a_["Some"], c.bb) and pd.pred(a_["Some"]) == [sb]:
                        on_some = True
            if on_some and {p_[0] for p_ in mine} == names and {p_[1] for p_ in mine} == vers and len(mine) == len(names):
                for (n_, v_, bb_) in mine:
                    rows[n_] = (v_, c)
                    row_bb[n_] = bb_
                continue
        name = (const_str(c.args[0]) or render(tp.term(c.args[0]))).strip('"')
        ver = render(tp.term(c.args[1])).strip('"')
        rows[name] = (ver, c)
    fe_call = [c for c in pd.calls() if c.decl.endswith("Header::<T>::from_entries")]
    for (name, ver) in RPMLIB_ALWAYS:
        got = rows.get(name)
        ok = got is not None and got[0] == ver and bool(fe_call) and pd.dominates(got[1].bb, fe_call[0].bb)
        rep.check(ok, "R7", "rpmlib|%s" % name, "rpmlib(%s) <= %s is always required" % (name, ver), "rpmlib(%s): %s" % (name, "missing" if got is None else "version %s / not unconditional" % got[0]), pd.span)
    # codec rows
    csw = None
    for sb in sorted(pd.reachable()):
        info = switch_info(pd, sb)
        if info and info["kind"] == "discr" and (info.get("enum") or "").endswith("compressor::CompressionType"):
            csw, csb = info, sb
    if rep.check(csw is not None, "R7", "rpmlib|codec-switch", "rpmlib codec features are selected by compression type", "no match on the compression type guards the rpmlib codec features", pd.span):
        arms = arms_of(pd, csw)
        reach = {t: reach_from(pd, t, blocked_blocks={csb}) for t in set(arms.values())}
        common = set.intersection(*reach.values())
        for variant, t in arms.items():
            region = reach[t] - common
            got = sorted(n for n, (v, c) in rows.items() if row_bb.get(n, c.bb) in region)
            want = [RPMLIB_CODEC[variant][0]] if variant in RPMLIB_CODEC else []
            okv = got == want and all(rows[n][0] == RPMLIB_CODEC[variant][1] for n in got)
            rep.check(okv, "R7", "rpmlib|codec|%s" % variant, "%s payloads require %s" % (variant, want or "no extra feature"),
                      "%s payloads declare %s (expected %s)" % (variant, [(n, rows[n][0]) for n in got], [RPMLIB_CODEC.get(variant)] if variant in RPMLIB_CODEC else []), pd.span)
    for name, ver in RPMLIB_COND.items():
        got = rows.get(name)
        if not rep.check(got is not None and got[0] == ver, "R7", "rpmlib|%s" % name, "rpmlib(%s) <= %s exists" % (name, ver), "rpmlib(%s) is %s" % (name, got and got[0]), pd.span):
            continue
        c = got[1]
        # guarded by a switch whose discriminee is the matching condition
        guard = None
        guard_place = None
        pl = None
        for sb in sorted(pd.reachable()):
            t = pd.term(sb)
            if t["t"] != "switch":
                continue
            for s in pd.succ(sb):
                if pd.dominates(s, c.bb) and pd.pred(s) == [sb] and not pd.dominates(c.bb, fe_call[0].bb if fe_call else c.bb):
                    pl = op_place(t["d"])
                    guard = render(tp.term(pl)) if pl is not None else None
                    guard_place = pl
        if name == "LargeFiles":
            ok = guard is not None and guard.startswith("Gt(") and ("4294967295" in guard or "u32::MAX" in guard)
        else:
            ok = guard is not None and guard.startswith("phi(") and "true" in guard and "false" in guard
            # the flag is raised exactly under entry.caps.is_some()
            raised = False
            for sb in sorted(pd.reachable()):
                info = switch_info(pd, sb)
                if info and info["kind"] == "bool" and info["call"].decl.endswith("Option::<T>::is_some") and render(tp.term(info["call"].args[0])).endswith(".caps"):
                    for bb in reach_from(pd, info["true"], blocked_blocks={info["false"]}):
                        if not pd.dominates(info["true"], bb):
                            continue
                        for st in pd.stmts(bb):
                            if st["k"] == "assign" and st["rv"]["r"] == "use" and const_str(st["rv"]["o"]) == "true" and not st["lhs"]["p"] and (pd.local_name(st["lhs"]["l"]) or "").startswith("uses_file_cap"):
                                raised = True
            ok = ok and raised
            if not ok and pl is not None:
                # spelled with an iterator: self.files.values().any(|entry| entry.caps.is_some())
                gt = tp.term(guard_place) if guard_place is not None else None
                if gt is not None and gt[0] == "call" and gt[1].endswith("Iterator::any") and len(gt[2]) == 2 and "self.files" in render(gt[2][0]):
                    from idioms import _closure_ret
                    ret, pn = _closure_ret(f, gt[2][1])
                    rr = render(ret) if ret is not None else ""
                    ok = re.fullmatch(r"std::option::Option::<T>::is_some\((%s|ELEM\([^()]*\(self\.files\)\)|std::iter::Iterator::next\(.*self\.files\)\))(<Some>\.0)?(\.1)?\.caps\)" % re.escape(pn or "?"), rr) is not None
        rep.check(ok, "R7", "rpmlib|%s|condition" % name, "rpmlib(%s) is required exactly when the feature is used" % name,
                  "rpmlib(%s) is guarded by %s" % (name, (guard or "nothing")[:120]), c.loc())
    extra = set(rows) - {n for n, _v in RPMLIB_ALWAYS} - {v[0] for v in RPMLIB_CODEC.values()} - set(RPMLIB_COND)
    rep.check(not extra, "R7", "rpmlib|extra", "no other rpmlib() feature is declared", "additional rpmlib() features are declared: %s" % sorted(extra), pd.span)

    # ---- R8 -------------------------------------------------------------------------------------------------------
    wc = [c for c in pd.calls() if c.decl.endswith("payload::Builder::write_cpio")]
    if rep.check(len(wc) == 1, "R8", "cpio|one-writer", "one cpio write per file", "write_cpio is called at %d sites" % len(wc), pd.span):
        t = render(tp.term(wc[0].args[0]))
        ok = ("rpm::payload::Builder::new(std::iter::Iterator::next(std::iter::Iterator::enumerate(std::collections::BTreeMap::<K, V, A>::iter(self.files)))<Some>.0.1.0)" in t
              and re.search(r"Builder::mode\(.*<Some>\.0\.1\.1\.mode\)", t) is not None)
        rep.check(ok, "R8", "cpio|name-mode", "the cpio entry carries the archive path and the file's mode", "write_cpio builder is %s" % t[:260], wc[0].loc())
        sz = render(tp.term(wc[0].args[2]))
        rep.check(sz.startswith("u32(std::vec::Vec::<T, A>::len(") and sz.endswith(".content))") or ".content" in sz, "R8", "cpio|size", "c_filesize is the content length", "write_cpio size is %s" % sz[:160], wc[0].loc())
    ents = {tag: d for (tag, d, _c) in index_entries(pd, tp)}
    pf = ents.get("RPMTAG_PAYLOADFORMAT", "")
    rep.check(pf == 'rpm::headers::header::IndexData::StringTag{"cpio"}', "R8", "payload-format", "PAYLOADFORMAT = cpio", "PAYLOADFORMAT is %s" % pf, pd.span)
    ad = f.one("PackageBuilder::add_data")
    tad = TermBuilder(ad)
    ins = [c for c in ad.calls() if c.decl.endswith("BTreeMap::<K, V, A>::entry")]
    key = render(tad.term(ins[0].args[1])) if ins else ""
    # archive names start with "./" (PayloadFilesHavePrefix): either the './'-style destination itself or "." + absolute destination
    okp = "phi(" in key and "options.destination" in key and 'b"\\x01.\\xc0\\x00"' in key or re.search(r'\\x01\.\\xc0', key) is not None
    rep.check(okp, "R8", "cpio|dot-prefix", "archive names are './'-prefixed (PayloadFilesHavePrefix)", "the archive name is built as %s" % key[:260], ad.span)
