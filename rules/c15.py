"""C15 - textual forms of EVR, NEVRA and compression type round-trip.

  R1  CompressionType: every name Display prints is a key of FromStr mapping back to the same variant
  R2  the separators of the Display templates and of the parsers agree
  R3  search direction: a boundary whose left part may contain the separator is located from the right
  R4  the normalised form always carries an epoch ("0" exactly when the epoch is empty)
  R5  no panic on arbitrary text (site audit of the parsing functions)
Not decided: equality of all five components for every admissible tuple (value level).
"""
import re
from engine import op_place, const_str
from terms import TermBuilder, render, strip_proj
from common import switch_info, arms_of, ok_assign_blocks, reach_from, fmt_key
from audit import Auditor

RET = {"k": "copy", "l": 0, "p": []}


def display_table(b):
    """variant -> literal for a `match self { V => write!(f, "lit") }` Display impl."""
    tb = TermBuilder(b)
    sw = None
    for sb in sorted(b.reachable()):
        info = switch_info(b, sb)
        if info and info["kind"] == "discr":
            sw = info
            break
    if sw is None:
        return None
    out = {}
    arms = arms_of(b, sw)
    others = set(arms.values())
    for name, tgt in arms.items():
        region = reach_from(b, tgt, blocked_blocks=others - {tgt})
        lits = []
        for c in b.calls():
            if c.bb in region and c.decl.startswith("std::fmt::Arguments::<'a>::from_str"):
                s = const_str(c.args[0])
                if s and s.startswith('"'):
                    lits.append(s.strip('"'))
        if not lits:
            # `f.write_str(match self { V => "lit", .. })`: the literal is chosen in the arm and written after the arms join
            sinks = [render(tb.term(c.args[1])) for c in b.calls() if re.search(r"fmt::Formatter::<'a>::(write_str|pad)$", c.decl) and len(c.args) > 1]
            for bb in sorted(region):
                if not (b.dominates(tgt, bb) or bb == tgt):
                    continue
                for st in b.stmts(bb):
                    if st["k"] == "assign" and st["rv"]["r"] == "use":
                        sv = const_str(st["rv"]["o"])
                        if sv and sv.startswith('"') and any(sv in x for x in sinks):
                            lits.append(sv.strip('"'))
        out[name] = lits
    return out


def name_table(b):
    """variant -> literal for a body that maps the enum value to a string in a `match` (no formatter involved)."""
    sw = None
    for sb in sorted(b.reachable()):
        info = switch_info(b, sb)
        if info and info["kind"] == "discr" and (info.get("enum") or "").endswith("CompressionType"):
            sw = info
            break
    if sw is None:
        return None
    out = {}
    arms = arms_of(b, sw)
    for name, tgt in arms.items():
        lits = []
        for bb in sorted(b.reachable()):
            if b.dominates(tgt, bb) or bb == tgt:
                for st in b.stmts(bb):
                    if st["k"] == "assign" and st["rv"]["r"] == "use":
                        sv = const_str(st["rv"]["o"])
                        if sv and sv.startswith('"'):
                            lits.append(sv.strip('"'))
        out[name] = lits
    return out


def fromstr_table(b):
    """literal -> constructed variant for a `match s { "lit" => Ok(V) }` FromStr impl, or for the table-driven form
    `ALL.into_iter().find(|v| v.name() == s)` (first element of the constant array whose name equals the text)."""
    tb = TermBuilder(b)
    out = {}
    f = b.facts
    for c in b.calls():
        if re.search(r"Iterator::find$", c.decl.split("::<")[0]) and len(c.args) == 2:
            arr = None
            for lf in b.origins(c.args[0]):
                if lf["kind"] == "const" and re.fullmatch(r"\[(\w+::)*compressor::CompressionType; \d+\]", lf["k"].get("ty", "")) and lf["k"].get("alloc"):
                    arr = bytes.fromhex(lf["k"]["alloc"])
            cbs = [f.bodies.get(lf["stmt"]["rv"]["closure"]) for lf in b.origins(c.args[1], passthrough={}) if lf["kind"] == "agg" and lf["stmt"]["rv"].get("ak") == "closure"]
            adt = f.adt("compressor::CompressionType") if hasattr(f, "adt") else None
            if arr is None or len(cbs) != 1 or cbs[0] is None or adt is None:
                continue
            cb = cbs[0]
            nt = name_table(cb)
            tcb = TermBuilder(cb, closure_env=True)
            eqs = [x for x in cb.calls() if x.decl == "std::cmp::PartialEq::eq" and len(x.args) == 2]
            if not nt or len(eqs) != 1:
                continue
            sides = [render(tcb.term(a)) for a in eqs[0].args]
            want = b.local_name(1) or "_1"
            if not any(s_ == want for s_ in sides) or not any(s_.startswith("phi(") for s_ in sides):
                continue
            # the closure returns the comparison itself
            if render(TermBuilder(cb).term(RET)) != render(TermBuilder(cb).term({"c": eqs[0].dest})):
                continue
            by_discr = {int(v["discr"]): v["name"] for v in adt["variants"]}
            for d_ in arr:
                v_ = by_discr.get(d_)
                for lit in (nt.get(v_) or []):
                    out.setdefault(lit, v_)
            return out
    for sb in sorted(b.reachable()):
        info = switch_info(b, sb)
        if not info or info["kind"] != "bool" or info["call"].decl != "std::cmp::PartialEq::eq":
            continue
        c = info["call"]
        lit = None
        for a in c.args:
            s = const_str(a) if "k" in a else None
            if s and s.startswith('"'):
                lit = s.strip('"')
        if lit is None:
            continue
        # the variant constructed on the true edge (first Ok(..) assignment reached without another test)
        region = reach_from(b, info["true"], blocked_blocks={info["false"]})
        var = None
        for bb in sorted(region):
            for st in b.stmts(bb):
                if st["k"] == "assign" and st["rv"]["r"] == "agg" and st["rv"].get("adt", "").endswith("CompressionType"):
                    if b.dominates(info["true"], bb) or bb == info["true"]:
                        var = st["rv"]["variant"]
        out[lit] = var
    return out


def splits(b):
    tb = TermBuilder(b)
    out = []
    for c in b.calls():
        m = re.search(r"<impl str>::(split_once|rsplit_once|find|rfind|split|rsplit|splitn|rsplitn|split_terminator)$", c.decl)
        if m:
            ch = const_str(c.args[-1]) if "k" in c.args[-1] else render(tb.term(c.args[-1]))
            out.append({"method": m.group(1), "char": (ch or "").strip("'"), "recv": render(tb.term(c.args[0])), "call": c})
    return out


def template_for(f, b):
    """AST format templates used inside body b (joined by source line)."""
    lines = {c.line for c in b.calls() if c.decl.startswith("std::fmt::Arguments::<'a>::new") or c.decl.startswith("std::fmt::Arguments::<'a>::from_str")}
    out = []
    for x in f.fmt:
        if x["file"] == b.file and any(abs(x["line"] - ln) <= 8 for ln in lines) and b.d["span"].rsplit(":", 1)[0] == x["file"]:
            # restrict to templates between the body's first and last line
            ls = [c.line for c in b.calls()] + [int(b.span.rsplit(":", 1)[1])]
            if min(ls) <= x["line"] <= max(ls) + 2:
                out.append("".join(p["lit"] if "lit" in p else "{}" for p in x["pieces"]))
    return out


def run(f, fixture, rep, cfg, tier):
    rep.explanation = (
        "Formatter/parser table agreement over MIR and the expanded AST's format_args templates: the (variant, literal) rows "
        "of CompressionType's Display are looked up in the (literal, variant) rows of its FromStr; the separators of the "
        "Evr/Nevra templates are compared with the characters the parsers split on; the split that isolates a component whose "
        "left neighbour may contain the separator must search from the right; the normalised form's epoch operand is \"0\" "
        "exactly on the is_empty branch; panic-site audit of the parsing functions.")
    rep.trusted = ["rustc nightly MIR / expanded AST", "str::split_once / rsplit_once semantics"]
    for r, d in (("R1", "CompressionType Display/FromStr tables"), ("R2", "separator agreement"), ("R3", "search direction"), ("R4", "normalised epoch"), ("R5", "no panic"), ("R6", "components stored as given"), ("R7", "equality is symmetric")):
        rep.rule(r, d)

    # ---- R1 ---------------------------------------------------------------------------------
    disp = [b for b in f.body_list if b.impl_trait == "std::fmt::Display" and (b.impl_self or "").endswith("compressor::CompressionType") and b.name == "fmt"]
    frm = [b for b in f.body_list if b.impl_trait == "std::str::FromStr" and (b.impl_self or "").endswith("compressor::CompressionType") and b.name == "from_str"]
    if rep.anchor(len(disp) == 1 and len(frm) == 1, "R1", "Display and FromStr for CompressionType"):
        dt = display_table(disp[0]) or {}
        ft = fromstr_table(frm[0])
        adt = f.adt("compressor::CompressionType")
        variants = [v["name"] for v in adt["variants"]]
        rep.floor("R1", "FromStr rows", len(ft), 4)
        for v in variants:
            lits = dt.get(v, [])
            if not rep.check(len(lits) == 1, "R1", "display|%s" % v, "Display prints one literal for %s" % v, "Display for %s prints %s" % (v, lits), disp[0].span):
                continue
            lit = lits[0]
            back = ft.get(lit)
            rep.check(back == v, "R1", "roundtrip|%s" % v, "\"%s\" parses back to %s" % (lit, v),
                      "CompressionType::%s prints as \"%s\" but FromStr %s" % (v, lit, "does not accept it" if back is None else "maps it to %s" % back), frm[0].span)

    # ---- R2 / R3 -------------------------------------------------------------------------------
    evp = f.one("version::Evr::<'a>::parse_values")
    # a Nevra is a name followed by an Evr whose release still carries the arch: the parser may delegate to Evr's
    nvp = f.splice(f.one("version::Nevra::<'a>::parse_values"), ["version::Evr::<'a>::parse_values"])
    es, ns = splits(evp), splits(nvp)
    rep.floor("R2", "split calls in Evr::parse_values", len(es), 2)
    rep.floor("R2", "split calls in Nevra::parse_values", len(ns), 4)
    evd = [b for b in f.body_list if b.impl_trait == "std::fmt::Display" and re.search(r"version::Evr<", b.impl_self or "") and b.name == "fmt"]
    nvd = [b for b in f.body_list if b.impl_trait == "std::fmt::Display" and re.search(r"version::Nevra<", b.impl_self or "") and b.name == "fmt"]
    if rep.anchor(len(evd) == 1 and len(nvd) == 1, "R2", "Display for Evr and Nevra"):
        et = sorted(template_for(f, evd[0]))
        nt = sorted(template_for(f, nvd[0]))
        rep.check(et == sorted(["{}:", "{}-{}"]), "R2", "evr|display-template", "Evr prints [epoch:]version-release", "Evr's Display templates are %s" % et, evd[0].span)
        rep.check(nt == ["{}-{}.{}"], "R2", "nevra|display-template", "Nevra prints name-evr.arch", "Nevra's Display templates are %s" % nt, nvd[0].span)
    rep.check([(s["method"], s["char"]) for s in es] == [("split_once", ":"), ("split_once", "-")], "R2", "evr|parse-separators",
              "Evr::parse_values splits at the first ':' then the first '-'", "Evr::parse_values splits with %s" % [(s["method"], s["char"]) for s in es], evp.span)
    rep.check(es and es[0]["recv"] == "evr" and ".1" in es[1]["recv"], "R2", "evr|parse-chain", "the version-release split works on what follows the epoch",
              "Evr::parse_values split receivers: %s" % [s["recv"][:60] for s in es], evp.span)
    chars = [s["char"] for s in ns]
    rep.check(sorted(chars) == sorted(["-", ":", "-", "."]), "R2", "nevra|parse-separators", "Nevra::parse_values uses the separators '-', ':', '-', '.'",
              "Nevra::parse_values splits on %s" % chars, nvp.span)
    # R3: arch from the right
    arch = [s for s in ns if s["char"] == "."]
    rep.check(len(arch) == 1 and arch[0]["method"].startswith("r"), "R3", "nevra|arch-from-right", "the arch boundary is the last '.'",
              "the arch boundary is searched with %s" % [s["method"] for s in arch], nvp.span)
    # R3: name boundary
    whole = [s for s in ns if s["recv"] == "nevra" and s["char"] == "-"]
    for s in whole:
        rep.check(s["method"].startswith("r"), "R3", "version::Nevra::parse_values|name-boundary-left-split",
                  "the name boundary is searched from the right",
                  "Nevra::parse_values isolates the name with %s('-') on the whole input: every name containing '-' (e.g. 389-ds-base-devel-1.3.8.4-15.el7.x86_64) is split at its first dash" % s["method"],
                  s["call"].loc())
    # R3: the epoch is searched in what follows the name
    ep = [s for s in ns if s["char"] == ":"]
    rep.check(len(ep) == 1 and ep[0]["recv"] != "nevra", "R3", "nevra|epoch-after-name", "the epoch separator is searched after the name",
              "':' is searched in %s" % [s["recv"][:60] for s in ep], nvp.span)

    # ---- R4 --------------------------------------------------------------------------------------
    nf = f.one("Evr::<'a>::as_normalized_form")
    tb = TermBuilder(nf)
    tpl = template_for(f, nf)
    rep.check(tpl == ["{}:{}-{}"], "R4", "evr|normalized-template", "normalised form is epoch:version-release", "normalised form template is %s" % tpl, nf.span)
    sw = None
    for sb in sorted(nf.reachable()):
        info = switch_info(nf, sb)
        if info and info["kind"] == "bool" and info["call"].decl.endswith("is_empty") and render(tb.term(info["call"].args[0])) == "self.epoch":
            sw = info
    if rep.check(sw is not None, "R4", "evr|is-empty-test", "the epoch is tested for emptiness", "as_normalized_form no longer tests the epoch for emptiness", nf.span):
        args = [c for c in nf.calls() if c.decl.endswith("Argument::<'_>::new_display")]
        first = render(tb.term(args[0].args[0])) if args else ""
        rep.check(first == 'phi(self.epoch | "0")', "R4", "evr|epoch-operand", "the first template operand is the epoch or \"0\"", "the first template operand is %s" % first[:120], nf.span)
        ok = False
        for l in range(len(nf.locals)):
            ds = [x for x in nf.defs(l) if x[2] == "assign" and not x[4]]
            zero = [x for x in ds if x[3]["rv"]["r"] == "use" and (const_str(x[3]["rv"]["o"]) == '"0"')]
            if zero:
                ok = all(nf.dominates(sw["true"], x[0]) for x in zero) and all(not nf.dominates(sw["true"], x[0]) for x in ds if x not in zero)
        rep.check(ok, "R4", "evr|zero-on-empty", "\"0\" is substituted exactly when the epoch is empty", "\"0\" is substituted on the wrong branch", nf.span)
    nn = f.one("Nevra::<'a>::as_normalized_form")
    tn = TermBuilder(nn)
    uses_evr = any(c.decl.endswith("Evr::<'a>::as_normalized_form") and render(tn.term(c.args[0])) == "self.evr" for c in nn.calls())
    rep.check(uses_evr and template_for(f, nn) == ["{}-{}.{}"], "R4", "nevra|normalized", "Nevra's normalised form embeds Evr's normalised form",
              "Nevra::as_normalized_form no longer embeds Evr::as_normalized_form(self.evr) in name-evr.arch", nn.span)

    # ---- R6 the constructors and accessors carry the components through unchanged -----------------------------
    def norm(t):
        for _ in range(3):
            t = re.sub(r"version::Evr::<'a>::new\(([^(){}]*)\)", r"version::Evr::Evr{\1}", t)
            t = re.sub(r"version::Nevra::<'a>::new\(([^(){},]*), ([^(){}]*), ([^(){},]*)\)", r"version::Nevra::Nevra{\1, version::Evr::Evr{\2}, \3}", t)
        return t
    RET = {"k": "copy", "l": 0, "p": []}
    shapes = [
        (r"version::Evr::<'a>::new$", "version::Evr::Evr{$1, $2, $3}"),
        (r"version::Evr<'a> as std::convert::From<\(&'a str, &'a str, &'a str\)>>::from$", "version::Evr::Evr{$1.0, $1.1, $1.2}"),
        (r"version::Evr::<'a>::parse$", "version::Evr::<'a>::parse_values($1)"),
        (r"version::Nevra::<'a>::new$", "version::Nevra::Nevra{$1, version::Evr::Evr{$2, $3, $4}, $5}"),
        (r"version::Nevra::<'a>::parse$", "version::Nevra::Nevra{PV.0, version::Evr::Evr{PV.1, PV.2, PV.3}, PV.4}"),
        (r"version::Evr::<'a>::values$", "tuple{version::Evr::<'a>::epoch($1), version::Evr::<'a>::version($1), version::Evr::<'a>::release($1)}"),
        (r"version::Evr::<'a>::epoch$", "$1.epoch"), (r"version::Evr::<'a>::version$", "$1.version"), (r"version::Evr::<'a>::release$", "$1.release"),
        (r"version::Nevra::<'a>::name$", "$1.name"), (r"version::Nevra::<'a>::arch$", "$1.arch"), (r"version::Nevra::<'a>::evr$", "$1.evr"),
    ]
    for rx, want in shapes:
        bs = [b for b in f.find(rx=rx) if b.kind != "closure"]
        if not rep.anchor(len(bs) == 1, "R6", "function /%s/" % rx):
            continue
        b = bs[0]
        got = render(TermBuilder(b).term(RET))
        for n in range(b.argc, 0, -1):
            nm = b.local_name(n) or ("_%d" % n)
            got = re.sub(r"(?<![\w:.$])%s(?![\w:])" % re.escape(nm), "$%d" % n, got)
        got = got.replace("version::Nevra::<'a>::parse_values($1)", "PV")
        got = norm(got)
        rep.check(got == want, "R6", "carry|%s" % fmt_key(b.path), "%s carries its components through unchanged" % fmt_key(b.path),
                  "%s computes %s (expected %s): a component is substituted, reordered or transformed" % (b.path, got[:240], want), b.span)
    # the splitters only split: every call they make cuts the text at a separator or picks a default - no filtering, parsing,
    # trimming or rewriting of a component (which would make parse reject or alter text that format produced)
    SPLIT_OK = r"(split_once|rsplit_once|split|rsplit|splitn|rsplitn|split_terminator|find|rfind|split_at|unwrap_or|unwrap_or_else|unwrap_or_default|map_or|map_or_else|Index::index|<impl str>::get|len|is_empty|Iterator::next|DoubleEndedIterator::next_back|Try::branch|FromResidual::from_residual|Into::into|From::from)(?:::<.*)?$"
    for rx in (r"version::Evr::<'a>::parse_values$", r"version::Nevra::<'a>::parse_values$"):
        for b in [f.splice(x, ["version::Evr::<'a>::parse_values"]) if "Nevra" in rx else x for x in f.find(rx=rx) if x.kind != "closure"]:
            extra = sorted({c.decl for x in [b] + f.closures_of(b) for c in x.calls() if not re.search(SPLIT_OK, c.decl)})
            rep.check(not extra, "R6", "splitter-calls|%s" % fmt_key(b.path), "%s only splits at separators" % fmt_key(b.path),
                      "%s also applies %s: a component is accepted conditionally or transformed, so some text that Display produces no longer parses back to the same value" % (b.path, extra[:4]), b.span)
    # the splitters return slices of their input; the only literal allowed is the empty string for a missing part
    def only_slices(t_):
        """every leaf is the input text, "" or a piece cut off by a splitter call (whatever test selects among them)"""
        if not isinstance(t_, tuple) or not t_:
            return False
        if t_[0] == "const":
            return t_[1] == '""' or re.fullmatch(r"'.'", str(t_[1])) is not None
        if t_[0] == "arg":
            return True
        if t_[0] == "proj":
            return only_slices(t_[1])
        if t_[0] == "call":
            return re.search(SPLIT_OK, t_[1]) is not None and all(only_slices(a_) for a_ in t_[2])
        if t_[0] == "phi":
            return all(only_slices(a_) for a_ in t_[1])
        if t_[0] == "agg":
            return t_[1] == "tuple" and all(only_slices(a_) for a_ in t_[2])
        return False
    for rx in (r"version::Evr::<'a>::parse_values$", r"version::Nevra::<'a>::parse_values$"):
        for b in [f.splice(x, ["version::Evr::<'a>::parse_values"]) if "Nevra" in rx else x for x in f.find(rx=rx) if x.kind != "closure"]:
            tt_ = TermBuilder(b).term(RET)
            t = render(tt_)
            lits = set(re.findall(r'"((?:[^"\\]|\\.)*)"', t))
            rep.check(lits <= {""} and ("phi(" not in t or only_slices(tt_)), "R6", "slices|%s" % fmt_key(b.path), "%s returns pieces of its input (a missing part is \"\")" % fmt_key(b.path),
                      "%s can return the literal(s) %s or a value chosen by a test: a component does not come from the text" % (b.path, sorted(lits - {""})), b.span)

    # ---- R7 equality treats both operands alike --------------------------------------------------------------------
    # parse(format(x)) == x is stated with `==`: the special cases of Evr's equality (a missing epoch equals "0") must hold
    # whichever side the parsed value is on.  Necessary condition checked: the set of comparisons eq() makes is closed under
    # exchanging self and other.
    eqs = [b for b in f.body_list if b.impl_trait == "std::cmp::PartialEq" and (b.impl_self or "").startswith("version::Evr<") and b.name == "eq" and not b.derived]
    if rep.anchor(len(eqs) == 1, "R7", "impl PartialEq for Evr"):
        eb = eqs[0]
        teb = TermBuilder(eb)
        p1, p2 = eb.local_name(1) or "_1", eb.local_name(2) or "_2"

        def side(op):
            r = render(teb.term(op))
            for lf in eb.origins(op, passthrough={}):
                if lf["kind"] == "const" and lf["k"].get("alloc_chain") is not None:
                    try:
                        return "lit:" + bytes.fromhex(lf["k"]["alloc_chain"][-1]).decode()
                    except Exception:
                        return "lit:?"
            r = re.sub(r"^%s(?=\.|$)" % re.escape(p1), "A", r)
            r = re.sub(r"^%s(?=\.|$)" % re.escape(p2), "B", r)
            return r
        comps = set()
        for c in eb.calls():
            if c.decl in ("std::cmp::PartialEq::eq", "std::cmp::PartialEq::ne") and len(c.args) == 2:
                comps.add(frozenset((side(c.args[0]), side(c.args[1]))))
            elif re.search(r"::(is_empty|len)$", c.decl) and c.args:
                comps.add(frozenset((side(c.args[0]), c.decl.rsplit("::", 1)[-1] + "()")))

        def swap(x):
            return re.sub(r"^(A|B)(?=\.|$)", lambda m: "B" if m.group(1) == "A" else "A", x)
        swapped = {frozenset(swap(x) for x in cset) for cset in comps}
        rep.check(bool(comps) and comps == swapped, "R7", "evr|eq-symmetric", "Evr::eq makes the same comparisons for (a, b) and (b, a)",
                  "Evr::eq is not symmetric: it tests %s for one operand order only" % sorted(sorted(x) for x in (comps ^ swapped))[:4], eb.span)

    # ---- R5 ------------------------------------------------------------------------------------------
    roots = []
    for rx in (r"version::Nevra::<'a>::(parse|parse_values|new)$", r"version::Evr::<'a>::(parse|parse_values|new)$", r"version::rpm_evr_compare$",
               r"compressor::CompressionType as std::str::FromStr>::from_str$", r"version::Evr<'a> as std::convert::From<"):
        bs = [b for b in f.find(rx=rx) if b.kind != "closure"]
        rep.anchor(len(bs) >= 1, "R5", "parsing entry /%s/" % rx)
        roots += bs
    cone = f.cone(roots, stop=lambda b: b.path.endswith("compare_version_string"))
    aud = Auditor(f, rep, "C15", "R5", {})
    for b in cone.values():
        if not b.derived:
            aud.audit_body(b)
    aud.finish()
    rep.count("parse_cone_bodies", len(cone))
