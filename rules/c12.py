"""C12 - extraction recreates the files and never touches anything outside the target.

  R1  every filesystem-modifying call on the extract cone is enumerated with the provenance of its path
  R2  containment: a path built from package data reaches such a call only through the containment
      function; that function maps `..`/prefix components to an error and refuses symbolic links
      among parent directories; nothing but Normal components is ever pushed onto the target
  R3  no following of earlier entries: follow-capable calls on the final path (File::create,
      set_permissions, create_dir_all) are dominated by the removal of a symbolic link at that path
  R4  no panic: site audit of the extract cone
  R5  positive arm table: dir / regular / symlink entries are recreated with content, permissions, target
Not decided: races with concurrent processes; correctness of std::fs.
"""
import re
from engine import op_place, AnchorLost
from terms import TermBuilder, render, strip_proj
from common import switch_info, arms_of, err_assign_blocks, ok_assign_blocks, reach_from, fmt_key
from audit import Auditor
from pathsens import PathExplorer

FS_SINKS = {
    # callee regex -> indexes of the path arguments that are created / modified / removed
    r"^std::fs::create_dir$": [0], r"^std::fs::create_dir_all$": [0], r"^std::fs::File::create$": [0], r"^std::fs::File::create_new$": [0],
    r"^std::fs::write$": [0], r"^std::fs::set_permissions$": [0], r"^std::fs::remove_file$": [0], r"^std::fs::remove_dir$": [0],
    r"^std::fs::remove_dir_all$": [0], r"^std::fs::rename$": [0, 1], r"^std::fs::copy$": [1], r"^std::fs::hard_link$": [1],
    r"^std::fs::OpenOptions::open$": [1], r"^std::os::unix::fs::symlink$": [1], r"^std::fs::soft_link$": [1],
    r"^std::os::unix::fs::chown$": [0], r"^std::os::unix::fs::lchown$": [0], r"^std::fs::DirBuilder::create$": [1],
}
FOLLOWING = (r"^std::fs::File::create$", r"^std::fs::set_permissions$", r"^std::fs::create_dir_all$", r"^std::fs::write$", r"^std::fs::OpenOptions::open$")
SANITISER = "extraction_path"


def flag_sources(body, local, depth=0):
    """What a bool local assigned on several paths is made of: {'const'} and/or the callees whose results it copies; None when a
    definition is anything else.  (`match q() { Ok(m) => m.is_symlink(), Err(_) => false }` lowers to such a local.)"""
    if depth > 4:
        return None
    out = set()
    ds = [d for d in body.defs(local) if not d[4]]
    if not ds:
        return None
    for d in ds:
        if d[2] == "call":
            out.add(body.call_at(d[0]).decl)
            continue
        if d[2] != "assign":
            return None
        rv = d[3]["rv"]
        if rv["r"] == "use" and (rv["o"].get("k") or {}).get("ty") == "bool":
            out.add("const")
        elif rv["r"] == "use" and op_place(rv["o"]) is not None and not op_place(rv["o"])["p"]:
            sub = flag_sources(body, op_place(rv["o"])["l"], depth + 1)
            if sub is None:
                return None
            out |= sub
        else:
            return None
    return out


def sinks_of(body):
    out = []
    for c in body.calls():
        for rx, idxs in FS_SINKS.items():
            if re.search(rx, c.decl):
                out.append((c, idxs))
    return out


def path_root(term_str):
    """Classify a rendered path term."""
    if term_str == "dest":
        return "dest"
    if term_str.startswith("rpm::package::%s(dest, " % SANITISER) and term_str.endswith(")<Ok>.0"):
        return "sanitised"
    return "other"


def run(f, fixture, rep, cfg, tier):
    rep.explanation = (
        "Taint-to-sink audit of Package::extract: every filesystem-modifying call on its cone is enumerated and the provenance "
        "term of its path argument must be the caller's target itself or the Ok payload of the containment function applied "
        "to (target, package path). The containment function's own component arm table, its who-may-write set on the "
        "accumulated path and its symbolic-link refusal are checked, follow-capable calls on the final path must be "
        "dominated by the symlink removal, and the per-file-type arm table is compared with the oracle.")
    rep.trusted = ["rustc nightly MIR", "std::fs / std::path semantics (Path::components never yields `..` as Normal)", "no concurrent modification of the target"]
    for r, d in (("R1", "sinks enumerated"), ("R2", "containment"), ("R3", "no symlink following on the final path"), ("R4", "no panic"), ("R5", "arm table")):
        rep.rule(r, d)
    ex = f.one("package::Package::extract")
    cone = f.cone([ex], stop=lambda b: b.path.endswith("Package::files") or "FileIterator" in b.path or "PackageMetadata" in b.path or "Header::<T>" in b.path)
    rep.count("extract_cone_bodies", len(cone))
    tb = TermBuilder(ex)

    # ---- R1/R2 sinks in extract itself ----------------------------------------------------
    sinks = sinks_of(ex)
    rep.floor("R1", "filesystem sinks in extract", len(sinks), 7)
    for (c, idxs) in sinks:
        for i in idxs:
            t = render(tb.term(c.args[i]))
            kind = path_root(t)
            ordinal = sum(1 for (c2, _i) in sinks if c2.decl == c.decl and c2.bb < c.bb)
            rep.check(kind in ("dest", "sanitised"), "R2", "extract|%s|#%d" % (c.decl, ordinal),
                      "%s acts on %s" % (c.decl, "the target directory" if kind == "dest" else "a contained path"),
                      "%s is applied to %s, a path that did not pass the containment function" % (c.decl, t[:200]), c.loc())
    # helper functions with sinks on a parameter: all their call sites must pass a contained path
    for b in cone.values():
        if b is ex or b.kind == "closure":
            continue
        hs = sinks_of(b)
        if not hs:
            continue
        hb = TermBuilder(b)
        for (c, idxs) in hs:
            for i in idxs:
                t = render(hb.term(c.args[i]))
                params = [b.local_name(n) for n in range(1, b.argc + 1)]
                if not rep.check(t in params, "R2", "%s|%s|param" % (fmt_key(b.path), c.decl), "%s in %s acts on its parameter %s" % (c.decl, fmt_key(b.path), t),
                                 "%s in helper %s acts on %s" % (c.decl, b.path, t[:160]), c.loc()):
                    continue
                pi = params.index(t)
                sites = [x for x in ex.calls() if x.decl == b.path or (x.rpath == b.path)]
                rep.check(len(sites) >= 1, "R2", "%s|callers" % fmt_key(b.path), "%s is called from extract" % fmt_key(b.path), "helper %s has no call site in extract" % b.path, b.span)
                for x in sites:
                    tt = render(tb.term(x.args[pi]))
                    rep.check(path_root(tt) == "sanitised", "R2", "%s|caller-arg" % fmt_key(b.path), "%s receives a contained path" % fmt_key(b.path),
                              "%s is called with %s" % (b.path, tt[:160]), x.loc())

    # ---- R2 the containment function itself ---------------------------------------------------
    sp = [b for b in f.body_list if b.path.endswith("package::" + SANITISER)]
    if rep.anchor(len(sp) == 1, "R2", "containment function package::%s" % SANITISER):
        check_sanitiser(sp[0], rep)
    # the sanitiser's error is propagated
    for c in ex.calls():
        if c.decl.endswith("package::" + SANITISER):
            via_q = any(isinstance(u[2], tuple) and ex.call_at(u[0]).decl == "std::ops::Try::branch" for u in ex.uses(c.dest["l"]))
            rep.check(via_q, "R2", "sanitiser|propagated", "a containment failure aborts extraction (`?`)", "the containment function's error is not propagated", c.loc())
            t0 = render(tb.term(c.args[0]))
            rep.check(t0 == "dest", "R2", "sanitiser|base", "paths are contained relative to the target", "containment is computed relative to %s, not the target" % t0, c.loc())

    # ---- R3 ---------------------------------------------------------------------------------------
    files_calls = [c for c in ex.calls() if c.decl.endswith("Package::files")]
    first_create = [c for (c, _i) in sinks if c.decl == "std::fs::create_dir" and render(tb.term(c.args[0])) == "dest"]
    rep.check(len(first_create) == 1 and all(ex.dominates(first_create[0].bb, c.bb) for (c, _i) in sinks if c is not first_create[0]), "R3", "fresh-target",
              "the target is created exclusively (create_dir) before anything else happens", "the target directory is not created with create_dir before the other filesystem calls", ex.span)
    for (c, idxs) in sinks:
        if not any(re.search(rx, c.decl) for rx in FOLLOWING):
            continue
        t = render(tb.term(c.args[idxs[0]]))
        if path_root(t) != "sanitised":
            continue
        # "before any payload entry": the call can reach the payload iteration but not vice versa
        before_payload = bool(files_calls) and all(ex.can_reach(c.bb, fc.bb) and not ex.can_reach(fc.bb, c.bb) for fc in files_calls)
        if before_payload:
            rep.ok("R3", "%s happens before any payload entry is extracted (fresh target: nothing to follow)" % c.decl, c.loc())
            continue
        guards = [g for g in ex.calls() if (g.decl.endswith("package::remove_symlink") or g.decl == "std::fs::remove_file") and render(tb.term(g.args[0])) == t and ex.dominates(g.bb, c.bb)]
        # a remove_file guard inside an `if exists` does not dominate; only unconditional ones count
        after_own_create = [g for (g, _i2) in sinks if g.decl in ("std::fs::File::create", "std::fs::create_dir_all") and g is not c and render(tb.term(g.args[0])) == t and ex.dominates(g.bb, c.bb)]
        ordinal = sum(1 for (c2, _i) in sinks if c2.decl == c.decl and c2.bb < c.bb)
        rep.check(bool(guards), "R3", "follow|%s|#%d" % (c.decl, ordinal), "%s on the final path is preceded by removal of a symbolic link there" % c.decl,
                  "%s follows a symbolic link an earlier entry may have planted at %s: no dominating symlink removal" % (c.decl, t[:120]), c.loc())

    # the removal helper itself: its decision must not follow the link it is there to remove.  exists()/metadata()/
    # is_dir()/is_file() follow links, so a dangling link (target not created yet) looks absent and stays in place.
    FOLLOW_QUERIES = r"^std::path::Path::(exists|try_exists|metadata|is_file|is_dir|canonicalize)$|^std::fs::(metadata|canonicalize|exists)$"
    NOFOLLOW_QUERIES = r"^std::path::Path::(symlink_metadata|is_symlink)$|^std::fs::symlink_metadata$"
    helpers = [b for b in cone.values() if b.path.endswith("package::remove_symlink")]
    if rep.anchor(len(helpers) == 1, "R3", "symlink removal helper package::remove_symlink"):
        hb = helpers[0]
        q_follow = [c for c in hb.calls() if re.search(FOLLOW_QUERIES, c.decl)]
        q_nofollow = [c for c in hb.calls() if re.search(NOFOLLOW_QUERIES, c.decl)]
        rm = [c for c in hb.calls() if c.decl == "std::fs::remove_file"]
        rep.check(not q_follow, "R3", "remove-helper|no-following-query", "the removal helper inspects the path without following links",
                  "the removal helper consults %s, which follows symbolic links: a dangling link looks absent and is left in place for the next create to follow"
                  % ", ".join(sorted({c.decl for c in q_follow})), q_follow[0].loc() if q_follow else hb.span)
        rep.check(bool(q_nofollow) and bool(rm) and all(any(hb.dominates(q.bb, r.bb) for q in q_nofollow) for r in rm), "R3", "remove-helper|shape",
                  "the helper decides with symlink_metadata/is_symlink and removes with remove_file", "the removal helper lacks a non-following query before remove_file", hb.span)
        # nothing but the non-following query's verdict may gate the removal
        for sb in sorted(hb.reachable()):
            info = switch_info(hb, sb)
            if not info or not any(hb.can_reach(sb, r.bb) and sb != r.bb for r in rm) or any(hb.dominates(r.bb, sb) for r in rm):
                continue
            srcs = set()
            if info["kind"] == "bool":
                gc = info["call"]
                if re.search(r"^std::(result::Result|option::Option)::<.*>::(unwrap_or|unwrap_or_default|is_ok_and|is_some_and|map_or|unwrap_or_else)$", gc.decl):
                    # a combinator chain over the query's result: what counts is the query underneath
                    from common import call_leaves
                    COMB = r"^std::(result::Result|option::Option)::<.*>::(map|ok|and_then|as_ref|map_err|filter)$"
                    inner, work_, seen_ = set(), list(gc.args[:1]), 0
                    while work_ and seen_ < 12:
                        seen_ += 1
                        for c_ in call_leaves(hb, work_.pop()):
                            if re.search(COMB, c_.decl) and c_.args:
                                work_.append(c_.args[0])
                            else:
                                inner.add(c_.decl)
                    srcs |= inner or {gc.decl}
                else:
                    srcs.add(gc.decl)
            elif info["kind"] == "discr":
                for lf in hb.origins({"l": info["place"]["l"], "p": []}):
                    srcs.add(lf["call"].decl if lf["kind"] == "call" else lf["kind"])
            else:
                # `matches!(..)` lowers to a bool local set to constants in the arms of the real tests: not a test of its own
                dpl = op_place(hb.term(sb)["d"])
                const_flag = False
                if dpl is not None and not dpl["p"] and hb.local_ty(dpl["l"]) == "bool":
                    dsb = [d for d in hb.defs(dpl["l"]) if not d[4]]
                    for _i in range(4):     # through plain copies of the flag
                        if len(dsb) == 1 and dsb[0][2] == "assign" and dsb[0][3]["rv"]["r"] == "use" and op_place(dsb[0][3]["rv"]["o"]) is not None and not op_place(dsb[0][3]["rv"]["o"])["p"]:
                            dsb = [d for d in hb.defs(op_place(dsb[0][3]["rv"]["o"])["l"]) if not d[4]]
                        else:
                            break
                    const_flag = bool(dsb) and all(d[2] == "assign" and d[3]["rv"]["r"] == "use" and (d[3]["rv"]["o"].get("k") or {}).get("ty") == "bool" for d in dsb)
                    if not const_flag:
                        fs_ = flag_sources(hb, dpl["l"])
                        if fs_ is not None:
                            # a flag that is a query's verdict on some paths and a constant on the others: the query is the gate
                            const_flag = True
                            srcs |= fs_ - {"const"}
                if not const_flag:
                    srcs.add(info["kind"])
            bad = {x for x in srcs if not (re.search(NOFOLLOW_QUERIES, x) or x in ("std::fs::Metadata::file_type", "std::fs::FileType::is_symlink"))}
            rep.check(not bad, "R3", "remove-helper|gate|%s" % ",".join(sorted(bad)) if bad else "remove-helper|gate", "the removal is gated only by the non-following query",
                      "the removal is also gated by %s" % sorted(bad), hb.span)

    # ---- R4 ----------------------------------------------------------------------------------------
    # extract() drives the payload reader and the header accessors on the package's (hostile) bytes: the audit covers the whole
    # call-graph cone, with the reviewed reasons C04 keeps for the read-side sites
    from c04 import ALLOW as READ_ALLOW
    full_cone = f.cone([ex])
    rep.count("extract_full_cone_bodies", len(full_cone))
    aud = Auditor(f, rep, "C12", "R4", dict(READ_ALLOW))
    for b in full_cone.values():
        if not b.derived:
            aud.audit_body(b)
    aud.finish()

    # ---- R5 arm table ---------------------------------------------------------------------------------
    sw = None
    for sb in sorted(ex.reachable()):
        info = switch_info(ex, sb)
        if info and info["kind"] == "discr" and (info.get("enum") or "").endswith("FileMode"):
            sw = info
    if rep.anchor(sw is not None, "R5", "match on the entry's FileMode in extract"):
        arms = arms_of(ex, sw)
        want = {
            "Dir": (["std::fs::create_dir_all", "std::fs::set_permissions"], []),
            "Regular": (["std::fs::File::create", "std::io::Write::write_all", "std::fs::set_permissions"], []),
            "SymbolicLink": (["std::os::unix::fs::symlink"], []),
        }
        join = None
        for name, (need, _x) in want.items():
            tgt = arms.get(name)
            if tgt is None:
                rep.finding("R5", "arm|%s|missing" % name, "no arm for FileMode::%s" % name, ex.span)
                continue
            others = [t for n, t in arms.items() if n != name]
            region = reach_from(ex, tgt, blocked_blocks=set(others))
            # stop at the loop back edge: restrict to blocks dominated by the arm's target
            region = {b for b in region if ex.dominates(tgt, b)}
            calls = [c for c in ex.calls() if c.bb in region]
            names = [c.decl for c in calls]
            ok = all(n in names for n in need)
            rep.check(ok, "R5", "arm|%s" % name, "FileMode::%s entries: %s" % (name, ", ".join(need)),
                      "the FileMode::%s arm performs %s (expected %s)" % (name, [n for n in names if n.startswith("std::fs") or "symlink" in n or "write" in n], need), ex.span)
            # must-pass-through: the arm cannot complete (reach the next entry) around any of these calls
            heads = [fc2.bb for fc2 in ex.calls() if fc2.decl == "std::iter::Iterator::next" and fc2.bb not in region and ex.dominates(fc2.bb, tgt)]
            for n in need:
                if n == "std::fs::create_dir_all":
                    continue    # creating may be skipped for a directory that is already there; its mode may not
                blk = {c.bb for c in calls if c.decl == n}
                if not blk or not heads:
                    continue
                pe = PathExplorer(ex)
                pe.run(start=tgt, blocked=frozenset(blk | set(others)))
                around = pe.visited_bbs
                rep.check(not any(h in around for h in heads), "R5", "arm|%s|always|%s" % (name, n), "every completed FileMode::%s entry passed %s" % (name, n),
                          "a FileMode::%s entry can complete without %s (a path through the arm bypasses it)" % (name, n), ex.span)
            for c in calls:
                if c.decl == "std::fs::set_permissions":
                    t = render(tb.term(c.args[1]))
                    rep.check("PermissionsExt::from_mode(" in t and "FileMode::permissions(" in t and ".metadata.mode" in t, "R5", "arm|%s|perms" % name,
                              "permissions come from the entry's mode", "set_permissions is given %s" % t[:160], c.loc())
                if c.decl == "std::io::Write::write_all":
                    t = render(tb.term(c.args[1]))
                    rep.check(t.endswith(".content"), "R5", "arm|%s|content" % name, "the archived content is written", "write_all is given %s" % t[:160], c.loc())
                if c.decl == "std::os::unix::fs::symlink":
                    t = render(tb.term(c.args[0]))
                    rep.check(t.endswith(".metadata.linkto"), "R5", "arm|%s|target" % name, "the link target is the recorded one", "symlink target is %s" % t[:160], c.loc())
        inv = arms.get("Invalid")
        if inv is not None:
            pe = PathExplorer(ex)
            fin = pe.run(start=inv, blocked=frozenset(t for n, t in arms.items() if n != "Invalid"))
            r = pe.visited_bbs
            heads_all = [fc2.bb for fc2 in ex.calls() if fc2.decl == "std::iter::Iterator::next" and ex.dominates(fc2.bb, inv)]
            errs_only = bool(fin) and all(n[4] == "err" for n in fin) and not any(h in r for h in heads_all)
            rep.check(not any(c.bb in r and ex.dominates(inv, c.bb) for (c, _i) in sinks) and errs_only, "R5", "arm|Invalid",
                      "other file types are an error and touch nothing", "the Invalid arm performs filesystem calls or does not return an error", ex.span)


    # ---- R6 the bytes written for a file are the archived bytes: rests on the payload reader's accounting (C07.R4) ----------
    rep.rule("R6", "the payload reader hands extract() each file's exact bytes (C07.R4)")
    rep.include("c07", f, fixture, cfg, tier, "R6", "payload reader accounting and read limit; stripped (large-file) entry header shared by writer and reader", only_rules={"R4", "R3"}, floor=5)

    # ---- R7 mode and link target used by extract() are the header's: rests on the file-entry accessor (C05.R6) ----------------
    rep.rule("R7", "extract() is given each file's stored mode and link target (C05.R6)")
    rep.include("c05", f, fixture, cfg, tier, "R7", "file entries: path join, per-file columns, lossless conversions", only_rules={"R6"}, floor=8)


def check_sanitiser(b, rep):
    tb = TermBuilder(b)
    # accumulated target: the PathBuf that is returned
    ret = render(tb.term({"l": 0, "p": [{"d": "Ok"}, {"f": 0, "n": "0"}]}))
    rep.check(ret.startswith("buf[") or "std::path::Path::to_path_buf(dest)" in ret or ret.startswith("std::path::Path::to_path_buf("), "R2", "sanitiser|returns-target",
              "the contained path starts from the target directory", "the containment function returns %s" % ret[:160], b.span)
    tgt_locals = [l for l in range(len(b.locals)) if b.local_ty(l) == "std::path::PathBuf"]
    writers = set()
    pushes = []
    for l in tgt_locals:
        for (w, i) in b.mut_borrow_calls(l):
            writers.add(w.decl)
            if w.decl.endswith("PathBuf::push"):
                pushes.append(w)
    rep.check(writers <= {"std::path::PathBuf::push"} and len(pushes) >= 1, "R2", "sanitiser|writers", "the accumulated path is only extended by push()",
              "the accumulated path is modified by %s" % sorted(writers), b.span)
    base = [c for c in b.calls() if c.decl == "std::path::Path::to_path_buf"]
    rep.check(len(base) == 1 and render(tb.term(base[0].args[0])) == (b.local_name(1) or "dest"), "R2", "sanitiser|base-arg", "the path starts as a copy of the first argument",
              "the base path is %s" % [render(tb.term(x.args[0])) for x in base], b.span)
    comps = [c for c in b.calls() if c.decl == "std::path::Path::components"]
    rep.check(len(comps) == 1 and render(tb.term(comps[0].args[0])) == (b.local_name(2) or "path"), "R2", "sanitiser|components", "the package path is decomposed with Path::components",
              "components() is applied to %s" % [render(tb.term(x.args[0])) for x in comps], b.span)
    sw = None
    for sb in sorted(b.reachable()):
        info = switch_info(b, sb)
        if info and info["kind"] == "discr" and (info.get("enum") or "").endswith("path::Component"):
            sw = info
    if not rep.anchor(sw is not None, "R2", "match on path::Component in the containment function"):
        return
    arms = arms_of(b, sw)
    oks = set(ok_assign_blocks(b))
    errs = {bb for (bb, _v) in err_assign_blocks(b)}
    for name in ("ParentDir", "Prefix"):
        t = arms.get(name)
        r = reach_from(b, t) if t is not None else set()
        # the arm must return an error without pushing and without going round the loop
        bad_push = any(p.bb in r and b.dominates(t, p.bb) for p in pushes)
        loops_back = any(b.dominates(t, x) and sw["bb"] in b.succ(x) for x in r) if t is not None else True
        only_err = t is not None and not (r & oks) and bool(r & errs)
        rep.check(only_err and not bad_push, "R2", "sanitiser|arm|%s" % name, "a %s component is an error" % name,
                  "a `%s` component does not lead straight to an error return" % name, b.span)
    tn = arms.get("Normal")
    for p in pushes:
        rep.check(tn is not None and b.dominates(tn, p.bb), "R2", "sanitiser|push-only-normal", "only Normal components are pushed",
                  "push() happens outside the Normal arm", p.loc())
        t = render(tb.term(p.args[1]))
        rep.check("<Normal>.0" in t, "R2", "sanitiser|push-arg", "the pushed value is the Normal component's name", "push() is given %s" % t[:120], p.loc())
    # symbolic-link refusal inside the Normal arm
    sm = [c for c in b.calls() if c.decl == "std::path::Path::symlink_metadata" and tn is not None and b.dominates(tn, c.bb)]
    ok = False
    if sm:
        region = {x for x in reach_from(b, tn) if b.dominates(tn, x)}
        ok = bool(region & errs) and any(c.decl.endswith("is_symlink") for cb in [b] + b.facts.closures_of(b) for c in cb.calls())
    rep.check(ok, "R2", "sanitiser|symlink-refusal", "a symbolic link among the parent directories is an error",
              "the containment function does not refuse symbolic links among parent directories", b.span)
    # the refusal may only depend on "is a symlink" and "is not the last component"
    if ok:
        region = {x for x in reach_from(b, tn) if b.dominates(tn, x)}
        for e in sorted(region & errs):
            for d in sorted(region):
                if d == e or not b.dominates(d, e) or b.term(d)["t"] != "switch":
                    continue
                info = switch_info(b, d)
                desc = None
                if info["kind"] == "bool":
                    c = info["call"]
                    t = render(tb.term(c.args[0])) if c.args else ""
                    if c.decl.endswith("Result::<T, E>::unwrap_or") and "std::path::Path::symlink_metadata(" in t:
                        desc = "symlink"
                    elif c.decl.endswith("Option::<T>::is_some") and "Peekable::<I>::peek(" in t:
                        desc = "not-last"
                    elif c.decl.endswith("is_symlink"):
                        desc = "symlink"
                    else:
                        desc = "extra:" + c.decl
                elif info["kind"] == "discr":
                    t = render(tb.term(info["place"]))
                    desc = "symlink" if "symlink_metadata(" in t else ("not-last" if "peek(" in t else "extra:match on " + t[:60])
                else:
                    desc = "extra:condition at line %s" % b.term(d).get("line")
                    dpl_ = op_place(b.term(d)["d"])
                    if dpl_ is not None and not dpl_["p"] and b.local_ty(dpl_["l"]) == "bool":
                        fs_ = flag_sources(b, dpl_["l"])
                        if fs_ is not None and fs_ - {"const"} and all(x.endswith("is_symlink") for x in fs_ - {"const"}):
                            desc = "symlink"
                        elif fs_ == {"const"}:
                            desc = "flag"       # set in the arms of the real tests, which are examined on their own
                rep.check(not desc.startswith("extra:"), "R2", "sanitiser|symlink-refusal|condition|%s" % desc.split(":")[0],
                          "the refusal depends on %s" % desc, "the symbolic-link refusal is additionally conditional on %s: some links among parent directories are let through" % desc[6:], b.span)
    for name in ("RootDir", "CurDir"):
        t = arms.get(name)
        r = {x for x in reach_from(b, t) if b.dominates(t, x)} if t is not None else set()
        rep.check(t is not None and not any(p.bb in r for p in pushes), "R2", "sanitiser|arm|%s" % name, "%s adds nothing" % name, "%s pushes onto the path" % name, b.span)
