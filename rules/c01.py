"""C01 - parse then write reproduces the package byte for byte (structural clauses).

  R1  wire agreement: reader consumption sequence == writer emission sequence == format oracle, slot by slot
  R2  verbatim-or-validated: every slot the reader consumes is stored in the field the writer emits for that
      slot, or is replaced by a constant that a guard over *all* its bytes validated, or is in the
      permitted-difference set {intro reserved bytes, signature padding}
  R3  the write cone reads only raw index fields (tag, type code, offset, count) and the store
  R4  type-code table: from_type_as_u32 and type_as_u32 compose to the identity on 0..=9, None elsewhere
  R5  the store kept by parse_header is the untouched remainder after the index entries
  R6  one padding function for reader, writer and offsets; pad(r) = (8 - r) % 8 on all residues
Not decided: behaviour of read_exact/Vec; inputs where size arithmetic overflows (C04).
"""
import re
from engine import op_place, const_int
from terms import TermBuilder, render
from seqs import consumption, emission, consumption_is_chained
from common import switch_info, arms_of, err_assign_blocks, ok_assign_blocks, reach_from, fmt_key
from absint import Interp, BV, Enum, Ref, Opaque, LeaveDomain

ORACLE = {
    # struct: list of (width, name) per slot of the wire format (rpm file format documentation)
    "IndexHeader": [(3, "magic"), (1, "version"), (4, "reserved"), (4, "num_entries"), (4, "data_section_size")],
    "IndexEntry": [(4, "tag"), (4, "type"), (4, "offset"), (4, "num_items")],
    "Lead": [(4, "magic"), (1, "major"), (1, "minor"), (2, "package_type"), (2, "arch"), (66, "name"), (2, "os"), (2, "signature_type"), (16, "reserved")],
}
PERMITTED_UNREPLAYED = {("IndexHeader", 2)}   # the 4 reserved bytes of a header intro


def agg_fields(b, suffix, tb=None):
    tb = tb or TermBuilder(b)
    out = None
    for bb in sorted(b.reachable()):
        for st in b.stmts(bb):
            if st["k"] == "assign" and st["rv"]["r"] == "agg" and st["rv"].get("adt", "").endswith(suffix) and st["rv"].get("ak") == "adt":
                out = ({n: render(tb.term(o)) for n, o in zip(st["rv"]["fields"], st["rv"]["ops"])},
                       {n: o for n, o in zip(st["rv"]["fields"], st["rv"]["ops"])}, st)
    return out


def slot_value_term(body, tb, c, decoder):
    """Term of the value a decoder produced (`.1` of the Ok payload)."""
    return render(tb.term(c.dest)) + "<Ok>.0.1"


def field_of_emission(term):
    m = re.match(r"^(?:core::num::<impl [ui]\d+>::to_be_bytes\()?self\.(\w+)\)?$", term)
    if m:
        return m.group(1)
    m = re.match(r"^core::num::<impl u32>::to_be_bytes\(rpm::headers::header::IndexData::type_as_u32\(self\.data\)\)$", term)
    if m:
        return "data"
    return None


def validated_all_bytes(body, tb, slot_term, width, const_term, rep_note):
    """Is there a guard comparing every byte of the slot with the constant, mismatch -> Err?"""
    errs = {bb for (bb, _v) in err_assign_blocks(body)}
    # (a) scalar: cmp Ne/Eq(slot, const)
    for sb in sorted(body.reachable()):
        info = switch_info(body, sb)
        if not info or info["kind"] != "cmp":
            continue
        rv = info["stmt"]["rv"]
        if rv["op"] not in ("Ne", "Eq"):
            continue
        a, b_ = render(tb.term(rv["a"])), render(tb.term(rv["b"]))
        mism = info["true"] if rv["op"] == "Ne" else info["false"]
        if not (reach_from(body, mism) & errs):
            continue
        if width == 1 and ((a == slot_term and b_ == const_term) or (b_ == slot_term and a == const_term)):
            return True, "compared with %s" % const_term
        # (b) byte loop: slot[i] vs CONST[i] for i in 0..width
        if "[" in a or "[" in b_ or True:
            pa, pb = op_place(rv["a"]), op_place(rv["b"])
            terms = []
            idxs = []
            for p in (pa, pb):
                if p is None:
                    continue
                # operand is a copy of base[index]
                for lf in body.origins(p, passthrough={}):
                    pass
            # use the raw defining statement: `_x = base[_i]`
            sides = []
            for o in (rv["a"], rv["b"]):
                p = op_place(o)
                if p is None or p["p"]:
                    continue
                ds = body.defs(p["l"])
                if len(ds) == 1 and ds[0][2] == "assign" and ds[0][3]["rv"]["r"] == "use":
                    src = op_place(ds[0][3]["rv"]["o"])
                    if src is not None and src["p"] and isinstance(src["p"][-1], dict) and "i" in src["p"][-1]:
                        base = {"l": src["l"], "p": src["p"][:-1]}
                        sides.append((render(tb.term(base)), src["p"][-1]["i"]))
            if len(sides) == 2:
                bases = {s[0] for s in sides}
                idx_locals = {s[1] for s in sides}
                if any(slot_term.startswith(x) or x == slot_term for x in bases) and const_term in bases:
                    # index range
                    from audit import Intervals
                    iv = Intervals(body)
                    for il in idx_locals:
                        v = iv.of_place({"l": il, "p": []}, sb, set())
                        if v is not None and v.lo == 0 and v.hi == width - 1:
                            return True, "byte loop over 0..%d" % width
                    return False, "byte loop does not cover all %d bytes of the slot" % width
    return False, "no validating comparison found"


def check_struct(f, rep, name, parse_b, write_b, adt_suffix):
    oracle = ORACLE[name]
    tbp, tbw = TermBuilder(parse_b), TermBuilder(write_b)
    cons = consumption(parse_b)
    emis = emission(write_b, f)
    cw = [w for (w, _d, _c) in cons]
    ew = [w for (w, _t, _c) in emis]
    ow = [w for (w, _n) in oracle]
    tail = []
    if name == "Lead":
        # the last 16 bytes are the remainder of the fixed-size input, converted to [u8; 16]
        tail = [16]
    rep.check(cw + tail == ow, "R1", "%s|reader-sequence" % name, "%s::parse consumes %s" % (name, ow), "%s::parse consumes %s, format says %s" % (name, cw + tail, ow), parse_b.span)
    rep.check(ew == ow, "R1", "%s|writer-sequence" % name, "%s::write emits %s" % (name, ow), "%s::write emits %s, format says %s" % (name, ew, ow), write_b.span)
    ok, why = consumption_is_chained(parse_b, cons)
    rep.check(ok, "R1", "%s|reader-chained" % name, "each decoder continues where the previous stopped", "%s::parse: %s" % (name, why), parse_b.span)
    ag = agg_fields(parse_b, adt_suffix, tbp)
    if not rep.anchor(ag is not None, "R2", "%s aggregate in %s" % (adt_suffix, parse_b.path)):
        return
    fterms, fops, _st = ag
    for i, (w, oname) in enumerate(oracle):
        if i >= len(emis):
            break
        efield = field_of_emission(emis[i][1])
        if i < len(cons):
            slot = render(tbp.term(cons[i][2].dest)) + "<Ok>.0.1"
        else:
            slot = None
        if efield is None:
            # writer emits a constant (reserved bytes)
            k = emis[i][2].args[1]
            zero = emis[i][1].startswith("('repeat', ('const', '0_u8'),")     # untouched part of a zero-initialised record buffer
            for lf in write_b.origins(k, passthrough={}):
                if lf["kind"] == "const" and set(lf["k"].get("alloc", "x")) <= {"0"}:
                    zero = True
            rep.check((name, i) in PERMITTED_UNREPLAYED and zero, "R2", "%s|slot%d|%s" % (name, i, oname), "slot %d (%s) is written as zeros (permitted difference)" % (i, oname),
                      "%s slot %d (%s): the writer emits %s, which is neither the parsed field nor a permitted constant" % (name, i, oname, emis[i][1][:80]), emis[i][2].loc())
            continue
        stored = fterms.get(efield)
        if stored is None:
            rep.finding("R2", "%s|slot%d|%s|field" % (name, i, oname), "%s::write emits field %s which the parser does not set" % (name, efield), write_b.span)
            continue
        if slot is not None and (stored == slot or (efield == "data" and "from_type_as_u32(%s)" % slot in stored) or
                                 (stored.startswith("('repeat'") is False and slot in stored and "copy_from_slice" in stored)):
            rep.ok("R2", "%s slot %d (%s, %d bytes): parsed into `%s` and replayed from it" % (name, i, oname, w, efield), emis[i][2].loc())
            continue
        if slot is not None and name == "Lead" and efield == "name":
            # name_arr.copy_from_slice(name): array filled from the slot
            cp = [c for c in parse_b.calls() if c.decl.endswith("copy_from_slice")]
            okc = len(cp) == 1 and render(tbp.term(cp[0].args[1])) == slot
            # ... or converted as a whole: `let name: [u8; N] = slot.try_into().unwrap()`
            okc = okc or (not cp and re.fullmatch(r"(std::result::Result::<T, E>::(unwrap|expect)\()?std::convert::TryInto::try_into\(%s\)(<Ok>\.0)?(, .*)?\)?" % re.escape(slot), stored) is not None)
            rep.check(okc, "R2", "%s|slot%d|%s" % (name, i, oname), "slot %d (%s) copied into `%s`" % (i, oname, efield), "Lead::parse does not copy slot %d into `%s`" % (i, efield), parse_b.span)
            continue
        if slot is None and name == "Lead" and efield == "reserved":
            okr = "std::convert::TryInto::try_into(" in stored and "<Ok>.0.0" in stored
            rep.check(okr, "R2", "%s|slot%d|%s" % (name, i, oname), "the reserved bytes are the remainder of the lead", "Lead.reserved is %s" % stored[:100], parse_b.span)
            continue
        # constant stored: must be validated over all bytes
        is_const = bool(re.match(r'^(\*?b?"|\d+_u\d+$)', stored))
        if is_const and slot is not None:
            okv, whyv = validated_all_bytes(parse_b, tbp, slot, w, stored if not stored.startswith("*") else None, None) if False else (None, None)
            okv, whyv = validate_const_slot(parse_b, tbp, slot, w, stored)
            rep.check(okv, "R2", "%s|slot%d|%s|validated" % (name, i, oname), "slot %d (%s) is replaced by the constant %s after validating all %d bytes (%s)" % (i, oname, stored[:24], w, whyv),
                      "%s::parse stores the constant %s for slot %d (%s) but %s: an input differing there is accepted and silently rewritten" % (name, stored[:24], i, oname, whyv), parse_b.span)
            continue
        rep.finding("R2", "%s|slot%d|%s" % (name, i, oname), "%s slot %d (%s): parser stores %s, writer emits field `%s`" % (name, i, oname, stored[:100], efield), parse_b.span)


def validate_const_slot(body, tb, slot_term, width, const_term):
    from audit import Intervals
    errs = {bb for (bb, _v) in err_assign_blocks(body)}
    iv = Intervals(body)
    for sb in sorted(body.reachable()):
        info = switch_info(body, sb)
        if not info or info["kind"] != "cmp":
            continue
        rv = info["stmt"]["rv"]
        if rv["op"] not in ("Ne", "Eq"):
            continue
        mism = info["true"] if rv["op"] == "Ne" else info["false"]
        if not (reach_from(body, mism) & errs):
            continue
        a, b_ = render(tb.term(rv["a"])), render(tb.term(rv["b"]))
        if {a, b_} == {slot_term, const_term}:
            return True, "scalar comparison"
        sides = []
        for o in (rv["a"], rv["b"]):
            p = op_place(o)
            if p is None or p["p"]:
                continue
            ds = body.defs(p["l"])
            if len(ds) == 1 and ds[0][2] == "assign" and ds[0][3]["rv"]["r"] == "use":
                src = op_place(ds[0][3]["rv"]["o"])
                if src is not None and src["p"] and isinstance(src["p"][-1], dict) and "i" in src["p"][-1]:
                    base = {"l": src["l"], "p": src["p"][:-1]}
                    sides.append((render(tb.term(base)), src["p"][-1]["i"]))
        if len(sides) == 2:
            bases = {s[0] for s in sides}
            if slot_term in bases and (const_term in bases or any(x.startswith("*b") or x.startswith('b"') for x in bases)):
                los, his = [], []
                for (_t, il) in sides:
                    v = iv.of_place({"l": il, "p": []}, sb, set())
                    if v is not None:
                        los.append(v.lo)
                        his.append(v.hi)
                if los and min(los) == 0 and max(his) == width - 1:
                    return True, "byte loop over 0..%d" % width
                return False, "the validating loop compares bytes %s..=%s of %d" % (min(los) if los else "?", max(his) if his else "?", width)
    # (c) whole-slot comparison `slot != CONST` / `slot == CONST` through PartialEq, mismatch -> Err
    for sb in sorted(body.reachable()):
        info = switch_info(body, sb)
        if not info or info["kind"] != "bool":
            continue
        c = info["call"]
        if c.decl in ("std::cmp::PartialEq::ne", "std::cmp::PartialEq::eq") and len(c.args) == 2:
            a, b_ = render(tb.term(c.args[0])), render(tb.term(c.args[1]))
            mism = info["true"] if c.decl.endswith("::ne") else info["false"]
            if {a.lstrip("*"), b_.lstrip("*")} == {slot_term.lstrip("*"), const_term.lstrip("*")} and (reach_from(body, mism) & errs):
                return True, "whole-slot comparison"
    # (d) element-wise scan: slot.iter().zip(CONST.iter()).find/position/any(|(a, b)| a != b) -> Err when one is found
    #     (or .all(|(a, b)| a == b) -> Err when it does not hold)
    facts = getattr(body, "facts", None)
    for c in body.calls():
        m = re.search(r"Iterator::(find|position|any|all)$", c.decl)
        if not m or len(c.args) < 2 or facts is None:
            continue
        recv = render(tb.term(c.args[0]))
        if not (recv.startswith("std::iter::Iterator::zip(") and slot_term in recv and const_term.lstrip("*") in recv):
            continue
        pol = None
        for lf in body.origins(c.args[1], passthrough={}):
            if lf["kind"] == "agg" and lf["stmt"]["rv"].get("ak") == "closure":
                cb = facts.bodies.get(lf["stmt"]["rv"]["closure"])
                for cc in (cb.calls() if cb else []):
                    if cc.decl in ("std::cmp::PartialEq::ne", "std::cmp::PartialEq::eq"):
                        srcs = []
                        for a in cc.args:
                            for l2 in cb.origins(a):
                                if l2["kind"] == "arg" and l2["n"] == 2:
                                    srcs.append(tuple(p for p in l2["proj"] if p != "*"))
                        if len(set(srcs)) == 2:
                            pol = "ne" if cc.decl.endswith("::ne") else "eq"
                for bb in (cb.reachable() if cb else []):
                    for st in cb.stmts(bb):
                        if st["k"] == "assign" and st["rv"]["r"] == "bin" and st["rv"]["op"] in ("Ne", "Eq"):
                            pol = pol or ("ne" if st["rv"]["op"] == "Ne" else "eq")
        want = "eq" if m.group(1) == "all" else "ne"
        if pol != want:
            continue
        # the "mismatch found" outcome must lead to Err
        for sb in sorted(body.reachable()):
            info = switch_info(body, sb)
            if not info:
                continue
            if info["kind"] == "discr" and info["place"]["l"] == c.dest["l"]:
                some = info["targets"].get(1)
                if some is not None and (reach_from(body, some) & errs):
                    return True, "element-wise scan of the whole slot (%s)" % m.group(1)
            if info["kind"] == "bool" and info["call"] is c:
                bad = info["true"] if m.group(1) == "any" else info["false"]
                if reach_from(body, bad) & errs:
                    return True, "element-wise scan of the whole slot (%s)" % m.group(1)
    return False, "no validating comparison found"


WIRE_FIELDS = {"IndexEntry": {"tag", "data_type", "offset", "num_items"},
               "IndexHeader": {"magic", "version", "num_entries", "data_section_size", "header_size"},
               "Lead": None}   # None: every field


def wire_field_writes(f):
    """(body, stmt, struct, field) for every field assignment (not whole-struct construction) to a wire-format field."""
    out = []
    for b in f.body_list:
        if b.derived:
            continue
        for bb in b.reachable():
            for st in b.stmts(bb):
                if st["k"] != "assign" or not st["lhs"]["p"]:
                    continue
                names = [p.get("n") for p in st["lhs"]["p"] if isinstance(p, dict) and "n" in p]
                if not names:
                    continue
                ty = b.local_ty(st["lhs"]["l"])
                for sname, flds in WIRE_FIELDS.items():
                    hit = ("header::%s<" % sname in ty or ty.endswith("header::" + sname) or "lead::%s" % sname in ty or
                           ("header::Header<" in ty and sname == "IndexHeader" and "index_header" in names))
                    if hit and (flds is None or names[-1] in flds):
                        out.append((b, st, sname, names[-1]))
    return out


def check_wire_write_once(f, rep, rule):
    """What was read is what is written (and hashed): on the parse side the wire fields of an index entry, an index header or
    the lead are set once, from the input, by the struct's own parse function - nothing adjusts them afterwards."""
    roots = []
    for rx in (r"package::Package::parse$", r"package::PackageMetadata::parse$", r"header::Header::<T>::parse$", r"header::Header::<T>::parse_header$",
               r"Header::<constants::IndexSignatureTag>::parse_signature$", r"lead::Lead::parse$", r"header::IndexEntry::<T>::parse$", r"header::IndexHeader::parse$",
               r"package::Package::open$", r"package::PackageMetadata::open$"):
        bs = [b for b in f.find(rx=rx) if b.kind != "closure"]
        roots += bs
    if not rep.anchor(len(roots) >= 8, rule, "parse entry points (Package/PackageMetadata/Header/Lead/IndexEntry/IndexHeader)"):
        return
    cone = f.cone(roots)
    writes = wire_field_writes(f)
    # live control: the scanner sees the builder-side writes that exist today (from_entries sets offsets, clear() resets the counts)
    outside = [w for w in writes if w[0].path not in cone]
    rep.floor(rule, "wire-field assignments the scanner finds outside the parse cone (control)", len(outside), 4)
    inside = [w for w in writes if w[0].path in cone]
    for (b, st, sname, fld) in inside:
        rep.finding(rule, "parse-side-write|%s|%s.%s" % (fmt_key(b.path), sname, fld),
                    "%s assigns %s.%s after it was read: the value written back (and hashed by verify_digests) is no longer the one in the input" % (b.path, sname, fld),
                    "%s:%s" % (b.file, st.get("line")))
    if not inside:
        rep.ok(rule, "no parse-side function assigns a wire field of IndexEntry / IndexHeader / Lead after reading it (%d bodies in the parse cone)" % len(cone))


def run(f, fixture, rep, cfg, tier):
    rep.explanation = (
        "Sibling agreement between each parser and its writer over MIR: the reader's decoder chain (nom decoders with static "
        "widths) and the writer's write_all operands (array / to_be_bytes widths) are compared slot by slot with each other and "
        "with the rpm format oracle; each slot must be stored in the field the writer replays, or be replaced by a constant "
        "after a guard over all its bytes, or be a permitted difference; the write cone's emission terms read only raw index "
        "fields and the store; type-code tables compose to the identity; the store is the untouched remainder; the padding "
        "function is shared and tabulated over all 8 residues by abstract evaluation.")
    rep.trusted = ["rustc nightly MIR", "nom decoders consume exactly their nominal width", "std::io::Read::read_exact / Write::write_all contracts",
                   "rpm format documentation for the oracle tables"]
    for r, d in (("R1", "wire agreement"), ("R2", "verbatim or validated"), ("R3", "write ignores decoded data"), ("R4", "type-code bijection"),
                 ("R5", "store is the untouched remainder"), ("R6", "one padding function"), ("R7", "parsed wire fields are never adjusted")):
        rep.rule(r, d)

    check_struct(f, rep, "IndexHeader", f.one("header::IndexHeader::parse"), f.one("header::IndexHeader::write"), "header::IndexHeader")
    check_struct(f, rep, "IndexEntry", f.one("header::IndexEntry::<T>::parse"), f.one("header::IndexEntry::<T>::write_index"), "header::IndexEntry")
    check_struct(f, rep, "Lead", f.one("lead::Lead::parse"), f.one("lead::Lead::write"), "lead::Lead")

    # ---- composition: Header, PackageMetadata, Package -----------------------------------------
    hw = f.one("header::Header::<T>::write")
    tw = TermBuilder(hw)
    seq = []
    for c in sorted(hw.calls(), key=lambda c: (len(hw.dominators().get(c.bb, ())), c.bb)):
        if c.decl.endswith("IndexHeader::write"):
            seq.append(("intro", render(tw.term(c.args[0]))))
        elif c.decl.endswith("write_index"):
            inloop = any(c.bb in blks for (_h, blks) in hw.loops())
            seq.append(("entry*" if inloop else "entry", render(tw.term(c.args[0]))))
        elif c.decl in ("std::iter::Iterator::try_for_each", "std::iter::Iterator::for_each"):
            # `self.index_entries.iter().try_for_each(|e| e.write_index(out))`: one entry per element, like the loop
            from common import per_element_calls
            for (_c2, a0) in per_element_calls(f, hw, c, r"write_index$"):
                seq.append(("entry*", a0 + "<Some>.0" if a0.startswith("std::iter::Iterator::next(") and not a0.endswith("<Some>.0") else a0))
        elif c.decl == "std::io::Write::write_all":
            seq.append(("bytes", render(tw.term(c.args[1]))))
    want = [("intro", "self.index_header"), ("entry*", "std::iter::Iterator::next(self.index_entries)<Some>.0"), ("bytes", "self.store")]
    rep.check(seq == want, "R1", "Header|write-sequence", "Header::write = intro, one index entry per element of index_entries, store",
              "Header::write emits %s" % seq, hw.span)
    hp = f.one("header::Header::<T>::parse")
    ph = f.one("header::Header::<T>::parse_header")
    tph = TermBuilder(ph)
    ag = agg_fields(ph, "header::Header", tph)
    if rep.anchor(ag is not None, "R5", "Header aggregate in parse_header"):
        ft = ag[0]
        rep.check(ft.get("index_header") == "index_header", "R2", "Header|intro-kept", "the parsed intro is stored as is", "Header.index_header is %s" % ft.get("index_header"), ph.span)
        st = ft.get("store", "")
        rep.check(st.startswith("phi(bytes | rpm::headers::header::IndexEntry::<T>::parse(") and "<Ok>.0.0" in st and "buf[" not in st, "R5", "Header|store-remainder",
                  "store = copy of what remains after the index entries", "Header.store is %s" % st[:160], ph.span)
        ie = ft.get("index_entries", "")
        rep.check("std::vec::Vec::<T, A>::push(rpm::headers::header::IndexEntry::<T>::parse(" in ie and "<Ok>.0.1)" in ie, "R2", "Header|entries-kept",
                  "index_entries = the parsed entries in order", "Header.index_entries is %s" % ie[:200], ph.span)
        # the store local is not mutated between its creation and the aggregate
        store_locals = [l for l in range(len(ph.locals)) if ph.local_name(l) == "store"]
        muts = []
        for l in store_locals:
            muts += [w.decl for (w, _i) in ph.mut_borrow_calls(l)]
        # the index is kept in input order: the only thing done to the parsed entries is filling in their data
        ents_t = ag[0].get("index_entries", "")
        reorder = [c for c in ph.calls() if re.search(r"::(sort\w*|dedup\w*|reverse|retain\w*|swap|swap_remove|remove|insert|truncate|drain|rotate_\w+)(?:::<|$)", c.decl)]
        rep.check(not reorder, "R5", "Header|index-order", "parse_header keeps the index entries in input order",
                  "parse_header applies %s: the index written back is not the index that was read (unsorted / duplicate tags are legal input)" % sorted({c.decl for c in reorder}), reorder[0].loc() if reorder else ph.span)
        rep.check(not muts, "R5", "Header|store-untouched", "the store is never modified after it is copied", "the store is modified by %s" % muts, ph.span)
        # loop count = num_entries
        nx = [c for c in ph.calls() if c.decl == "std::iter::Iterator::next" and (c.self_ty or "").startswith("std::ops::Range<u32>")]
        ok = any("index_header.num_entries" in render(tph.term(c.args[0])) for c in nx)
        rep.check(ok, "R1", "Header|entry-count", "exactly num_entries index entries are parsed", "the index loop is not bounded by index_header.num_entries", ph.span)
    # Header::parse: reads intro (16) then exactly num_entries*16 + data_section_size
    thp = TermBuilder(hp)
    tk = [c for c in hp.calls() if c.decl == "std::io::Read::take"]
    rd = [c for c in hp.calls() if c.decl == "std::io::Read::read_exact"]
    rep.check(len(rd) == 1 and len(tk) == 1, "R1", "Header|parse-reads", "Header::parse reads the intro, then one bounded block", "Header::parse reads: %d read_exact, %d take" % (len(rd), len(tk)), hp.span)
    if tk:
        t = render(thp.term(tk[0].args[1]))
        rep.notes.append("Header::parse block size term: %s" % t[:300])

    pmw = f.one("package::PackageMetadata::write")
    tpm = TermBuilder(pmw)
    seq = [(c.decl.rsplit("::", 1)[-1], render(tpm.term(c.args[0]))) for c in sorted(pmw.calls(), key=lambda c: c.bb)
           if re.search(r"(Lead::write|write_signature|Header::<.*>::write)$", c.decl)]
    rep.check(seq == [("write", "self.lead"), ("write_signature", "self.signature"), ("write", "self.header")], "R1", "PackageMetadata|write-sequence",
              "metadata = lead, signature header (+padding), main header", "PackageMetadata::write emits %s" % seq, pmw.span)
    pmp = f.one("package::PackageMetadata::parse")
    tpp = TermBuilder(pmp)
    seq = [c.decl.rsplit("::", 1)[-1] for c in sorted(pmp.calls(), key=lambda c: c.bb) if re.search(r"(Lead::parse|parse_signature|Header::<.*>::parse)$", c.decl)]
    rep.check(seq == ["parse", "parse_signature", "parse"], "R1", "PackageMetadata|parse-sequence", "metadata is parsed as lead, signature header, main header",
              "PackageMetadata::parse calls %s" % seq, pmp.span)
    ag = agg_fields(pmp, "package::PackageMetadata", tpp)
    if ag:
        ft = ag[0]
        ok = "Lead::parse(" in ft.get("lead", "") and "parse_signature(" in ft.get("signature", "") and re.search(r"Header::<.*>::parse\(", ft.get("header", "")) is not None
        rep.check(ok, "R2", "PackageMetadata|fields", "each segment is stored in its own field", "PackageMetadata fields: %s" % {k: v[:60] for k, v in ft.items()}, pmp.span)
    pw = f.one("package::Package::write")
    tpw = TermBuilder(pw)
    seq = []
    for c in sorted(pw.calls(), key=lambda c: c.bb):
        if c.decl.endswith("PackageMetadata::write"):
            seq.append(("metadata", render(tpw.term(c.args[0]))))
        elif c.decl == "std::io::Write::write_all":
            seq.append(("bytes", render(tpw.term(c.args[1]))))
        elif c.decl.endswith("Result::<T, E>::and_then") and len(c.args) == 2:
            # `self.metadata.write(out).and_then(|()| out.write_all(&self.content))`: the closure runs after, and only after, the receiver succeeded
            for lf in pw.origins(c.args[1], passthrough={}):
                if lf["kind"] == "agg" and lf["stmt"]["rv"].get("ak") == "closure":
                    cb_ = f.bodies.get(lf["stmt"]["rv"]["closure"])
                    if cb_ is not None:
                        tcb_ = TermBuilder(cb_, closure_env=True)
                        for c2 in sorted(cb_.calls(), key=lambda x: x.bb):
                            if c2.decl == "std::io::Write::write_all":
                                seq.append(("bytes", render(tcb_.term(c2.args[1]))))
    rep.check(seq == [("metadata", "self.metadata"), ("bytes", "self.content")], "R1", "Package|write-sequence", "package = metadata, content", "Package::write emits %s" % seq, pw.span)
    pp = f.one("package::Package::parse")
    rte = [c for c in pp.calls() if c.decl == "std::io::Read::read_to_end"]
    agp = agg_fields(pp, "package::Package", TermBuilder(pp))
    a1 = pp.local_name(1) or "_1"
    okp = agp is not None and agp[0].get("metadata") == "rpm::package::PackageMetadata::parse(%s)<Ok>.0" % a1 and agp[0].get("content") == "buf[write:std::io::Read::read_to_end(%s)]" % a1
    rep.check(okp, "R2", "Package|fields", "Package{metadata: parsed from the input, content: every remaining byte of the input}",
              "Package::parse stores %s: the payload kept is not simply the unbounded rest of the input" % ({k: v[:120] for k, v in agp[0].items()} if agp else None), pp.span)
    rep.check(len(rte) == 1, "R1", "Package|parse-rest", "the payload is everything after the metadata (read_to_end)", "Package::parse no longer reads the rest with read_to_end", pp.span)

    # ---- R1 (must-pass-through) every successful write emitted every part: no Ok(()) is reachable around the write of a
    # segment (an early `return Ok(())` for "empty" values drops bytes that size(), the offsets and the intro still count)
    from pathsens import ps_reach
    emitters = [("header::Header::<T>::write", r"(IndexHeader::write|Write::write_all)$"),
                ("package::PackageMetadata::write", r"(Lead::write|write_signature|Header::<.*>::write)$"),
                ("package::Package::write", r"(PackageMetadata::write|Write::write_all)$"),
                ("lead::Lead::write", r"Write::write_all$"),
                ("header::IndexHeader::write", r"Write::write_all$"),
                ("header::IndexEntry::<T>::write_index", r"Write::write_all$")]
    n_steps = 0
    for path, rx in emitters:
        bs = [b for b in f.find(path) if b.kind != "closure"]
        if not rep.anchor(len(bs) == 1, "R1", "writer %s" % path):
            continue
        wb = bs[0]
        oks = set(ok_assign_blocks(wb))
        # `_0 = call(..)` tail calls count as success returns as well
        tails = {bb for (bb, idx, kind, payload, lhs_proj) in wb.defs(0) if kind == "call" and wb.call_at(bb).decl != "std::ops::FromResidual::from_residual"}
        steps = [c for c in wb.calls() if re.search(rx, c.decl) and not any(c.bb in blks for (_h, blks) in wb.loops())]
        for i, c in enumerate(sorted(steps, key=lambda c: c.bb)):
            n_steps += 1
            if c.bb in tails:
                continue        # the step is itself the returned result
            around = ps_reach(wb, 0, blocked_blocks={c.bb}) if c.bb != 0 else set()     # a step in the entry block is on every path
            rep.check(not (around & (oks | tails)), "R1", "%s|always-emits|%s|#%d" % (fmt_key(wb.path), c.decl.rsplit("::", 1)[-1], i),
                      "%s cannot succeed without %s" % (fmt_key(wb.path), c.decl.rsplit("::", 1)[-1]),
                      "%s can return Ok(()) without having executed its %s step: a segment is missing from the output while its size is still counted" % (wb.path, c.decl), c.loc())
    rep.floor("R1", "emission steps checked for must-pass-through", n_steps, 20)

    # ---- R3 ---------------------------------------------------------------------------------------
    wi = f.one("header::IndexEntry::<T>::write_index")
    et = [t for (_w, t, _c) in emission(wi, f)]
    want = ["core::num::<impl u32>::to_be_bytes(self.tag)", "core::num::<impl u32>::to_be_bytes(rpm::headers::header::IndexData::type_as_u32(self.data))",
            "core::num::<impl i32>::to_be_bytes(self.offset)", "core::num::<impl u32>::to_be_bytes(self.num_items)"]
    rep.check(et == want, "R3", "write_index|raw-fields", "write_index emits the raw tag, type code, offset and count",
              "write_index emits %s" % et, wi.span)

    # ---- R4 ----------------------------------------------------------------------------------------
    fr = f.one("header::IndexData::from_type_as_u32")
    to = f.one("header::IndexData::type_as_u32")
    tfr = {}
    for sb in sorted(fr.reachable()):
        t = fr.term(sb)
        if t["t"] == "switch" and len(t["targets"]) >= 5:
            for v, bb in t["targets"]:
                var = None
                for b2 in sorted(reach_from(fr, bb, blocked_blocks={sb})):
                    for st in fr.stmts(b2):
                        if st["k"] == "assign" and st["rv"]["r"] == "agg" and st["rv"].get("adt", "").endswith("IndexData") and var is None:
                            var = st["rv"]["variant"]
                tfr[int(v)] = var
            r = reach_from(fr, t["otherwise"], blocked_blocks={sb})
            none = any(st["k"] == "assign" and st["rv"]["r"] == "agg" and st["rv"].get("variant") == "None" for b2 in r for st in fr.stmts(b2))
            rep.check(none, "R4", "from-type|other", "other type codes map to None", "unknown type codes do not map to None", fr.span)
    tto = {}
    for sb in sorted(to.reachable()):
        info = switch_info(to, sb)
        if info and info["kind"] == "discr":
            for name, bb in arms_of(to, info).items():
                val = None
                for b2 in sorted(reach_from(to, bb, blocked_blocks={sb})):
                    for st in to.stmts(b2):
                        if st["k"] == "assign" and st["lhs"]["l"] == 0 and st["rv"]["r"] == "use" and val is None:
                            val = const_int(st["rv"]["o"])
                tto[name] = val
    ok = len(tfr) == 10 and sorted(tfr) == list(range(10)) and all(tto.get(v) == k for k, v in tfr.items())
    rep.check(ok, "R4", "type-code-bijection", "type_as_u32(from_type_as_u32(i)) == i for i in 0..=9 (%d rows)" % len(tfr),
              "type code tables do not compose to the identity: from=%s to=%s" % (tfr, tto), fr.span)

    # ---- R7 ----------------------------------------------------------------------------------------------
    check_wire_write_once(f, rep, "R7")

    # ---- R6 padding ----------------------------------------------------------------------------------
    pr = f.one("IndexSignatureTag>::padding_required")
    users = []
    for b in f.body_list:
        for c in b.calls():
            if c.decl.endswith("padding_required"):
                users.append(fmt_key(b.path))
    need = ["parse_signature", "write_signature", "get_package_segment_offsets"]
    rep.check(all(any(u.endswith(n) for u in users) for n in need), "R6", "padding|shared", "reader, writer and offsets use the same padding function",
              "padding_required is used by %s (expected %s)" % (sorted(set(users)), need), pr.span)
    try:
        it = Interp(f)
        x = BV.var("d", 32, False)
        hdr = Enum("Header", "Header", {"index_header": Enum("IndexHeader", "IndexHeader", {"data_section_size": x, "num_entries": BV.var("n", 32, False),
                                                                                          "magic": Opaque("m"), "version": BV.const(8, False, 1)}),
                                        "index_entries": Opaque("entries"), "store": Opaque("store")})
        outs = it.evaluate(pr, [Ref(hdr)])
        table = {}
        for o in outs:
            r = sum(o.sigma.get(("d", i), 0) << i for i in range(3))
            if isinstance(o.value, BV) and o.value.is_const():
                table.setdefault(r, set()).add(o.value.value())
        ok = len(table) == 8 and all(v == {(8 - r) % 8} for r, v in table.items())
        rep.check(ok, "R6", "padding|table", "pad(r) = (8 - r) %% 8 for all 8 residues (%d paths)" % len(outs), "padding table is %s" % {k: sorted(v) for k, v in sorted(table.items())}, pr.span)
    except LeaveDomain as e:
        rep.finding("R6", "padding|left-domain", "padding_required left the abstract domain: %s" % e, pr.span)
    # reader skips / writer emits exactly that many bytes
    ps = f.one("IndexSignatureTag>::parse_signature")
    ws = f.one("IndexSignatureTag>::write_signature")
    for (b, call, what) in ((ps, "std::io::Read::read_exact", "skips"), (ws, "std::io::Write::write_all", "emits")):
        t = TermBuilder(b)
        cs = [c for c in b.calls() if c.decl == call]
        ok = False
        PADN = r"usize\(rpm::headers::header::Header::<constants::IndexSignatureTag>::padding_required\("
        for c in cs:
            tt = render(t.term(c.args[1]))
            if "std::vec::from_elem(0_u8, usize(rpm::headers::header::Header::<constants::IndexSignatureTag>::padding_required(" in tt:
                ok = True
            # the first padding_required() bytes of a fixed buffer: `buf[..n]` / `buf[0..n]`; what the writer emits from must be zeroes
            m = re.match(r"std::ops::Index(Mut)?::index(_mut)?\((.*), std::ops::(RangeTo::RangeTo\{|Range::Range\{0_usize, )" + PADN, tt)
            if m:
                zero = what == "skips"
                for lf in b.origins(c.args[1], passthrough={}):
                    if lf["kind"] == "call" and re.search(r"Index(Mut)?::index(_mut)?$", lf["call"].decl):
                        for l2 in b.origins(lf["call"].args[0]):
                            k2 = l2.get("k") or {}
                            raw = (k2.get("alloc_chain") or [None])[-1] or k2.get("alloc")
                            if l2["kind"] == "const" and raw and set(raw) == {"0"}:
                                zero = True
                ok = ok or zero
        # ... and whether it does so depends on nothing but that number: the only test that may skip the padding is
        # `padding_required() > 0` (skipping it because the index is empty, or for any other reason, shifts what follows)
        if ok:
            from common import ok_assign_blocks as _oks
            okb_ = set(_oks(b))
            for c in cs:
                for d_ in sorted(b.reachable()):
                    if b.term(d_)["t"] != "switch" or not b.dominates(d_, c.bb):
                        continue
                    away = [s_ for s_ in b.succ(d_) if c.bb not in reach_from(b, s_)]
                    if not away or not any(reach_from(b, s_) & okb_ for s_ in away):
                        continue
                    info_ = switch_info(b, d_)
                    if info_["kind"] == "cmp":
                        gt_ = render(t.term(info_["stmt"]["rv"]["a"])) + " " + render(t.term(info_["stmt"]["rv"]["b"]))
                    elif info_["kind"] == "bool" and info_["call"].args:
                        gt_ = info_["call"].decl.rsplit("::", 1)[-1] + "(" + render(t.term(info_["call"].args[0])) + ")"
                    elif info_["kind"] in ("discr", "value"):
                        gt_ = render(t.term(info_["place"]))
                    else:
                        dp_ = op_place(b.term(d_)["d"])
                        gt_ = render(t.term(dp_)) if dp_ is not None else "?"
                    rep.check("padding_required(" in gt_ and not re.search(r"\bself\.\w|index_entries|store", gt_.replace("padding_required(self)", "")), "R6",
                              "padding|%s|only-if-nonzero" % fmt_key(b.path), "%s %s the padding unless it is empty" % (fmt_key(b.path), what),
                              "%s %s the padding only when `%s`: with that test false the padding is left out although padding_required() is not zero" % (b.path, what, gt_[:120]), c.loc())
        rep.check(ok, "R6", "padding|%s" % fmt_key(b.path), "%s %s exactly padding_required() zero bytes" % (fmt_key(b.path), what),
                  "%s no longer %s a buffer of padding_required() bytes" % (b.path, what), b.span)
