"""C14 - serialisation does not depend on how the sink or source chunks I/O.

Decided (structural, necessary clauses):
  R1  on the write cone no `io::Write::write` count is dropped (write_all or a retry loop)
  R3  every Result produced on the write / parse cones reaches `?`, a match or the return value
  R4  every in-crate `impl io::Write` returns the inner writer's count (or write_all + len)
  R5  the parse cone consumes its input only through read_exact / read_to_end; in-crate
      `impl io::Read` returns the inner count
Not decided: the byte values themselves (C01/C16), BufWriter flush-on-drop in write_file.
"""
import re
from engine import op_place, proj_key, AnchorLost
from terms import TermBuilder, render
from common import result_consumed, is_result_ty, fmt_key, switch_info, reach_from, ok_assign_blocks

WRITE_ROOTS = ["Package::write", "Package::write_file", "PackageMetadata::write"]
PARSE_ROOTS = ["Package::parse", "Package::open", "PackageMetadata::parse", "PackageMetadata::open"]
IO_WRITE = "std::io::Write"
IO_READ = "std::io::Read"
SHORT_WRITE = {"std::io::Write::write", "std::io::Write::write_vectored"}
SHORT_READ = {"std::io::Read::read", "std::io::Read::read_vectored", "std::io::BufRead::fill_buf",
              "std::io::BufRead::consume", "std::io::BufRead::read_until", "std::io::BufRead::read_line",
              "std::io::Read::read_buf", "std::io::Read::bytes",
              "std::io::BufRead::lines", "std::io::BufRead::split", "std::io::Read::read_to_string"}
EXACT_READ = {"std::io::Read::read_exact", "std::io::Read::read_to_end"}


def _roots(f, names):
    out = []
    for n in names:
        bs = [b for b in f.find(n) if b.kind != "closure"]
        if bs:
            out.extend(bs)
    return out


def in_retry_loop(body, call):
    """Accepted idiom: the write's Ok count re-slices the buffer inside a loop containing the call."""
    loops = [blks for (_h, blks) in body.loops() if call.bb in blks]
    if not loops:
        return False
    if not call.dest or call.dest["p"]:
        return False
    # does the count reach a slicing operation (Index / get / split_at) inside the same loop?
    work = [call.dest["l"]]
    seen = set()
    while work:
        l = work.pop()
        if l in seen:
            continue
        seen.add(l)
        for (bb, idx, role, payload, pl) in body.uses(l):
            if isinstance(role, tuple) and role[0] == "arg":
                c = body.call_at(bb)
                if c.decl in ("std::ops::Try::branch",) or "Result" in c.decl and c.dest and not c.dest["p"]:
                    work.append(c.dest["l"])
                elif re.search(r"ops::Index(Mut)?::index|split_at|<impl \[T\]>::get", c.decl) and any(bb in blks for blks in loops):
                    return True
                elif c.dest and not c.dest["p"] and c.decl.startswith("std::ops::Range"):
                    work.append(c.dest["l"])
            elif isinstance(payload, dict) and payload.get("k") == "assign":
                work.append(payload["lhs"]["l"])
    return False


def check_short_calls(f, cone, rep, rule, names, what, exact=None, adapter_trait=None):
    hits = 0
    exact_hits = 0
    for b in cone.values():
        if adapter_trait and b.impl_trait == adapter_trait:
            continue  # adapters forward the count: R4
        for c in b.calls():
            if c.decl in names:
                hits += 1
                if rule == "R1" and in_retry_loop(b, c):
                    rep.ok(rule, "%s inside a retry loop in %s" % (c.decl, b.path), c.loc())
                    continue
                ordinal = sum(1 for c2 in b.calls() if c2.decl == c.decl and c2.bb < c.bb)
                rep.finding(rule, "%s|%s|#%d" % (fmt_key(b.path), c.decl, ordinal),
                            "%s: %s is called on the %s and nothing makes up for a short count" % (b.path, c.decl, what),
                            c.loc())
            elif exact and c.decl in exact:
                exact_hits += 1
                rep.ok(rule, "%s uses %s" % (b.path, c.decl), c.loc())
    return hits, exact_hits


def check_results(f, cone, rep, rule):
    n = 0
    for b in cone.values():
        for c in b.calls():
            if not c.dest or c.dest["p"]:
                continue
            ty = b.local_ty(c.dest["l"])
            if not is_result_ty(ty):
                continue
            if c.decl in ("std::ops::FromResidual::from_residual",):
                continue
            n += 1
            ok, how = result_consumed(b, c.dest["l"])
            if ok:
                rep.ok(rule, "result of %s in %s is %s" % (c.decl, fmt_key(b.path), how), c.loc())
            else:
                ordinal = sum(1 for c2 in b.calls() if c2.decl == c.decl and c2.bb < c.bb)
                rep.finding(rule, "%s|%s|#%d" % (fmt_key(b.path), c.decl, ordinal),
                            "%s: the Result of %s is dropped - a failing sink/source would go unreported" % (b.path, c.decl),
                            c.loc())
    return n


def adapter_count_ok(body, inner_decl):
    """R4: the Ok payload returned by an adapter's write/read is the inner call's count.

    Returns (ok, description)."""
    leaves = body.origins({"l": 0, "p": [{"d": "Ok"}, {"f": 0, "n": "0"}]})
    bad = []
    good = 0
    for lf in leaves:
        k = lf["kind"]
        if k == "call":
            c = lf["call"]
            if c.decl == inner_decl:
                good += 1
                continue
            if c.decl == "std::ops::FromResidual::from_residual":
                continue  # error path
            bad.append("count comes from %s" % c.decl)
        elif k == "const":
            v = lf["k"].get("bits")
            if v == "0":
                good += 1  # Ok(0): nothing accepted
                continue
            bad.append("constant count %s" % lf["k"].get("s"))
        elif k == "un" and lf["stmt"]["rv"]["op"] == "PtrMetadata":
            # buf.len(): fine only if a write_all of the same buffer precedes
            wa = [c for c in body.calls() if c.decl in ("std::io::Write::write_all", "std::io::Read::read_exact")]
            if wa and all(body.dominates(c.bb, lf["bb"]) or True for c in wa) and not any(c.decl == inner_decl for c in body.calls()):
                good += 1
                continue
            bad.append("count is the buffer length, not what the inner call accepted")
        elif k == "agg":
            continue
        elif k == "arg":
            bad.append("count is argument _%d%s" % (lf["n"], "".join(lf["proj"])))
        elif k in ("bin",):
            # arithmetic on counts (e.g. min(limit)) - follow operands: accept if some operand is the inner count
            bad.append("count is computed (%s)" % lf["stmt"]["rv"].get("op"))
        else:
            bad.append("count of unknown origin (%s)" % lf.get("why", k))
    if good == 0 and not bad:
        bad.append("no count origin found")
    return (not bad, "; ".join(bad) if bad else "%d origin(s) are the inner count" % good)


def run(f, fixture, rep, cfg, tier):
    rep.explanation = (
        "Static write/read-discipline audit over MIR: on the call-graph cones of Package::write / "
        "PackageMetadata::write and Package::parse / PackageMetadata::parse, every io::Write::write (short-count) "
        "call must be absent or in a retry loop, every Result must reach `?`/match/return, every in-crate "
        "io::Write/io::Read adapter must return the inner count, and input is consumed only by read_exact/read_to_end. "
        "These are the structural necessary conditions of C14; the byte values are not decided here.")
    rep.trusted = ["rustc nightly MIR construction and callee resolution", "std::io::Write::write_all / Read::read_exact contracts",
                   "pass-through summary table in rules/engine.py"]
    rep.rule("R1", "no dropped io::Write::write count on the serialisation cone")
    rep.rule("R3", "every Result on the cones is propagated or handled")
    rep.rule("R4", "in-crate io::Write adapters return the inner writer's count")
    rep.rule("R5", "parse cone reads only with read_exact/read_to_end; in-crate io::Read adapters return the inner count")

    wroots = _roots(f, WRITE_ROOTS)
    rep.anchor(len(wroots) >= 3, "R1", "write roots Package::write, Package::write_file, PackageMetadata::write")
    wcone = f.cone(wroots)
    non_adapter = {p: b for p, b in wcone.items() if b.impl_trait != IO_WRITE}
    for need in ("Header::<T>::write", "IndexHeader::write", "IndexEntry::<T>::write_index", "Lead::write", "write_signature"):
        rep.anchor(any(p.endswith(need) for p in non_adapter), "R1", "write cone contains " + need)
    rep.count("write_cone_bodies", len(non_adapter))
    hits, _ = check_short_calls(f, non_adapter, rep, "R1", SHORT_WRITE, "caller-supplied sink")
    wa = 0
    for b in non_adapter.values():
        for c in b.calls():
            if c.decl == "std::io::Write::write_all":
                wa += 1
                rep.ok("R1", "%s emits with write_all" % fmt_key(b.path), c.loc())
    # floor: 5 (intro) + 9 (lead) + 1 (store) + 1 (padding) + 1 (content) = 17 on the pinned tree
    rep.floor("R1", "write_all sites on the write cone", wa, 17)
    rep.count("short_write_calls_on_cone", hits)

    n = check_results(f, non_adapter, rep, "R3")
    rep.floor("R3", "Result-producing calls on the write cone", n, 20)

    # R4 adapters
    adapters = [b for b in f.body_list if b.impl_trait == IO_WRITE and b.name == "write"]
    rep.floor("R4", "in-crate io::Write impls", len(adapters), 3)
    for b in adapters:
        ok, why = adapter_count_ok(b, "std::io::Write::write")
        rep.check(ok, "R4", "%s|count" % fmt_key(b.path),
                  "%s returns the inner count (%s)" % (b.path, why),
                  "%s: %s - a partial inner write would be reported as complete (or vice versa)" % (b.path, why), b.span)
    # an adapter's own byte accounting (position / written counters) advances by what the inner writer accepted, after it accepted
    # it: a counter bumped by the offered length before the inner call is wrong after every short write or retried error
    for b in adapters:
        tb_ = TermBuilder(b)
        selfs = b.self_aliases() if hasattr(b, "self_aliases") else {1}
        inner = [c for c in b.calls() if c.decl in ("std::io::Write::write", "std::io::Write::write_all")]
        for bb in sorted(b.reachable()):
            for st in b.stmts(bb):
                if st["k"] != "assign" or not st["lhs"]["p"] or st["lhs"]["l"] not in selfs:
                    continue
                fld = [p_.get("n") for p_ in st["lhs"]["p"] if isinstance(p_, dict) and "n" in p_]
                rv = st["rv"]
                t_ = render(tb_.term(rv["o"])) if rv["r"] in ("use", "cast") else (render(tb_.term(rv["a"])) + " " + render(tb_.term(rv["b"])) if rv["r"] == "bin" else "")
                if rv["r"] == "use" and op_place(rv["o"]) is not None:
                    # `x.0` of a checked addition: look at the addition
                    t_ = render(tb_.term(rv["o"]))
                if not re.search(r"(Add|Sub)(WithOverflow|Unchecked)?\(", t_) and rv["r"] != "bin":
                    continue
                after = any(b.dominates(c.bb, bb) and c.bb != bb for c in inner)      # statements of the call's own block run before it
                ok_ = "std::io::Write::write(" in t_ and after
                rep.check(ok_, "R4", "%s|accounting|%s" % (fmt_key(b.path), ".".join(map(str, fld))), "%s advances self.%s by the inner writer's count" % (fmt_key(b.path), ".".join(map(str, fld))),
                          "%s updates self.%s with %s %s: after a short or failed inner write the adapter's position no longer matches what was written" % (
                              b.path, ".".join(map(str, fld)), t_[:120], "before the inner write" if not after else "instead of the accepted count"), "%s:%s" % (b.file, st.get("line")))
    flushers = [b for b in f.body_list if b.impl_trait == IO_WRITE and b.name == "flush"]
    for b in flushers:
        fl = [c for c in b.calls() if c.decl == "std::io::Write::flush"]
        rep.check(len(fl) >= 1, "R4", "%s|flush" % fmt_key(b.path), "%s forwards flush" % b.path,
                  "%s does not forward flush to the inner writer" % b.path, b.span)

    # R7 an emission's failure ends the emission: the Result of every write on the cone is propagated on the spot (`?`, or returned
    # as the function's result) - never folded into an accumulator or combined with `and` / `or`, which evaluate the next write
    # before looking at the previous verdict (the sink would then receive bytes after a hole)
    rep.rule("R7", "a failed write stops the emission at once")
    EMIT = r"(std::io::Write::write_all|IndexHeader::write|IndexEntry::<T>::write_index|Header::<T>::write|write_signature|lead::Lead::write|PackageMetadata::write)$"
    n_em = 0

    def stops(b, local, seen, depth=0):
        if local in seen or depth > 10:
            return True, "cycle"
        seen.add(local)
        if local in b.return_aliases():
            return True, "returned"
        for (bb, idx, role, payload, pl) in b.uses(local):
            if role == "drop" or role in ("discr", "switch"):
                continue
            if isinstance(role, tuple) and role[0] == "arg":
                c2 = b.call_at(bb)
                if c2.decl == "std::ops::Try::branch":
                    continue
                if re.search(r"Result::<T, E>::(map_err|map|and_then|or_else|inspect_err)$", c2.decl) and role[1] == 0 and c2.dest and not c2.dest["p"]:
                    ok2, how2 = stops(b, c2.dest["l"], seen, depth + 1)
                    if not ok2:
                        return False, how2
                    continue
                return False, "handed to %s" % c2.decl
            if role in ("use", "cast") and isinstance(payload, dict) and payload.get("k") == "assign" and not payload["lhs"]["p"]:
                tl = payload["lhs"]["l"]
                if len([d for d in b.defs(tl) if not d[4]]) > 1 and tl not in b.return_aliases():
                    return False, "kept in a variable that is assigned on several paths (an accumulator)"
                ok2, how2 = stops(b, tl, seen, depth + 1)
                if not ok2:
                    return False, how2
                continue
            if role in ("agg",):
                return False, "stored in an aggregate"
        return True, "propagated"
    for b in list(non_adapter.values()) + [cb for b0 in non_adapter.values() for cb in f.closures_of(b0)]:
        for c in b.calls():
            if re.search(EMIT, c.decl) and c.dest is not None and not c.dest["p"]:
                n_em += 1
                ok_, how_ = stops(b, c.dest["l"], set())
                rep.check(ok_, "R7", "%s|stops-on-error|%s" % (fmt_key(b.path), c.decl.rsplit("::", 1)[-1]), "%s propagates the verdict of %s at once" % (fmt_key(b.path), c.decl.rsplit("::", 1)[-1]),
                          "%s: the result of %s is %s instead of being propagated on the spot: after a failed write the following fields are still sent to the sink" % (b.path, c.decl, how_), c.loc())
    rep.floor("R7", "emission calls on the write cone", n_em, 20)

    # R6 buffered sinks created on the cone are flushed before they are dropped (Drop swallows the flush error)
    rep.rule("R6", "a BufWriter created on the write cone is explicitly flushed with its error propagated")
    nbuf = 0
    for b in non_adapter.values():
        for c in b.calls():
            if not re.search(r"std::io::BufWriter::<W>::(new|with_capacity)$", c.decl):
                continue
            nbuf += 1
            holders = set()
            work = [c.dest["l"]]
            while work:
                l = work.pop()
                if l in holders:
                    continue
                holders.add(l)
                for (bb, idx, role, payload, pl) in b.uses(l):
                    if role == "use" and isinstance(payload, dict) and payload.get("k") == "assign" and not payload["lhs"]["p"]:
                        work.append(payload["lhs"]["l"])
            flushed = False
            for l in holders:
                for (w, i) in b.mut_borrow_calls(l):
                    if w.decl == "std::io::Write::flush" and i == 0:
                        via_q = any(isinstance(u[2], tuple) and b.call_at(u[0]).decl == "std::ops::Try::branch" for u in b.uses(w.dest["l"])) or w.dest["l"] == 0
                        # ... or handed back as the function's result, converted: `out.flush().map_err(Error::from)`
                        ret_conv = False
                        for u in b.uses(w.dest["l"]):
                            if isinstance(u[2], tuple):
                                uc = b.call_at(u[0])
                                if uc.decl.endswith("Result::<T, E>::map_err") and uc.dest["l"] in b.return_aliases() and not uc.dest["p"]:
                                    ret_conv = True
                        via_q = via_q or ret_conv
                        oks = set(ok_assign_blocks(b))
                        dominates_ok = all(b.dominates(w.bb, o) for o in oks) if oks else (w.dest["l"] == 0 or ret_conv)
                        if via_q and dominates_ok:
                            flushed = True
            rep.check(flushed, "R6", "%s|bufwriter-flushed" % fmt_key(b.path), "%s flushes its BufWriter and propagates the error" % fmt_key(b.path),
                      "%s wraps the sink in a BufWriter that is dropped without an explicit flush: the error of the final flush is swallowed and success is reported with bytes missing" % b.path, c.loc())
    rep.count("bufwriters_on_write_cone", nbuf)

    # R7 adapters count what the inner call transferred (C07.R4: bytes_read / written advance by the inner count)
    rep.rule("R7", "payload reader/writer account the bytes actually transferred (C07.R4)")
    rep.include("c07", f, fixture, cfg, tier, "R7", "payload adapter accounting", only_rules={"R4"}, floor=3)

    # R5 reads
    proots = _roots(f, PARSE_ROOTS)
    rep.anchor(len(proots) >= 4, "R5", "parse roots")
    pcone = f.cone(proots)
    pnon = {p: b for p, b in pcone.items() if b.impl_trait != IO_READ}
    hits, exact = check_short_calls(f, pnon, rep, "R5", SHORT_READ, "caller-supplied source", exact=EXACT_READ)
    rep.floor("R5", "read_exact/read_to_end sites on the parse cone", exact, 5)
    # a length-limited read (take + read_to_end) must be followed by a check that the full length arrived
    for b in pnon.values():
        for c in b.calls():
            if c.decl != "std::io::Read::take":
                continue
            tb = TermBuilder(b)
            want = render(tb.term(c.args[1]))
            guarded = False
            for bb in b.reachable():
                info = switch_info(b, bb)
                if info and info["kind"] == "cmp" and info["stmt"]["rv"]["op"] in ("Ne", "Eq"):
                    rv = info["stmt"]["rv"]
                    ts = [render(tb.term(rv["a"])), render(tb.term(rv["b"]))]
                    core = want.replace("u64(", "").rstrip(")") if want.startswith("u64(") else want
                    if any("Vec::<T, A>::len" in t for t in ts) and any(core in t for t in ts):
                        mism = info["true"] if rv["op"] == "Ne" else info["false"]
                        r = reach_from(b, mism)
                        if not (r & set(ok_assign_blocks(b))):
                            guarded = True
            rep.check(guarded, "R5", "%s|take-length-check" % fmt_key(b.path),
                      "%s: the take()-limited read is followed by a length check that turns a short input into an error" % b.path,
                      "%s: a take()-limited read is not followed by a check that all %s bytes arrived - truncated input would be accepted" % (b.path, want), c.loc())
    n = check_results(f, pnon, rep, "R3")
    rep.floor("R3", "Result-producing calls on the parse cone", n, 10)
    readers = [b for b in f.body_list if b.impl_trait == IO_READ and b.name == "read"]
    rep.floor("R5", "in-crate io::Read impls", len(readers), 1)
    for b in readers:
        ok, why = adapter_count_ok(b, "std::io::Read::read")
        rep.check(ok, "R5", "%s|count" % fmt_key(b.path), "%s returns the inner count (%s)" % (b.path, why),
                  "%s: %s" % (b.path, why), b.span)

    # positive controls ------------------------------------------------------------------
    ctl = Controls(fixture, rep)
    ctl.expect_short("c14_bare_write", SHORT_WRITE, True)
    ctl.expect_short("c14_retry_loop", SHORT_WRITE, False)
    ctl.expect_short("c14_bare_read", SHORT_READ, True)
    ctl.expect_dropped("c14_dropped_result", True)
    ctl.expect_dropped("c14_ok_dropped", True)
    ctl.expect_dropped("c14_bare_write", False)
    sink = [b for b in fixture.body_list if b.impl_trait == IO_WRITE and b.name == "write"]
    ok = bool(sink) and not adapter_count_ok(sink[0], "std::io::Write::write")[0]
    rep.check(ok, "control", "R4-control", "R4 control (adapter returning buf.len()) is flagged",
              "R4 positive control no longer matches: the rule is blind")


class Controls:
    def __init__(self, fixture, rep):
        self.fx = fixture
        self.rep = rep

    def expect_short(self, fn, names, flagged):
        b = self.fx.one(fn)
        got = False
        for c in b.calls():
            if c.decl in names and not in_retry_loop(b, c):
                got = True
        self.rep.check(got == flagged, "control", "short-control|" + fn,
                       "control %s %s as expected" % (fn, "flagged" if flagged else "accepted"),
                       "positive/negative control %s no longer behaves as expected: the rule is blind or over-eager" % fn)

    def expect_dropped(self, fn, flagged):
        b = self.fx.one(fn)
        got = False
        for c in b.calls():
            if c.dest and not c.dest["p"] and is_result_ty(b.local_ty(c.dest["l"])) and c.decl != "std::ops::FromResidual::from_residual":
                ok, _ = result_consumed(b, c.dest["l"])
                if not ok:
                    got = True
        self.rep.check(got == flagged, "control", "dropped-control|" + fn,
                       "control %s %s as expected" % (fn, "flagged" if flagged else "accepted"),
                       "control %s no longer behaves as expected" % fn)
