"""Helpers shared by several property rules."""
import re
from engine import op_place, proj_key, place_key, AnchorLost

PLUMBING_KEEP = (
    # Result/Option adaptors whose output still carries the verdict of the input
    r"^std::result::Result::<T, E>::(ok|err|map|map_err|or|or_else|and|and_then|as_ref|as_mut|inspect|inspect_err|copied|cloned)$",
    r"^std::option::Option::<T>::(ok_or|ok_or_else|map|or|or_else|and|and_then|as_ref|as_mut|filter)$",
)
PLUMBING_BOOL = (
    r"^std::result::Result::<T, E>::(is_ok|is_err)$",
    r"^std::option::Option::<T>::(is_some|is_none)$",
)


def _m(pats, name):
    return any(re.search(p, name) for p in pats)


def result_consumed(body, local, _seen=None, depth=0):
    """Does the value held in `local` (a Result/Option/bool verdict) reach a consumer: `?`
    (Try::branch), a match (discriminant read), a switch, the return place, or an arbitrary call
    (e.g. unwrap/expect)?  Returns (consumed: bool, how: str)."""
    if _seen is None:
        _seen = set()
    if local in _seen or depth > 12:
        return (False, "cycle")
    _seen.add(local)
    if local == 0:
        return (True, "returned")
    for (bb, idx, role, payload, pl) in body.uses(local):
        if role == "drop":
            continue
        if role == "discr":
            return (True, "matched")
        if role == "switch":
            return (True, "branched")
        if isinstance(role, tuple) and role[0] == "arg":
            c = body.call_at(bb)
            name = c.rpath or c.decl
            if _m(PLUMBING_KEEP, c.decl) or _m(PLUMBING_KEEP, name):
                if c.dest and not c.dest["p"]:
                    ok, how = result_consumed(body, c.dest["l"], _seen, depth + 1)
                    if ok:
                        return (True, how)
                continue
            if _m(PLUMBING_BOOL, c.decl) or _m(PLUMBING_BOOL, name):
                if c.dest and not c.dest["p"]:
                    ok, how = result_consumed(body, c.dest["l"], _seen, depth + 1)
                    if ok:
                        return (True, how)
                continue
            return (True, "passed to " + c.decl)
        if role in ("use", "cast", "agg", "ref", "refmut", "un") and isinstance(payload, dict) and payload.get("k") == "assign":
            lhs = payload["lhs"]
            ok, how = result_consumed(body, lhs["l"], _seen, depth + 1)
            if ok:
                return (True, how)
            continue
        if role in ("bin",):
            lhs = payload["lhs"]
            ok, how = result_consumed(body, lhs["l"], _seen, depth + 1)
            if ok:
                return (True, how)
    return (False, "dropped")


def is_result_ty(ty):
    return ty.startswith("std::result::Result<") or ty.startswith("core::result::Result<")


def ret_kind_of_block_assignments(body):
    """For each block, which Result variant is stored into _0 there: {'bb': 'Ok'|'Err'|'call:<path>'}"""
    out = {}
    for (bb, idx, kind, payload, lhs_proj) in body.defs(0):
        if kind == "assign":
            rv = payload["rv"]
            if rv["r"] == "agg" and rv.get("ak") == "adt" and rv.get("adt", "").endswith("result::Result"):
                out.setdefault(bb, []).append(rv["variant"])
            else:
                out.setdefault(bb, []).append("other")
        elif kind == "call":
            c = body.call_at(bb)
            out.setdefault(bb, []).append("call:" + c.decl)
    return out


def arg_root(leaves):
    """Set of argument locals that a list of origin leaves bottoms out in."""
    return {l["n"] for l in leaves if l["kind"] == "arg"}


def fmt_key(path):
    """Shorten a body path for finding keys (strip crate prefix)."""
    return re.sub(r"^rpm::", "", path)
