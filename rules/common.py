"""Helpers shared by several property rules."""
import re
from engine import op_place, proj_key, place_key, AnchorLost

PLUMBING_KEEP = (
    # Result/Option adaptors whose output still carries the verdict of the input
    r"^std::result::Result::<T, E>::(ok|err|map|map_err|or|or_else|and|and_then|as_ref|as_mut|inspect|inspect_err|copied|cloned)$",
    r"^std::option::Option::<T>::(ok_or|ok_or_else|map|or|or_else|and|and_then|as_ref|as_mut|filter)$",
)
PLUMBING_BOOL = (
    r"^std::result::Result::<T, E>::(is_ok|is_err)$",
    r"^std::option::Option::<T>::(is_some|is_none)$",
)


def _m(pats, name):
    return any(re.search(p, name) for p in pats)


def result_consumed(body, local, _seen=None, depth=0):
    """Does the value held in `local` (a Result/Option/bool verdict) reach a consumer: `?`
    (Try::branch), a match (discriminant read), a switch, the return place, or an arbitrary call
    (e.g. unwrap/expect)?  Returns (consumed: bool, how: str)."""
    if _seen is None:
        _seen = set()
    if local in _seen or depth > 12:
        return (False, "cycle")
    _seen.add(local)
    if local == 0:
        return (True, "returned")
    for (bb, idx, role, payload, pl) in body.uses(local):
        if role == "drop":
            continue
        if role == "discr":
            return (True, "matched")
        if role == "switch":
            return (True, "branched")
        if isinstance(role, tuple) and role[0] == "arg":
            c = body.call_at(bb)
            name = c.rpath or c.decl
            if _m(PLUMBING_KEEP, c.decl) or _m(PLUMBING_KEEP, name):
                if c.dest and not c.dest["p"]:
                    ok, how = result_consumed(body, c.dest["l"], _seen, depth + 1)
                    if ok:
                        return (True, how)
                continue
            if _m(PLUMBING_BOOL, c.decl) or _m(PLUMBING_BOOL, name):
                if c.dest and not c.dest["p"]:
                    ok, how = result_consumed(body, c.dest["l"], _seen, depth + 1)
                    if ok:
                        return (True, how)
                continue
            return (True, "passed to " + c.decl)
        if role in ("use", "cast", "agg", "ref", "refmut", "un") and isinstance(payload, dict) and payload.get("k") == "assign":
            lhs = payload["lhs"]
            ok, how = result_consumed(body, lhs["l"], _seen, depth + 1)
            if ok:
                return (True, how)
            continue
        if role in ("bin",):
            lhs = payload["lhs"]
            ok, how = result_consumed(body, lhs["l"], _seen, depth + 1)
            if ok:
                return (True, how)
    return (False, "dropped")


def is_result_ty(ty):
    return ty.startswith("std::result::Result<") or ty.startswith("core::result::Result<")


def ret_kind_of_block_assignments(body):
    """For each block, which Result variant is stored into _0 there: {'bb': 'Ok'|'Err'|'call:<path>'}"""
    out = {}
    for (bb, idx, kind, payload, lhs_proj) in body.defs(0):
        if kind == "assign":
            rv = payload["rv"]
            if rv["r"] == "agg" and rv.get("ak") == "adt" and rv.get("adt", "").endswith("result::Result"):
                out.setdefault(bb, []).append(rv["variant"])
            else:
                out.setdefault(bb, []).append("other")
        elif kind == "call":
            c = body.call_at(bb)
            out.setdefault(bb, []).append("call:" + c.decl)
    return out


def arg_root(leaves):
    """Set of argument locals that a list of origin leaves bottoms out in."""
    return {l["n"] for l in leaves if l["kind"] == "arg"}


def fmt_key(path):
    """Shorten a body path for finding keys (strip crate prefix)."""
    return re.sub(r"^rpm::", "", path)


# ---------------------------------------------------------------------------------------
# CFG helpers for Result-returning functions
# ---------------------------------------------------------------------------------------
from collections import deque


def ok_assign_blocks(body):
    """Blocks that store Ok(..) into the return place."""
    out = []
    for l, mode in body.return_aliases().items():
        if mode != "both":
            continue
        for (bb, idx, kind, payload, lhs_proj) in body.defs(l):
            if kind == "assign" and not lhs_proj:
                rv = payload["rv"]
                if rv["r"] == "agg" and rv.get("ak") == "adt" and rv["adt"].endswith("result::Result") and rv["variant"] == "Ok":
                    out.append(bb)
    return out


def err_assign_blocks(body):
    """[(bb, 'ErrorVariant' | None)] for blocks that store Err(..) into the return place."""
    out = []
    for l in body.return_aliases():
        for (bb, idx, kind, payload, lhs_proj) in body.defs(l):
            if kind == "assign" and not lhs_proj:
                rv = payload["rv"]
                if rv["r"] == "agg" and rv.get("ak") == "adt" and rv["adt"].endswith("result::Result") and rv["variant"] == "Err":
                    var = None
                    for lf in body.origins(rv["ops"][0]):
                        if lf["kind"] == "agg":
                            var = lf["stmt"]["rv"].get("variant")
                    out.append((bb, var))
    return out


def residual_return_blocks(body):
    """[(bb, Call)] for `?` error exits: _0 = FromResidual::from_residual(..)."""
    out = []
    for l in body.return_aliases():
        for (bb, idx, kind, payload, lhs_proj) in body.defs(l):
            if kind == "call":
                c = body.call_at(bb)
                if c.decl == "std::ops::FromResidual::from_residual":
                    out.append((bb, c))
    return out


def question_mark_source(body, residual_call):
    """The call whose Result a `?` exit propagates (the operand of the matching Try::branch)."""
    for lf in body.origins(residual_call.args[0], passthrough={}):
        if lf["kind"] == "call" and lf["call"].decl == "std::ops::Try::branch":
            br = lf["call"]
            srcs = [l2["call"] for l2 in body.origins(br.args[0], passthrough={}) if l2["kind"] == "call"]
            return srcs
    return []


def reach_from(body, start, blocked_edges=(), blocked_blocks=()):
    """Blocks reachable from `start` (inclusive) along normal edges not in blocked_edges."""
    blocked_edges = set(blocked_edges)
    blocked_blocks = set(blocked_blocks)
    seen = set()
    dq = deque([start])
    while dq:
        b = dq.popleft()
        if b in seen or b in blocked_blocks:
            continue
        seen.add(b)
        for s in body.succ(b):
            if (b, s) not in blocked_edges:
                dq.append(s)
    return seen


def switch_info(body, bb):
    """Describe what a SwitchInt block branches on.

    -> {'kind': 'discr', 'place': place dict, 'targets': {...}, 'otherwise': bb}
       {'kind': 'bool', 'call': Call, 'neg': bool, 'true': bb, 'false': bb}
       {'kind': 'cmp', 'stmt': stmt, 'neg': bool, 'true': bb, 'false': bb}
       {'kind': 'other'}"""
    t = body.term(bb)
    if t["t"] != "switch":
        return None
    pl = op_place(t["d"])
    targets = {int(v): b for v, b in t["targets"]}
    if pl is None:
        return {"kind": "other", "targets": targets, "otherwise": t["otherwise"]}
    if pl["p"]:
        # switch directly on a stored value (e.g. one byte of a matched slice)
        return {"kind": "value", "place": pl, "targets": targets, "otherwise": t["otherwise"]}
    neg = False
    l = pl["l"]
    for _ in range(8):
        ds = body.defs(l)
        if len(ds) != 1:
            return {"kind": "other", "targets": targets, "otherwise": t["otherwise"]}
        (dbb, idx, kind, payload, lhs_proj) = ds[0]
        if kind == "call":
            c = body.call_at(dbb)
            tb = targets.get(1, t["otherwise"])
            fb = targets.get(0, t["otherwise"])
            if neg:
                tb, fb = fb, tb
            return {"kind": "bool", "call": c, "neg": neg, "true": tb, "false": fb}
        rv = payload["rv"]
        if rv["r"] == "discr":
            vals = [int(v) for v in rv.get("vals", [])]
            dead = bool(vals) and set(vals) <= set(targets.keys())
            names = dict(zip(vals, rv.get("vnames", [])))
            return {"kind": "discr", "place": rv["p"], "targets": targets, "otherwise": t["otherwise"], "bb": dbb,
                    "enum": rv.get("enum"), "vals": vals, "otherwise_dead": dead, "names": names}
        if rv["r"] == "un" and rv["op"] == "Not":
            neg = not neg
            p2 = op_place(rv["a"])
            if p2 is None or p2["p"]:
                break
            l = p2["l"]
            continue
        if rv["r"] == "use":
            p2 = op_place(rv["o"])
            if p2 is None or p2["p"]:
                break
            l = p2["l"]
            continue
        if rv["r"] == "bin":
            tb = targets.get(1, t["otherwise"])
            fb = targets.get(0, t["otherwise"])
            if neg:
                tb, fb = fb, tb
            return {"kind": "cmp", "stmt": payload, "neg": neg, "true": tb, "false": fb}
        break
    return {"kind": "other", "targets": targets, "otherwise": t["otherwise"]}


def users_switches(body, local):
    """Switch blocks whose discriminee is (a copy / negation of) `local`."""
    out = []
    for b in body.reachable():
        if body.term(b)["t"] != "switch":
            continue
        pl = op_place(body.term(b)["d"])
        if pl is None or pl["p"]:
            continue
        l = pl["l"]
        seen = set()
        while l not in seen:
            seen.add(l)
            if l == local:
                out.append(b)
                break
            ds = body.defs(l)
            if len(ds) != 1 or ds[0][2] != "assign":
                break
            rv = ds[0][3]["rv"]
            src = None
            if rv["r"] == "use":
                src = op_place(rv["o"])
            elif rv["r"] == "un" and rv["op"] == "Not":
                src = op_place(rv["a"])
            if src is None or src["p"]:
                break
            l = src["l"]
    return out


def arms_of(body, info):
    """{variant name: target block} for a discriminant switch (the `otherwise` edge stands for every unlisted variant)."""
    out = {}
    names = info.get("names") or {}
    for v, n in names.items():
        out[n] = info["targets"].get(v, info["otherwise"])
    return out


def constructed_errors(f, b, depth=3):
    """Variants of the crate's Error enum that `b` or a closure it creates (map_err / ok_or_else arguments) constructs."""
    out = set()
    work = [(b, 0)]
    seen = set()
    while work:
        x, d = work.pop()
        if x.path in seen:
            continue
        seen.add(x.path)
        for bb in x.reachable():
            for st in x.stmts(bb):
                if st["k"] == "assign" and st["rv"]["r"] == "agg" and st["rv"].get("adt", "").endswith("errors::Error"):
                    out.add(st["rv"]["variant"])
        if d < depth:
            for cb in f.closures_of(x):
                work.append((cb, d + 1))
    return out


def call_leaves(b, op, depth=0, seen=None):
    """Calls whose results flow into `op` through moves, casts and arithmetic (pass-through calls are reported too)."""
    out = set()
    seen = seen if seen is not None else set()
    if depth > 8:
        return out
    for lf in b.origins(op):
        for v in lf.get("via", []) or []:
            out.add(v)
        if lf["kind"] == "call":
            out.add(lf["call"])
        elif lf["kind"] in ("bin", "un", "cast") and lf.get("stmt") is not None:
            key = id(lf["stmt"])
            if key in seen:
                continue
            seen.add(key)
            rv = lf["stmt"]["rv"]
            for k2 in ("o", "a", "b"):
                if rv.get(k2) is not None:
                    out |= call_leaves(b, rv[k2], depth + 1, seen)
    return out


def ok_payload_terms(f, b):
    """Rendered terms of the values `b` can return inside Ok(..): the payload of every `Ok{..}` it builds, looking through
    `.map_err(..)` and `.map(closure)` on a Result it returns as a whole (the closure's value, its parameter bound to the Ok payload)."""
    from terms import TermBuilder, render
    import idioms
    tb = TermBuilder(b)
    out = []

    def walk(t, depth=0):
        if depth > 8 or not isinstance(t, tuple) or not t:
            out.append("?")
            return
        if t[0] == "phi":
            for a in t[1]:
                walk(a, depth + 1)
            return
        if t[0] == "agg" and str(t[1]).endswith("Result::Ok") and t[2]:
            out.append(render(t[2][0]))
            return
        if t[0] == "agg" and str(t[1]).endswith("Result::Err"):
            return
        if t[0] == "call" and t[1].endswith("FromResidual::from_residual"):
            return
        if t[0] == "call" and t[1].endswith("Result::<T, E>::map_err") and t[2]:
            walk(t[2][0], depth + 1)
            return
        if t[0] == "call" and t[1].endswith("Result::<T, E>::map") and len(t[2]) == 2:
            ret, _pn = idioms._closure_ret(f, t[2][1])
            if ret is not None:
                out.append(render(ret))
                return
        out.append(render(t))
    walk(tb.term({"l": 0, "p": []}))
    return out


def per_element_calls(f, body, call, rx):
    """For `iter.try_for_each(closure)` / `for_each`: the closure's calls matching `rx`, each with the term of its first argument
    (closure environment resolved: the closure's item reads `Iterator::next(<iterator>)`).  -> [(Call, rendered first-argument term)]"""
    from terms import TermBuilder, render
    if not re.search(r"^std::iter::Iterator::(try_for_each|for_each)$", call.decl) or len(call.args) < 2:
        return []
    out = []
    for lf in body.origins(call.args[-1], passthrough={}):
        if lf["kind"] == "agg" and lf["stmt"]["rv"].get("ak") == "closure":
            cb = f.bodies.get(lf["stmt"]["rv"]["closure"])
            if cb is None:
                continue
            tcb = TermBuilder(cb, closure_env=True)
            for c in cb.calls():
                if re.search(rx, c.decl) and c.args:
                    out.append((c, render(tcb.term(c.args[0]))))
    return out
