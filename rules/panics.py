"""Panic / abort / allocation site enumeration over MIR bodies (used by C04, C12, C15, C17, C19, C20)."""
import re
from engine import op_place, proj_key

PANIC_CALL_RX = [
    (r"^std::ops::Index(Mut)?::index(_mut)?$", "index"),
    (r"^std::option::Option::<T>::(unwrap|expect)$", "unwrap"),
    (r"^std::result::Result::<T, E>::(unwrap|expect|unwrap_err|expect_err)$", "unwrap"),
    (r"^core::panicking::", "panic"),
    (r"^std::rt::(begin_panic|panic_fmt)", "panic"),
    (r"^std::panicking::", "panic"),
    (r"^core::slice::index::", "panic"),
    (r"^core::str::slice_error_fail", "panic"),
    (r"^core::option::(unwrap_failed|expect_failed)", "panic"),
    (r"^core::result::unwrap_failed", "panic"),
    (r"^std::ops::Index(Mut)?::index(_mut)?$", "index"),
    (r"<impl \[T\]>::(split_at|split_at_mut|copy_from_slice|clone_from_slice|swap|rotate_left|rotate_right|chunks|chunks_exact|windows|copy_within)$", "slice-precondition"),
    (r"^core::str::<impl str>::(split_at|split_at_mut)$", "slice-precondition"),
    (r"^std::vec::Vec::<T, A>::(remove|insert|swap_remove|split_off|drain|truncate_front)$", "vec-precondition"),
    (r"^std::string::String::(remove|insert|insert_str|split_off|drain|replace_range)$", "vec-precondition"),
    (r"^std::iter::Iterator::step_by$", "slice-precondition"),
    (r"^std::cell::RefCell::<T>::(borrow|borrow_mut)$", "refcell"),
    (r"^core::num::<impl [ui]\d+>::(pow|abs|div_euclid|rem_euclid|next_power_of_two|ilog2|ilog10|ilog)$", "arith-fn"),
    (r"^core::num::<impl usize>::(pow|next_power_of_two|ilog2|ilog10)$", "arith-fn"),
    (r"^std::time::(Instant|SystemTime)::(add|sub)$", "time-arith"),
    (r"^std::io::BufRead::consume$", "bufread-consume"),                          # <&[u8]>::consume slices out of range when amt > what fill_buf returned
    (r"^std::iter::(Iterator|Sum|Product)::(sum|product)$", "iter-arith"),        # integer accumulation inherits overflow checks
    (r"^std::thread::(?!available_parallelism$)", "thread"),       # available_parallelism() returns an io::Result and spawns nothing
]
ALLOC_CALL_RX = [
    (r"^std::vec::from_elem$", 1),                                  # vec![x; n]
    (r"^std::vec::Vec::<T>::with_capacity$", 0),
    (r"^std::vec::Vec::<T, A>::(reserve|reserve_exact)$", 1),
    (r"^std::vec::Vec::<T, A>::(resize|resize_with)$", 1),
    (r"^std::string::String::with_capacity$", 0),
    (r"^std::string::String::(reserve|reserve_exact)$", 1),
    (r"<impl \[T\]>::repeat$", 1),
    (r"^core::str::<impl str>::repeat$", 1),
    (r"^std::collections::(HashMap|HashSet|VecDeque|BTreeMap)::.*with_capacity", 0),
    (r"^std::io::BufReader::<R>::with_capacity$", 0),
]
IGNORED_ASSERTS = ("MisalignedPointerDereference", "NullPointerDereference", "InvalidEnumConstruction")


class Site:
    __slots__ = ("body", "bb", "kind", "what", "operands", "line", "exp", "call", "term", "ordinal")

    def __init__(self, body, bb, kind, what, operands, line, exp, call=None, term=None):
        self.body, self.bb, self.kind, self.what, self.operands = body, bb, kind, what, operands
        self.line, self.exp, self.call, self.term = line, exp, call, term
        self.ordinal = 0

    def loc(self):
        return "%s:%s" % (self.body.file, self.line)

    def macro(self):
        for m in self.exp:
            if m in ("debug_assert", "debug_assert_eq", "debug_assert_ne", "assert", "assert_eq", "assert_ne", "unreachable", "panic", "todo", "unimplemented"):
                return m
        return None


def enumerate_sites(body, include_alloc=True):
    """All panic-capable / allocation sites of one body, each with a stable ordinal among equals."""
    sites = []
    for bb in sorted(body.reachable()):
        t = body.term(bb)
        if t["t"] == "assert":
            k = t["kind"]
            if k.startswith(IGNORED_ASSERTS):
                continue
            sites.append(Site(body, bb, "assert", k, t.get("ops", []), t.get("line"), t.get("exp", []), term=t))
        elif t["t"] == "call":
            c = body.call_at(bb)
            name = c.decl
            matched = False
            for rx, kind in PANIC_CALL_RX:
                if re.search(rx, name) or (kind != "index" and c.rpath and re.search(rx, c.rpath)):
                    what = name
                    if kind == "index":
                        what = "%s on %s" % (name.rsplit("::", 1)[-1], (c.self_ty or "?"))
                    sites.append(Site(body, bb, kind, what, c.args, c.line, c.exp, call=c, term=t))
                    matched = True
                    break
            if not matched and include_alloc:
                for rx, argi in ALLOC_CALL_RX:
                    if re.search(rx, name) or (c.rpath and re.search(rx, c.rpath)):
                        sites.append(Site(body, bb, "alloc", name, c.args[argi:argi + 1], c.line, c.exp, call=c, term=t))
                        break
    # ordinals among (kind, what) in block order
    seen = {}
    for s in sites:
        k = (s.kind, s.what)
        s.ordinal = seen.get(k, 0)
        seen[k] = s.ordinal + 1
    return sites
