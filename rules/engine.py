"""E2: analyses over the MIR fact files written by the rpmfacts driver.

Everything here is static: it reads the JSON description of /repo's type-checked program
(MIR at mir-opt-level 0, resolved callees, evaluated constants) and offers

  * Facts / Body / Call wrappers
  * CFG utilities (successors without unwind edges, dominators, post-dominators, loops)
  * def/use indexes and a backward provenance trace (`Body.origins`)
  * the in-crate call graph and cones
  * a product-state explorer used for path-sensitive rules (`explore`)
"""
import json
import os
import re
from collections import defaultdict, deque

# ---------------------------------------------------------------------------------------
# places / operands
# ---------------------------------------------------------------------------------------


def proj_key(p):
    """Hashable, printable form of one projection element."""
    if p == "*":
        return "*"
    if isinstance(p, str):
        return p
    if "f" in p:
        return ".%s" % p["n"]
    if "d" in p:
        return "as %s" % p["d"]
    if "i" in p:
        return "[_%d]" % p["i"]
    if "ci" in p:
        return "[%s%d]" % ("-" if p["fe"] else "", p["ci"])
    if "ss" in p:
        return "[%d..%s%d]" % (p["ss"][0], "-" if p["fe"] else "", p["ss"][1])
    return str(p)


def place_key(pl):
    return (pl["l"], tuple(proj_key(p) for p in pl["p"]))


def place_str(pl, body=None):
    l = pl["l"]
    name = None
    if body is not None:
        name = body.local_name(l)
    s = name or "_%d" % l
    for p in pl["p"]:
        k = proj_key(p)
        if k == "*":
            s = "(*%s)" % s
        else:
            s = "%s %s" % (s, k) if k.startswith("as ") else s + k
    return s


def op_place(op):
    if "c" in op:
        return op["c"]
    if "m" in op:
        return op["m"]
    return None


def op_const(op):
    return op.get("k")


def const_int(op):
    """Integer value of a constant operand (unsigned bit pattern), else None."""
    k = op.get("k") if isinstance(op, dict) else None
    if not k or "bits" not in k:
        return None
    return int(k["bits"])


def const_signed(op):
    k = op.get("k") if isinstance(op, dict) else None
    if not k or "bits" not in k:
        return None
    v = int(k["bits"])
    size = k.get("size", 8)
    ty = k.get("ty", "")
    if ty.startswith("i") and ty[1:].isdigit() or ty == "isize":
        if v >= 1 << (8 * size - 1):
            v -= 1 << (8 * size)
    return v


def const_str(op):
    """Rust literal text of a constant operand: for &str constants the unquoted string."""
    k = op.get("k") if isinstance(op, dict) else None
    if not k:
        return None
    s = k.get("ev") or k.get("s")
    return s


def unquote(s):
    if s is None:
        return None
    m = re.match(r'^(?:const )?b?"(.*)"$', s, re.S)
    if m:
        body = m.group(1)
        try:
            return bytes(body, "utf-8").decode("unicode_escape")
        except Exception:
            return body
    return None


# ---------------------------------------------------------------------------------------
class Call:
    __slots__ = ("body", "bb", "term", "fn", "decl", "full", "rpath", "rfull", "rlocal", "trait",
                 "self_ty", "impl_self", "args", "dest", "target", "line", "exp", "gargs", "local", "host_bb")

    def __init__(self, body, bb, term):
        self.body = body
        self.bb = bb
        self.term = term
        k = term["func"].get("k") or {}
        fn = k.get("fn")
        self.fn = fn
        if fn:
            self.decl = fn["path"]
            self.full = fn["full"]
            self.local = fn["local"]
            r = fn.get("r")
            self.rpath = r["path"] if r else None
            self.rfull = r["full"] if r else None
            self.rlocal = r["local"] if r else False
            self.trait = fn.get("trait")
            self.self_ty = fn.get("self_ty")
            self.impl_self = fn.get("impl_self")
            self.gargs = fn.get("gargs", [])
        else:
            self.decl = "<indirect>"
            self.full = "<indirect>"
            self.local = False
            self.rpath = self.rfull = None
            self.rlocal = False
            self.trait = self.self_ty = self.impl_self = None
            self.gargs = []
        self.args = term.get("args", [])
        self.dest = term.get("dest")
        self.target = term.get("target")
        self.line = term.get("line")
        self.exp = term.get("exp", [])

    @property
    def name(self):
        """Most specific callee path known."""
        return self.rpath or self.decl

    def is_(self, *names):
        return self.decl in names or (self.rpath in names if self.rpath else False)

    def matches(self, rx):
        return bool(re.search(rx, self.decl) or re.search(rx, self.full) or
                    (self.rpath and re.search(rx, self.rpath)) or (self.rfull and re.search(rx, self.rfull)))

    def loc(self):
        return "%s:%s" % (self.body.file, self.line)

    def __repr__(self):
        return "<call %s @%s bb%d>" % (self.full, self.loc(), self.bb)


class Body:
    def __init__(self, d, facts):
        self.d = d
        self.facts = facts
        self.path = d["path"]
        self.blocks = d["blocks"]
        self.locals = d["locals"]
        self.argc = d["argc"]
        self.span = d["span"]
        self.file = self.span.rsplit(":", 1)[0]
        self.kind = d["kind"]
        self.name = d.get("name")
        self.impl_self = d.get("impl_self")
        self.impl_trait = d.get("impl_trait")
        self.impl_trait_full = d.get("impl_trait_full")
        self.vis = d.get("vis")
        self.derived = d.get("derived", False)
        self.closure_of = d.get("closure_of")
        self.inl_rets = d.get("inl_rets", [])
        self._ret_alias = None
        self._succ = None
        self._pred = None
        self._dom = None
        self._pdom = None
        self._defs = None
        self._uses = None
        self._calls = None
        self._reach = None

    def self_aliases(self):
        """Locals that hold the receiver reference itself: `_1` and its plain copies / reborrows `&mut *_1` (a helper spliced
        into a method receives the receiver under a local of its own)."""
        alias = {1}
        changed = True
        while changed:
            changed = False
            for bb in self.reachable():
                for st in self.stmts(bb):
                    if st["k"] != "assign" or st["lhs"]["p"] or st["lhs"]["l"] in alias:
                        continue
                    rv = st["rv"]
                    src = None
                    if rv["r"] == "ref" and rv["p"]["l"] in alias and [proj_key(p) for p in rv["p"]["p"]] == ["*"]:
                        src = rv["p"]["l"]
                    elif rv["r"] == "use" and op_place(rv["o"]) is not None and op_place(rv["o"])["l"] in alias and not op_place(rv["o"])["p"]:
                        src = op_place(rv["o"])["l"]
                    if src is not None and len([d for d in self.defs(st["lhs"]["l"]) if not d[4]]) == 1:
                        alias.add(st["lhs"]["l"])
                        changed = True
        return alias

    def return_aliases(self):
        """Locals that stand for the return place because an inlined helper's result is handed on unchanged:
        {local: 'both'} when the helper call's destination is the return place itself (`return helper(..)` / tail call),
        {local: 'err'} when the destination is only consumed by `?` (the helper's Err becomes this function's Err)."""
        if self._ret_alias is None:
            al = {0: "both"}
            changed = True
            n = 0
            while changed and n < 8:
                changed = False
                n += 1
                for r in self.inl_rets:
                    if r["local"] in al:
                        continue
                    d = r["dest"]
                    if d["p"]:
                        continue
                    if d["l"] in al:
                        al[r["local"]] = al[d["l"]]
                        changed = True
                        continue
                    uses = [u for u in self.uses(d["l"]) if u[2] != "drop"]
                    calls = [self.call_at(u[0]) for u in uses if isinstance(u[2], tuple)]
                    if uses and len(calls) == len(uses) and all(c is not None and c.decl == "std::ops::Try::branch" for c in calls):
                        al[r["local"]] = "err"
                        changed = True
            self._ret_alias = al
        return self._ret_alias

    # ---- basic -------------------------------------------------------------------
    def local_name(self, l):
        return self.locals[l]["name"]

    def local_ty(self, l):
        return self.locals[l]["ty"]

    def local_by_name(self, name):
        return [i for i, l in enumerate(self.locals) if l["name"] == name]

    def term(self, bb):
        return self.blocks[bb]["term"]

    def stmts(self, bb):
        return self.blocks[bb]["stmts"]

    def is_cleanup(self, bb):
        return self.blocks[bb]["cleanup"]

    def succ(self, bb):
        """Normal (non-unwind) successors."""
        if self._succ is None:
            self._succ = [self._succ_of(i) for i in range(len(self.blocks))]
        return self._succ[bb]

    def _succ_of(self, bb):
        t = self.blocks[bb]["term"]
        k = t["t"]
        if k == "goto":
            return [t["target"]]
        if k == "switch":
            out = []
            for _, b in t["targets"]:
                if b not in out:
                    out.append(b)
            if t["otherwise"] not in out:
                out.append(t["otherwise"])
            return out
        if k in ("call",):
            return [t["target"]] if t["target"] is not None else []
        if k in ("drop", "assert"):
            return [t["target"]]
        return []

    def pred(self, bb):
        if self._pred is None:
            self._pred = [[] for _ in self.blocks]
            for i in range(len(self.blocks)):
                for s in self.succ(i):
                    self._pred[s].append(i)
        return self._pred[bb]

    def reachable(self):
        """Blocks reachable from entry along normal edges (cleanup excluded)."""
        if self._reach is None:
            seen = {0}
            dq = deque([0])
            while dq:
                b = dq.popleft()
                for s in self.succ(b):
                    if s not in seen:
                        seen.add(s)
                        dq.append(s)
            self._reach = seen
        return self._reach

    def return_blocks(self):
        return [b for b in self.reachable() if self.term(b)["t"] == "return"]

    # ---- dominators ----------------------------------------------------------------
    def dominators(self):
        """dom[b] = set of blocks dominating b (normal edges, from entry)."""
        if self._dom is None:
            reach = sorted(self.reachable())
            allb = set(reach)
            dom = {b: set(allb) for b in reach}
            dom[0] = {0}
            changed = True
            order = self._rpo()
            while changed:
                changed = False
                for b in order:
                    if b == 0:
                        continue
                    ps = [p for p in self.pred(b) if p in dom]
                    if not ps:
                        continue
                    new = set.intersection(*(dom[p] for p in ps)) | {b}
                    if new != dom[b]:
                        dom[b] = new
                        changed = True
            self._dom = dom
        return self._dom

    def _rpo(self):
        seen = set()
        order = []

        def dfs(b):
            stack = [(b, iter(self.succ(b)))]
            seen.add(b)
            while stack:
                n, it = stack[-1]
                adv = False
                for s in it:
                    if s not in seen:
                        seen.add(s)
                        stack.append((s, iter(self.succ(s))))
                        adv = True
                        break
                if not adv:
                    order.append(n)
                    stack.pop()
        dfs(0)
        order.reverse()
        return order

    def dominates(self, a, b):
        d = self.dominators()
        return b in d and a in d[b]

    def postdominators(self):
        """pdom[b] = blocks that post-dominate b w.r.t. normal exits (return blocks)."""
        if self._pdom is None:
            reach = self.reachable()
            exits = [b for b in reach if not self.succ(b)]
            allb = set(reach)
            pdom = {b: set(allb) for b in reach}
            for e in exits:
                pdom[e] = {e}
            changed = True
            while changed:
                changed = False
                for b in reach:
                    if b in exits:
                        continue
                    ss = [s for s in self.succ(b) if s in pdom]
                    if not ss:
                        continue
                    new = set.intersection(*(pdom[s] for s in ss)) | {b}
                    if new != pdom[b]:
                        pdom[b] = new
                        changed = True
            self._pdom = pdom
        return self._pdom

    def back_edges(self):
        out = []
        for b in self.reachable():
            for s in self.succ(b):
                if self.dominates(s, b):
                    out.append((b, s))
        return out

    def loops(self):
        """Natural loops: list of (header, set(body blocks))."""
        loops = {}
        for (tail, head) in self.back_edges():
            body = {head, tail}
            stack = [tail]
            while stack:
                n = stack.pop()
                if n == head:
                    continue
                for p in self.pred(n):
                    if p not in body and p in self.reachable():
                        body.add(p)
                        stack.append(p)
            loops.setdefault(head, set()).update(body)
        return list(loops.items())

    def can_reach(self, a, b, avoid=()):
        """Is there a normal-edge path a ->+ b (at least one edge) avoiding blocks in `avoid`?"""
        seen = set()
        dq = deque(self.succ(a))
        while dq:
            n = dq.popleft()
            if n in seen or n in avoid:
                continue
            if n == b:
                return True
            seen.add(n)
            dq.extend(self.succ(n))
        return False

    # ---- calls -----------------------------------------------------------------------
    def calls(self, include_cleanup=False):
        if self._calls is None:
            self._calls = []
            for bb, bl in enumerate(self.blocks):
                if bl["term"]["t"] == "call":
                    self._calls.append(Call(self, bb, bl["term"]))
        if include_cleanup:
            return self._calls
        reach = self.reachable()
        return [c for c in self._calls if c.bb in reach]

    def call_at(self, bb):
        t = self.term(bb)
        if t["t"] == "call":
            for c in self.calls(True):
                if c.bb == bb:
                    return c
        return None

    # ---- defs / uses -----------------------------------------------------------------
    def _index(self):
        if self._defs is not None:
            return
        defs = defaultdict(list)   # local -> [(bb, idx, kind, payload, lhs_proj)]
        uses = defaultdict(list)   # local -> [(bb, idx, role, payload)]

        def use_op(op, bb, idx, role, payload):
            pl = op_place(op)
            if pl is not None:
                uses[pl["l"]].append((bb, idx, role, payload, pl))
                for p in pl["p"]:
                    if isinstance(p, dict) and "i" in p:
                        uses[p["i"]].append((bb, idx, "index", payload, pl))

        for bb, bl in enumerate(self.blocks):
            for idx, st in enumerate(bl["stmts"]):
                if st["k"] == "assign":
                    lhs = st["lhs"]
                    defs[lhs["l"]].append((bb, idx, "assign", st, lhs["p"]))
                    for p in lhs["p"]:
                        if isinstance(p, dict) and "i" in p:
                            uses[p["i"]].append((bb, idx, "index", st, lhs))
                    rv = st["rv"]
                    r = rv["r"]
                    if r in ("use", "cast", "un", "repeat"):
                        use_op(rv.get("o") or rv.get("a"), bb, idx, r, st)
                    elif r == "bin":
                        use_op(rv["a"], bb, idx, "bin", st)
                        use_op(rv["b"], bb, idx, "bin", st)
                    elif r in ("ref", "rawptr", "discr"):
                        pl = rv["p"]
                        role = "refmut" if (r == "ref" and rv.get("mut")) else ("rawptr" if r == "rawptr" else r)
                        uses[pl["l"]].append((bb, idx, role, st, pl))
                        for p in pl["p"]:
                            if isinstance(p, dict) and "i" in p:
                                uses[p["i"]].append((bb, idx, "index", st, pl))
                    elif r == "agg":
                        for o in rv["ops"]:
                            use_op(o, bb, idx, "agg", st)
                elif st["k"] == "setdiscr":
                    defs[st["lhs"]["l"]].append((bb, idx, "setdiscr", st, st["lhs"]["p"]))
            t = bl["term"]
            k = t["t"]
            if k == "call":
                d = t["dest"]
                defs[d["l"]].append((bb, "term", "call", t, d["p"]))
                use_op(t["func"], bb, "term", "callee", t)
                for i, a in enumerate(t["args"]):
                    use_op(a, bb, "term", ("arg", i), t)
            elif k == "switch":
                use_op(t["d"], bb, "term", "switch", t)
            elif k == "assert":
                use_op(t["cond"], bb, "term", "assert", t)
                for o in t.get("ops", []):
                    use_op(o, bb, "term", "assertop", t)
            elif k == "drop":
                uses[t["p"]["l"]].append((bb, "term", "drop", t, t["p"]))
        self._defs = defs
        self._uses = uses

    def defs(self, local):
        self._index()
        return self._defs.get(local, [])

    def uses(self, local):
        self._index()
        return self._uses.get(local, [])

    # ---- provenance ------------------------------------------------------------------
    def origins(self, op_or_place, passthrough=None, max_nodes=4000, through_refmut=False):
        """Backward trace of a value.

        Returns a list of leaves.  Each leaf is a dict with key 'kind':
          const  : {'kind','k' (const dict)}
          arg    : {'kind','n' (1-based arg local), 'proj' (tuple of proj keys)}
          call   : {'kind','call' (Call), 'proj'}      -- result of a non-pass-through call
          agg    : {'kind','stmt','bb','proj'}          -- aggregate that is not projected into
          bin/un/cast/discr/len/repeat : {'kind','stmt','bb'}
          unknown: {'kind','why'}
        `proj` is the residual projection (outermost last) still to be applied to that leaf.
        Pass-through calls (see PASS_THROUGH) are traversed; the calls traversed are collected
        in leaf['via'] (list of Call).
        """
        if passthrough is None:
            passthrough = PASS_THROUGH
        leaves = []
        seen = set()
        budget = [max_nodes]

        def start(x):
            if "l" in x and "p" in x:
                return x
            pl = op_place(x)
            if pl is not None:
                return pl
            return None

        def add_leaf(leaf, via):
            leaf["via"] = list(via)
            leaves.append(leaf)

        def trace_place(l, proj, via):
            # proj: tuple of proj keys to apply to local l (innermost first)
            key = (l, proj)
            if key in seen:
                return
            seen.add(key)
            budget[0] -= 1
            if budget[0] <= 0:
                add_leaf({"kind": "unknown", "why": "budget"}, via)
                return
            ds = self.defs(l)
            if 1 <= l <= self.argc:
                add_leaf({"kind": "arg", "n": l, "proj": proj, "ty": self.local_ty(l)}, via)
                # an argument may also be reassigned in the body; fall through to its defs
            if not ds and not (1 <= l <= self.argc):
                add_leaf({"kind": "unknown", "why": "nodef:_%d" % l}, via)
                return
            for (bb, idx, kind, payload, lhs_proj) in ds:
                lhsk = tuple(proj_key(p) for p in lhs_proj)
                if lhsk:
                    # partial assignment `l.proj = ...`: relevant only if it is a prefix of what we read
                    n = len(lhsk)
                    if proj[:n] != lhsk:
                        # writing a different field / or we read the whole: approximate: whole reads see it
                        if proj and proj[:min(len(proj), n)] != lhsk[:min(len(proj), n)]:
                            continue
                        rest = ()
                    else:
                        rest = proj[n:]
                else:
                    rest = proj
                if kind == "assign":
                    trace_rvalue(payload, bb, rest, via)
                elif kind == "call":
                    trace_call(self.call_at(bb), rest, via)
                elif kind == "setdiscr":
                    add_leaf({"kind": "setdiscr", "stmt": payload, "bb": bb}, via)

        def trace_op(op, proj, via):
            pl = op_place(op)
            if pl is not None:
                trace_place(pl["l"], tuple(proj_key(p) for p in pl["p"]) + proj, via)
            elif "k" in op:
                add_leaf({"kind": "const", "k": op["k"], "proj": proj}, via)
            else:
                add_leaf({"kind": "unknown", "why": "operand"}, via)

        def trace_rvalue(st, bb, proj, via):
            rv = st["rv"]
            r = rv["r"]
            if r == "use":
                trace_op(rv["o"], proj, via)
            elif r == "ref" or r == "rawptr":
                pl = rv["p"]
                # reading through the reference: `*` cancels
                if proj and proj[0] == "*":
                    trace_place(pl["l"], tuple(proj_key(p) for p in pl["p"]) + proj[1:], via)
                else:
                    trace_place(pl["l"], tuple(proj_key(p) for p in pl["p"]) + (("&",) + proj if False else proj), via)
            elif r == "cast":
                ck = rv["ck"]
                if ck.startswith("PointerCoercion") or ck in ("PtrToPtr", "Transmute"):
                    trace_op(rv["o"], proj, via)
                else:
                    add_leaf({"kind": "cast", "stmt": st, "bb": bb, "ck": ck, "proj": proj}, via)
            elif r == "agg":
                if proj and rv["ak"] in ("tuple", "adt", "array", "closure"):
                    p0 = proj[0]
                    rest = proj[1:]
                    if p0.startswith("as "):
                        # downcast on an aggregate of that variant
                        if rv["ak"] == "adt" and p0[3:] == rv["variant"]:
                            p0 = rest[0] if rest else None
                            rest = rest[1:]
                        else:
                            return  # other variant: infeasible
                    if p0 is None:
                        add_leaf({"kind": "agg", "stmt": st, "bb": bb, "proj": ()}, via)
                        return
                    if p0.startswith("."):
                        fname = p0[1:]
                        idx = None
                        if rv["ak"] == "adt":
                            if fname in rv["fields"]:
                                idx = rv["fields"].index(fname)
                        else:
                            if fname.isdigit():
                                idx = int(fname)
                        if idx is not None and idx < len(rv["ops"]):
                            trace_op(rv["ops"][idx], rest, via)
                            return
                    add_leaf({"kind": "agg", "stmt": st, "bb": bb, "proj": proj}, via)
                else:
                    add_leaf({"kind": "agg", "stmt": st, "bb": bb, "proj": proj}, via)
            elif r in ("bin", "un", "discr", "repeat"):
                add_leaf({"kind": r, "stmt": st, "bb": bb, "proj": proj}, via)
            else:
                add_leaf({"kind": "unknown", "why": "rvalue:" + r, "stmt": st, "bb": bb}, via)

        def trace_call(call, proj, via):
            if call is not None and call.decl == "std::ops::FromResidual::from_residual" and proj and proj[0] in ("as Ok", "as Some"):
                return  # `?` error exit: never produces the success variant
            summ = passthrough_summary(call, passthrough)
            if summ is None:
                add_leaf({"kind": "call", "call": call, "proj": proj}, via)
                return
            nproj = summ["proj"](proj) if summ.get("proj") else proj
            for ai in summ["args"]:
                if ai < len(call.args):
                    trace_op(call.args[ai], nproj, via + [call])

        st = start(op_or_place)
        if st is None:
            if isinstance(op_or_place, dict) and "k" in op_or_place:
                return [{"kind": "const", "k": op_or_place["k"], "proj": (), "via": []}]
            return [{"kind": "unknown", "why": "not a place", "via": []}]
        trace_place(st["l"], tuple(proj_key(p) for p in st["p"]), [])
        return leaves

    # ---- mutable-borrow writers ---------------------------------------------------------
    def mut_borrow_calls(self, local):
        """Calls that receive `&mut local` (possibly through reborrow temporaries / unsize casts).

        Returns list of (Call, arg_index)."""
        self._index()
        out = []
        work = []
        seen = set()
        for (bb, idx, role, payload, pl) in self.uses(local):
            if role == "refmut" and not pl["p"] or (role == "refmut" and all(proj_key(p) != "*" for p in pl["p"])):
                work.append(payload["lhs"]["l"])
        while work:
            t = work.pop()
            if t in seen:
                continue
            seen.add(t)
            for (bb, idx, role, payload, pl) in self.uses(t):
                if isinstance(role, tuple) and role[0] == "arg":
                    c = self.call_at(bb)
                    if c:
                        out.append((c, role[1]))
                elif role in ("use", "cast") and isinstance(payload, dict) and payload.get("k") == "assign":
                    work.append(payload["lhs"]["l"])
                elif role == "refmut" and isinstance(payload, dict) and payload.get("k") == "assign":
                    # reborrow &mut *t
                    work.append(payload["lhs"]["l"])
        return out


# ---------------------------------------------------------------------------------------
# pass-through summaries (trusted table; one line of justification each)
# ---------------------------------------------------------------------------------------

def _strip_continue(proj):
    # `(x as Continue).0` of Try::branch(r)  ==  `(r as Ok).0`
    if len(proj) >= 2 and proj[0] == "as Continue" and proj[1] == ".0":
        return ("as Ok", ".0") + proj[2:]
    if len(proj) >= 2 and proj[0] == "as Break" and proj[1] == ".0":
        return ("as Err", ".0") + proj[2:]
    return proj


def _ident(proj):
    return proj


def _drop_all(proj):
    return ()


PASS_THROUGH = {
    # `?` desugaring: Continue(x) is the Ok payload of the operand
    "std::ops::Try::branch": {"args": [0], "proj": _strip_continue},
    # reference / view conversions: same underlying value
    "std::ops::Deref::deref": {"args": [0], "proj": _ident},
    "std::ops::DerefMut::deref_mut": {"args": [0], "proj": _ident},
    "std::convert::AsRef::as_ref": {"args": [0], "proj": _ident},
    "std::borrow::Borrow::borrow": {"args": [0], "proj": _ident},
    "std::vec::Vec::<T, A>::as_slice": {"args": [0], "proj": _ident},
    "digest::generic_array::GenericArray::<T, N>::as_slice": {"args": [0], "proj": _ident},
    "std::array::<impl [T; N]>::as_slice": {"args": [0], "proj": _ident},
    "core::array::<impl [T; N]>::as_slice": {"args": [0], "proj": _ident},
    "std::string::String::as_str": {"args": [0], "proj": _ident},
    "std::string::String::as_bytes": {"args": [0], "proj": _ident},
    "core::str::<impl str>::as_bytes": {"args": [0], "proj": _ident},
    # value-preserving conversions / copies
    "std::convert::Into::into": {"args": [0], "proj": _ident},
    "std::convert::From::from": {"args": [0], "proj": _ident},
    "std::clone::Clone::clone": {"args": [0], "proj": _ident},
    "std::borrow::ToOwned::to_owned": {"args": [0], "proj": _ident},
    "std::string::ToString::to_string": {"args": [0], "proj": _ident},
    "core::slice::<impl [T]>::to_vec": {"args": [0], "proj": _ident},
    "std::slice::<impl [T]>::to_vec": {"args": [0], "proj": _ident},
    "core::slice::<impl [T]>::iter": {"args": [0], "proj": _ident},
    "std::iter::IntoIterator::into_iter": {"args": [0], "proj": _ident},
    # Result / Option plumbing that keeps the success payload
    "std::result::Result::<T, E>::map_err": {"args": [0], "proj": _ident},
    # `inspect` / `inspect_err` look at the value and hand it on unchanged
    "std::result::Result::<T, E>::inspect": {"args": [0], "proj": _ident},
    "std::result::Result::<T, E>::inspect_err": {"args": [0], "proj": _ident},
    "std::option::Option::<T>::inspect": {"args": [0], "proj": _ident},
    "std::result::Result::<T, E>::ok": {"args": [0], "proj": _ident},
    "std::option::Option::<T>::ok_or_else": {"args": [0], "proj": _ident},
    "std::option::Option::<T>::ok_or": {"args": [0], "proj": _ident},
    "std::option::Option::<&T>::copied": {"args": [0], "proj": _ident},
    "std::option::Option::<&T>::cloned": {"args": [0], "proj": _ident},
}


def passthrough_summary(call, table):
    if call is None:
        return None
    for n in (call.decl, call.rpath):
        if n and n in table:
            return table[n]
    return None


# ---------------------------------------------------------------------------------------
class Facts:
    def __init__(self, path):
        with open(path) as fh:
            d = json.load(fh)
        self.renames = {}
        if d.get("crate") == "rpm":
            d = self._canonicalise_renames(d)
        self.inlined = {}
        if d.get("crate") == "rpm" and not os.environ.get("VERIF_NO_INLINE"):
            d = self._inline_new_helpers(d)
        self.unrolled = {}
        if d.get("crate") == "rpm" and not os.environ.get("VERIF_NO_UNROLL"):
            d = self._unroll_array_loops(d)
        self.path = path
        self.crate = d["crate"]
        self.consts = {}
        for c in d["consts"]:
            self.consts.setdefault(c["path"], c)
        self.adts = {a["path"]: a for a in d["adts"]}
        self.impls = d["impls"]
        self.fmt = d["fmt"]
        self.bodies = {}
        self.body_list = []
        seen = defaultdict(int)
        for bd in d["bodies"]:
            p = bd["path"]
            seen[p] += 1
            if seen[p] > 1:
                bd = dict(bd)
                bd["path"] = "%s#%d" % (p, seen[p])
            b = Body(bd, self)
            self.bodies[b.path] = b
            self.body_list.append(b)
        self._cg = None
        self._closures = None

    # lookups ---------------------------------------------------------------------------
    def find(self, suffix=None, rx=None):
        out = []
        for b in self.body_list:
            if suffix is not None and (b.path == suffix or b.path.endswith("::" + suffix) or b.path.endswith(suffix)):
                out.append(b)
            elif rx is not None and re.search(rx, b.path):
                out.append(b)
        return out

    def one(self, suffix=None, rx=None):
        r = self.find(suffix, rx)
        if len(r) == 0 and suffix is not None:
            alt = self.resolve_renamed(suffix)
            if alt is not None:
                return alt
        if len(r) != 1:
            raise AnchorLost("expected exactly one body for %s, found %d: %s" %
                             (suffix or rx, len(r), [b.path for b in r][:6]))
        return r[0]

    # ---- inlining of helpers the rules have never seen ---------------------------------------------
    def splice(self, body, callee_suffixes):
        """`body` with the named crate functions spliced in as well, although the rules know them (on demand: a rule about
        `f` that has to see through `f`'s call to an anchored function `g` - e.g. a parser delegating to its sibling - asks
        for it; the rules about `g` itself are unaffected).  A no-op when `body` does not call them."""
        force = set()
        for sfx in callee_suffixes:
            for b in self.find(sfx):
                if b.kind != "closure":
                    force.add(b.path)
        key = (body.path, tuple(sorted(force)))
        cache = self.__dict__.setdefault("_splice_cache", {})
        if key not in cache:
            d = {"bodies": [b.d for b in self.body_list]}
            nb = self._inline_new_helpers(d, force=force, only=body.path)
            cache[key] = body if nb is body.d else Body(nb, self)
        return cache[key]

    def _inline_new_helpers(self, d, force=(), only=None):
        """A crate-local function that is not in rules/known_fns.txt was introduced after the rules were written -
        typically a helper extracted from a function the rules anchor on.  Its body is spliced into every caller
        (locals and blocks renumbered, arguments bound by assignments, `return` turned into an assignment of the
        destination and a jump to the call's successor) so that every CFG / dataflow rule sees the code where it
        used to be.  On a tree whose functions are all known nothing is changed."""
        here = os.path.dirname(os.path.abspath(__file__))
        try:
            with open(os.path.join(here, "known_fns.txt")) as fh:
                known = {l.strip() for l in fh if l.strip() and not l.startswith("#")}
        except OSError:
            return d
        by_path = {}
        for bd in d["bodies"]:
            by_path.setdefault(bd["path"], bd)

        def candidate(path):
            bd = by_path.get(path)
            return (bd is not None and bd["kind"] != "closure" and (path not in known or path in force) and not bd.get("derived")
                    and len(bd["blocks"]) <= 200 and not bd.get("impl_trait"))
        if not any(candidate(p) for p in by_path):
            return by_path.get(only) if only is not None else d

        def callee_of(term):
            k = (term.get("func") or {}).get("k") or {}
            fn = k.get("fn")
            if not fn:
                return None
            r = fn.get("r")
            if r and r.get("local") and r["path"] in by_path:
                return r["path"]
            if fn.get("local") and not fn.get("trait") and fn["path"] in by_path:
                return fn["path"]
            return None

        done = {}
        stack = []

        def shift(x, loff, boff):
            """deep copy of a callee JSON fragment with locals and block ids renumbered"""
            if isinstance(x, dict):
                if "l" in x and "p" in x and isinstance(x["l"], int):
                    return {"l": x["l"] + loff, "p": [({"i": e["i"] + loff} if isinstance(e, dict) and "i" in e else (dict(e) if isinstance(e, dict) else e)) for e in x["p"]]}
                return {k: shift(v, loff, boff) for k, v in x.items()}
            if isinstance(x, list):
                return [shift(v, loff, boff) for v in x]
            return x

        def shift_term(t, loff, boff, ret_to, dest, unwind_to):
            k = t["t"]
            if k == "return":
                return None
            n = shift(t, loff, boff)
            if k == "goto":
                n["target"] = t["target"] + boff
            elif k == "switch":
                n["targets"] = [[v, b + boff] for v, b in t["targets"]]
                n["otherwise"] = t["otherwise"] + boff
            elif k in ("call", "drop", "assert"):
                if t.get("target") is not None:
                    n["target"] = t["target"] + boff
                n["unwind"] = (t["unwind"] + boff) if t.get("unwind") is not None else unwind_to
            elif k == "resume":
                if unwind_to is not None:
                    n = {"t": "goto", "target": unwind_to, "line": t.get("line"), "col": t.get("col"), "exp": t.get("exp", [])}
            return n

        def instantiate(cb, fn):
            """Substitute the call site's concrete generic arguments for the callee's type parameters (in type strings and in
            the callee descriptors of its own calls) so that e.g. `D::digest` inside `helper::<Sha256>` reads `Sha256::digest`."""
            names = cb.get("generics") or []
            gargs = fn.get("gargs") or []
            if not names or len(names) != len(gargs):
                return cb
            sub = {n: g for n, g in zip(names, gargs) if not n.startswith("'") and n != g and re.fullmatch(r"[A-Za-z_]\w*", n)}
            if not sub:
                return cb
            rx = re.compile(r"(?<![\w:])(%s)(?![\w])" % "|".join(re.escape(n) for n in sorted(sub, key=len, reverse=True)))

            def rs(x):
                return rx.sub(lambda m: sub[m.group(1)], x)

            def walk(x, key=None):
                if isinstance(x, dict):
                    return {k: walk(v, k) for k, v in x.items()}
                if isinstance(x, list):
                    return [walk(v, key) for v in x]
                if isinstance(x, str) and key in ("ty", "full", "self_ty", "impl_self", "gargs", "ety"):
                    return rs(x)
                return x
            nb = dict(cb)
            nb["blocks"] = walk(cb["blocks"])
            nb["locals"] = walk(cb["locals"])
            return nb

        def process(path):
            if path in done:
                return done[path]
            bd = by_path[path]
            if path in stack:
                return bd          # recursion: leave the call in place
            stack.append(path)
            blocks = [dict(b) for b in bd["blocks"]]
            locals_ = list(bd["locals"])
            inl = []
            inl_rets = list(bd.get("inl_rets", []))
            i = 0
            budget = 40
            while i < len(blocks):
                t = blocks[i]["term"]
                if t["t"] == "call" and budget > 0:
                    cp = callee_of(t)
                    if cp is not None and candidate(cp) and cp not in stack:
                        cb = process(cp)
                        cb = instantiate(cb, ((t.get("func") or {}).get("k") or {}).get("fn") or {})
                        if len(cb["blocks"]) <= 400 and len(t.get("args", [])) == cb["argc"]:
                            budget -= 1
                            loff, boff = len(locals_), len(blocks)
                            locals_ += [dict(l) for l in cb["locals"]]
                            line = t.get("line")
                            stm = list(blocks[i]["stmts"])
                            for ai, a in enumerate(t["args"]):
                                stm.append({"k": "assign", "lhs": {"l": loff + 1 + ai, "p": []}, "rv": {"r": "use", "o": a}, "line": line, "exp": ["inlined-arg"]})
                            blocks[i] = dict(blocks[i], stmts=stm, term={"t": "goto", "target": boff, "line": line, "col": t.get("col"), "exp": t.get("exp", [])})
                            for cbk in cb["blocks"]:
                                nt = shift_term(cbk["term"], loff, boff, t.get("target"), t["dest"], t.get("unwind"))
                                ns = shift(cbk["stmts"], loff, boff)
                                if nt is None:
                                    ns = ns + [{"k": "assign", "lhs": t["dest"], "rv": {"r": "use", "o": {"m": {"l": loff, "p": []}}}, "line": line, "exp": ["inlined-ret"]}]
                                    nt = ({"t": "goto", "target": t["target"], "line": line, "col": t.get("col"), "exp": []} if t.get("target") is not None
                                          else {"t": "unreachable", "line": line, "col": t.get("col"), "exp": []})
                                blocks.append({"stmts": ns, "term": nt, "cleanup": cbk.get("cleanup", False)})
                            inl.append(cp)
                            inl += cb.get("inlined", [])
                            inl_rets.append({"local": loff, "dest": t["dest"], "cont": t.get("target"), "callee": cp})
                            for r_ in cb.get("inl_rets", []):
                                inl_rets.append({"local": r_["local"] + loff, "dest": shift(r_["dest"], loff, boff),
                                                 "cont": (r_["cont"] + boff) if r_.get("cont") is not None else None, "callee": r_.get("callee")})
                            continue    # re-examine block i (now a goto) - moves on next iteration
                i += 1
            stack.pop()
            if inl:
                nb = dict(bd, blocks=blocks, locals=locals_, inlined=list(bd.get("inlined", [])) + inl, inl_rets=inl_rets)
            else:
                nb = bd
            done[path] = nb
            return nb

        if only is not None:
            return process(only)
        out = []
        seen_paths = set()
        for bd in d["bodies"]:
            if bd["path"] in seen_paths or bd["kind"] == "closure":
                # closures: inline into them as well, but they are never inlined themselves
                pass
            seen_paths.add(bd["path"])
            if by_path.get(bd["path"]) is bd:
                nb = process(bd["path"])
            else:
                nb = bd
            if nb.get("inlined"):
                self.inlined[nb["path"]] = list(nb["inlined"])
            out.append(nb)
        d = dict(d, bodies=out)
        return d

    # ---- loops over a literal array become straight-line code ------------------------------------------------------
    def _unroll_array_loops(self, d):
        """`for x in [a, b, c] { body }` (also `for x in &arr` / `arr.iter()` with `let arr = [a, b, c]`) is rewritten, before any
        rule runs, into `body[x := a]; body[x := b]; body[x := c]`: the loop blocks are copied once per element (plus a final copy
        in which the iterator is exhausted), the k-th copy's `next()` call replaced by `Some(element k)` (`None` in the last), back
        edges redirected to the next copy, and the locals that live only inside the loop renamed per copy.  A table-driven
        rewrite of a sequence of statements (four `write_all`s driven from an array of fields) then reads like the sequence it
        replaced - to every rule, not only to those that know about tables.  Bodies without such a loop are left untouched."""
        out = []
        for bd in d["bodies"]:
            nb = bd
            try:
                for _round in range(8):
                    nb2 = self._unroll_one(nb)
                    if nb2 is None:
                        break
                    nb = nb2
                    self.unrolled[nb["path"]] = self.unrolled.get(nb["path"], 0) + 1
            except Exception:       # a shape the transformation does not understand: analyse the loop as written
                nb = bd
            out.append(nb)
        return dict(d, bodies=out)

    def _unroll_one(self, bd):
        blocks = bd["blocks"]
        if not any(b_["term"]["t"] == "call" and ((b_["term"].get("func") or {}).get("k") or {}).get("fn", {}).get("path") == "std::iter::Iterator::next" for b_ in blocks):
            return None
        tmp = Body(bd, self)
        loops = tmp.loops()
        if not loops:
            return None
        nloc = len(bd["locals"])

        def single_def(l):
            ds = tmp.defs(l)
            return ds[0] if len(ds) == 1 and not ds[0][4] else None

        def chase_array(op, depth=0):
            """(array local, by_ref) when `op` is (a borrow / unsizing of) a local defined once by an array aggregate."""
            pl = op_place(op)
            by_ref = False
            for _ in range(8):
                if pl is None:
                    return None
                if pl["p"] and not (len(pl["p"]) == 1 and proj_key(pl["p"][0]) == "*"):
                    return None
                dd = single_def(pl["l"])
                if dd is None or (1 <= pl["l"] <= bd["argc"]):
                    return None
                (bb, idx, kind, payload, lhs_proj) = dd
                if kind != "assign":
                    return None
                rv = payload["rv"]
                if rv["r"] == "agg" and rv.get("ak") == "array":
                    return (pl["l"], by_ref, rv, bb)
                if rv["r"] == "use":
                    pl = op_place(rv["o"])
                    continue
                if rv["r"] == "cast" and "Unsize" in rv.get("ck", ""):
                    pl = op_place(rv["o"])
                    continue
                if rv["r"] == "ref" and not rv.get("mut"):
                    by_ref = True
                    pl = rv["p"]
                    continue
                return None
            return None
        for (head, lblocks) in sorted(loops, key=lambda x: len(x[1])):
            t = blocks[head]["term"]
            fn = ((t.get("func") or {}).get("k") or {}).get("fn", {}) if t["t"] == "call" else {}
            if fn.get("path") != "std::iter::Iterator::next" or len(t.get("args", [])) != 1 or t.get("target") is None or len(lblocks) > 60:
                continue
            if not re.match(r"^(std::array::IntoIter<|std::slice::Iter<)", fn.get("self_ty") or ""):
                continue
            # the iterator: `&mut it` (possibly reborrowed), it = into_iter(X) / iter(X)
            itl = None
            pl = op_place(t["args"][0])
            for _ in range(6):
                if pl is None or (pl["p"] and [proj_key(x) for x in pl["p"]] != ["*"]):
                    pl = None
                    break
                dd = single_def(pl["l"])
                if dd is None:
                    # defined in several copies of an enclosing unrolled loop or assigned by the into_iter call itself
                    break
                (bb, idx, kind, payload, lhs_proj) = dd
                if kind == "call":
                    break
                rv = payload["rv"]
                if rv["r"] == "ref":
                    pl = rv["p"]
                    if not pl["p"]:
                        # &mut it
                        d2 = single_def(pl["l"])
                        if d2 is not None and d2[2] == "assign" and d2[3]["rv"]["r"] == "use":
                            pl = op_place(d2[3]["rv"]["o"])
                            itl = d2
                        continue
                    continue
                if rv["r"] == "use":
                    pl = op_place(rv["o"])
                    continue
                pl = None
                break
            if pl is None:
                continue
            dd = single_def(pl["l"])
            if dd is None or dd[2] != "call" or dd[0] in lblocks:
                continue
            ic = blocks[dd[0]]["term"]
            ifn = ((ic.get("func") or {}).get("k") or {}).get("fn", {})
            if not (ifn.get("path") == "std::iter::IntoIterator::into_iter" or (ifn.get("path") or "").endswith("<impl [T]>::iter")) or len(ic.get("args", [])) != 1:
                continue
            arr = chase_array(ic["args"][0])
            if arr is None:
                continue
            (al, by_ref, arv, abb) = arr
            ops = arv["ops"]
            if not (1 <= len(ops) <= 16) or abb in lblocks:
                continue
            # the array is only read (its single borrow feeds the iterator)
            muts = [u for u in tmp.uses(al) if u[2] == "refmut"]
            if muts:
                continue
            lset = set(lblocks)
            # locals private to the loop: every definition inside, no mention outside
            def mentions(x, acc):
                if isinstance(x, dict):
                    if "l" in x and "p" in x and isinstance(x["l"], int):
                        acc.add(x["l"])
                        for e in x["p"]:
                            if isinstance(e, dict) and "i" in e:
                                acc.add(e["i"])
                        return
                    for v in x.values():
                        mentions(v, acc)
                elif isinstance(x, list):
                    for v in x:
                        mentions(v, acc)
            inside, outside = set(), set()
            scratch = set()
            for i, b_ in enumerate(blocks):
                # unwind-only (cleanup) blocks drop the loop's temporaries: that does not make them live across iterations
                acc = inside if i in lset else (scratch if b_.get("cleanup") else outside)
                mentions(b_["stmts"], acc)
                mentions(b_["term"], acc)
            # a local all of whose definitions sit inside the loop is a per-iteration temporary (Rust's definite-assignment rule:
            # it cannot be read after the loop unless the loop assigned it on every path); the last copy - the one the loop is
            # left from when the array is exhausted - keeps the original names, so code after the loop reads what it read before
            private = set()
            for l in inside:
                if l == 0 or l <= bd["argc"]:
                    continue
                ds = tmp.defs(l)
                if ds and all(x[0] in lset for x in ds):
                    private.add(l)
            n = len(ops)
            locals_ = [dict(x) for x in bd["locals"]]
            new_blocks = [dict(b_) for b_ in blocks]
            order = sorted(lset)
            ety = arv.get("ety") or "?"
            # element k as an operand of the item's type
            elem_ops = []
            pre_stmts = []
            line = t.get("line")
            for k, o in enumerate(ops):
                if not by_ref:
                    elem_ops.append(o)
                    continue
                pl_o = op_place(o)
                if pl_o is None or pl_o["p"]:
                    # a constant / projected element: give it a home of its own
                    locals_.append({"ty": ety, "name": None})
                    hl = len(locals_) - 1
                    pre_stmts.append({"k": "assign", "lhs": {"l": hl, "p": []}, "rv": {"r": "use", "o": o}, "line": line, "exp": ["unrolled-elem"]})
                    pl_o = {"l": hl, "p": []}
                locals_.append({"ty": "&" + ety, "name": None})
                rl = len(locals_) - 1
                pre_stmts.append({"k": "assign", "lhs": {"l": rl, "p": []}, "rv": {"r": "ref", "mut": False, "p": {"l": pl_o["l"], "p": []}}, "line": line, "exp": ["unrolled-elem"]})
                elem_ops.append({"c": {"l": rl, "p": []}})

            def remap(x, lmap):
                if isinstance(x, dict):
                    if "l" in x and "p" in x and isinstance(x["l"], int):
                        return {"l": lmap.get(x["l"], x["l"]), "p": [({"i": lmap.get(e["i"], e["i"])} if isinstance(e, dict) and "i" in e else (dict(e) if isinstance(e, dict) else e)) for e in x["p"]]}
                    return {k_: remap(v, lmap) for k_, v in x.items()}
                if isinstance(x, list):
                    return [remap(v, lmap) for v in x]
                return x
            # the block that branches on the discriminant of next()'s result
            sw_block = None
            sb_ = t["target"]
            if sb_ in lset and blocks[sb_]["term"]["t"] == "switch":
                dpl = op_place(blocks[sb_]["term"]["d"])
                dsts = [st for st in blocks[sb_]["stmts"] if st.get("k") == "assign" and dpl is not None and st["lhs"]["l"] == dpl["l"] and st["rv"]["r"] == "discr"
                        and st["rv"]["p"]["l"] == t["dest"]["l"] and not st["rv"]["p"]["p"]]
                if dsts:
                    sw_block = sb_
            if sw_block is None:
                continue
            dead = len(new_blocks) + n * len(order)      # one shared `unreachable` block for the impossible back edge of the last copy
            copies = []
            for k in range(n + 1):
                if k == n:
                    bmap = {b_: b_ for b_ in order}
                    lmap = {}
                else:
                    bmap = {b_: len(new_blocks) + k * len(order) + j for j, b_ in enumerate(order)}
                    lmap = {}
                    for l in sorted(private):
                        locals_.append(dict(bd["locals"][l]))
                        lmap[l] = len(locals_) - 1
                copies.append((bmap, lmap))
            extra = []
            for k, (bmap, lmap) in enumerate(copies):
                nxt_head = copies[k + 1][0][head] if k < n else dead
                for b_ in order:
                    src = blocks[b_]
                    stm = remap(src["stmts"], lmap)
                    tt = remap(src["term"], lmap)

                    def tgt(x):
                        if x is None:
                            return None
                        if x == head and x in lset:
                            return nxt_head if b_ != head or True else x
                        return bmap.get(x, x)
                    if b_ == sw_block:
                        # the `match next() { None => break, Some(x) => .. }` that follows: decided in every copy
                        want = 1 if k < n else 0
                        chosen = None
                        for v, x in src["term"]["targets"]:
                            if int(v) == want:
                                chosen = x
                        if chosen is None:
                            chosen = src["term"]["otherwise"]
                        tt = {"t": "goto", "target": tgt(chosen), "line": src["term"].get("line"), "col": src["term"].get("col"), "exp": ["unrolled"]}
                    elif b_ == head:
                        dest = tt["dest"]
                        if k < n:
                            item = remap(elem_ops[k], {})
                            rv = {"r": "agg", "ak": "adt", "adt": "std::option::Option", "variant": "Some", "vidx": 1, "fields": ["0"], "ops": [item]}
                        else:
                            rv = {"r": "agg", "ak": "adt", "adt": "std::option::Option", "variant": "None", "vidx": 0, "fields": [], "ops": []}
                        stm = stm + [{"k": "assign", "lhs": dest, "rv": rv, "line": line, "exp": ["unrolled-next"]}]
                        tt = {"t": "goto", "target": bmap.get(src["term"]["target"], src["term"]["target"]), "line": line, "col": src["term"].get("col"), "exp": ["unrolled"]}
                    else:
                        kk = tt["t"]
                        if kk == "goto":
                            tt["target"] = tgt(src["term"]["target"])
                        elif kk == "switch":
                            tt["targets"] = [[v, tgt(x)] for v, x in src["term"]["targets"]]
                            tt["otherwise"] = tgt(src["term"]["otherwise"])
                        elif kk in ("call", "drop", "assert"):
                            if src["term"].get("target") is not None:
                                tt["target"] = tgt(src["term"]["target"])
                            if src["term"].get("unwind") is not None:
                                tt["unwind"] = bmap.get(src["term"]["unwind"], src["term"]["unwind"])
                    nbk = {"stmts": stm, "term": tt, "cleanup": src.get("cleanup", False)}
                    if k == n:
                        new_blocks[b_] = nbk
                    else:
                        extra.append((bmap[b_], nbk))
            for (i_, nbk) in sorted(extra, key=lambda x: x[0]):
                assert i_ == len(new_blocks)
                new_blocks.append(nbk)
            assert dead == len(new_blocks)
            new_blocks.append({"stmts": [], "term": {"t": "unreachable", "line": line, "col": None, "exp": ["unrolled"]}, "cleanup": False})
            # the loop is entered at the first copy
            first_head = copies[0][0][head]
            if first_head != head:
                for i_, b_ in enumerate(new_blocks):
                    if i_ in lset or i_ >= len(blocks):
                        continue
                    tt = b_["term"]
                    kk = tt["t"]
                    nt = None
                    if kk == "goto" and tt["target"] == head:
                        nt = dict(tt, target=first_head)
                    elif kk == "switch" and (tt["otherwise"] == head or any(x == head for _v, x in tt["targets"])):
                        nt = dict(tt, targets=[[v, first_head if x == head else x] for v, x in tt["targets"]], otherwise=first_head if tt["otherwise"] == head else tt["otherwise"])
                    elif kk in ("call", "drop", "assert") and tt.get("target") == head:
                        nt = dict(tt, target=first_head)
                    if nt is not None:
                        new_blocks[i_] = dict(b_, term=nt)
            # element homes are set up where the array is built
            if pre_stmts:
                ab = dict(new_blocks[abb])
                st_list = list(ab["stmts"])
                pos = len(st_list)
                for i_, st in enumerate(st_list):
                    if st.get("k") == "assign" and st["lhs"]["l"] == al and not st["lhs"]["p"]:
                        pos = i_      # before the aggregate moves the elements into the array
                        break
                if by_ref and all(op_place(o) is not None and not op_place(o)["p"] and "m" in o for o in ops):
                    # moved-from element locals stay readable in the facts (no liveness is modelled): borrow them as they are
                    pass
                ab["stmts"] = st_list[:pos] + pre_stmts + st_list[pos:]
                new_blocks[abb] = ab
            return dict(bd, blocks=new_blocks, locals=locals_)
        return None

    def _canonicalise_renames(self, d):
        """Rules refer to functions by the names they had when the rules were written (known_fns.txt /
        anchors.json).  If a *non-public* function disappeared and exactly one new function has its signature
        (impl type, parameter and return types) and is called from one of its recorded callers, it was renamed:
        the facts are rewritten to the old name so that a pure rename changes nothing a rule sees."""
        import os
        here = os.path.dirname(os.path.abspath(__file__))
        try:
            with open(os.path.join(here, "anchors.json")) as fh:
                anchors = json.load(fh)
            with open(os.path.join(here, "known_fns.txt")) as fh:
                known = {l.strip() for l in fh if l.strip() and not l.startswith("#")}
        except OSError:
            return d
        present = {}
        for bd in d["bodies"]:
            if bd["kind"] != "closure":
                present[bd["path"]] = bd
        missing = [p for p, rec in anchors.items() if p not in present and rec.get("vis") != "pub"]
        if not missing:
            return d
        news = [bd for p, bd in present.items() if p not in known and not bd.get("derived")]
        if not news:
            return d
        # callers of each new function
        callers = {}
        for bd in d["bodies"]:
            owner = bd.get("closure_of") or bd["path"]
            for bl in bd["blocks"]:
                t = bl["term"]
                if t["t"] == "call":
                    fn = (t["func"].get("k") or {}).get("fn")
                    if fn:
                        for pth in (fn["path"], (fn.get("r") or {}).get("path")):
                            if pth:
                                callers.setdefault(pth, set()).add(owner)
        pairs = []
        for old in missing:
            rec = anchors[old]
            cands = []
            for bd in news:
                args = [bd["locals"][i]["ty"] for i in range(1, bd["argc"] + 1)]
                if bd.get("impl_self") != rec["impl_self"] or bd.get("impl_trait_full") != rec["impl_trait"]:
                    continue
                if args != rec["args"] or bd["locals"][0]["ty"] != rec["ret"]:
                    continue
                cands.append(bd)
            if len(cands) > 1:
                want = set(rec.get("callers") or [])
                cands = [bd for bd in cands if callers.get(bd["path"], set()) & want]
            if len(cands) == 1:
                pairs.append((old, cands[0]["path"]))
        # a new function may stand for one old function only
        used = {}
        for old, new in pairs:
            used.setdefault(new, []).append(old)
        pairs = [(o, n) for (o, n) in pairs if len(used[n]) == 1]
        if not pairs:
            return d
        subs = []
        for old, new in pairs:
            self.renames[old] = new
            old_last, new_last = old.rsplit("::", 1)[-1], new.rsplit("::", 1)[-1]
            prefix = new.rsplit("::", 1)[0] if "::" in new else ""
            # tolerate different generic instantiations of the impl type in `full` paths
            rx = re.escape(prefix)
            rx = re.sub(r"<[^<>]*>", lambda m: "<[^<>]*(?:<[^<>]*>[^<>]*)*>", rx.replace("\\<", "<").replace("\\>", ">")) if False else re.sub(r"\\<.*?\\>", r"<[^()]*?>", rx)
            subs.append((re.compile("(" + rx + ")::" + re.escape(new_last) + r"(?![A-Za-z0-9_])"), old_last))

        def walk(x):
            if isinstance(x, str):
                for (rx, old_last) in subs:
                    if "::" in x:
                        x = rx.sub(lambda m: m.group(1) + "::" + old_last, x)
                return x
            if isinstance(x, list):
                return [walk(y) for y in x]
            if isinstance(x, dict):
                return {k: walk(v) for k, v in x.items()}
            return x
        return walk(d)

    def resolve_renamed(self, suffix):
        """An anchored function that no longer exists under its recorded name may just have been renamed:
        look for exactly one *new* local function (not in known_fns.txt) with the same impl type, parameter and
        return types and at least one of the recorded callers.  Non-public functions only."""
        import os
        if not hasattr(self, "_anchors"):
            try:
                with open(os.path.join(os.path.dirname(os.path.abspath(__file__)), "anchors.json")) as fh:
                    self._anchors = json.load(fh)
            except OSError:
                self._anchors = {}
            try:
                with open(os.path.join(os.path.dirname(os.path.abspath(__file__)), "known_fns.txt")) as fh:
                    self._known = {l.strip() for l in fh if l.strip() and not l.startswith("#")}
            except OSError:
                self._known = set()
        olds = [p for p in self._anchors if p == suffix or p.endswith("::" + suffix) or p.endswith(suffix)]
        if len(olds) != 1:
            return None
        rec = self._anchors[olds[0]]
        if rec.get("vis") == "pub":
            return None     # renaming public API is an interface change, not a refactor
        callers_now = {}
        cands = []
        for b in self.body_list:
            if b.kind == "closure" or b.derived or b.path in self._known:
                continue
            if b.impl_self != rec["impl_self"] or b.impl_trait_full != rec["impl_trait"]:
                continue
            if [b.local_ty(i) for i in range(1, b.argc + 1)] != rec["args"] or b.local_ty(0) != rec["ret"]:
                continue
            cands.append(b)
        if len(cands) > 1 and rec.get("callers"):
            want = set(rec["callers"])
            keep = []
            for cb in cands:
                cs = set()
                for b in self.body_list:
                    for c in b.calls():
                        if c.rpath == cb.path or c.decl == cb.path:
                            cs.add(b.closure_of or b.path)
                if cs & want:
                    keep.append(cb)
            cands = keep
        if len(cands) == 1:
            self.renamed = getattr(self, "renamed", {})
            self.renamed[olds[0]] = cands[0].path
            return cands[0]
        return None

    def const_value(self, suffix):
        for p, c in self.consts.items():
            if p == suffix or p.endswith("::" + suffix):
                return c["value"]
        raise AnchorLost("const %s not found" % suffix)

    def const_int(self, suffix):
        v = self.const_value(suffix)
        m = re.match(r"^(-?\d+)_", v or "")
        if not m:
            raise AnchorLost("const %s is not an integer: %r" % (suffix, v))
        return int(m.group(1))

    def adt(self, suffix):
        for p, a in self.adts.items():
            if p == suffix or p.endswith("::" + suffix):
                return a
        raise AnchorLost("adt %s not found" % suffix)

    def closures_of(self, body):
        if self._closures is None:
            self._closures = defaultdict(list)
            for b in self.body_list:
                if b.kind == "closure":
                    # parent = path minus trailing ::{closure#n}
                    parent = re.sub(r"::\{closure#\d+\}$", "", b.path)
                    self._closures[parent].append(b)
        out = list(self._closures.get(body.path, []))
        for ip in self.inlined.get(body.path, []):
            out += self._closures.get(ip, [])     # closures created by code that was inlined into this body
        return out

    # call graph --------------------------------------------------------------------------
    def callees(self, body):
        """Local bodies a body may call: resolved local callees, closures it creates, and for
        unresolved trait-method calls every local impl of that method (over-approximation)."""
        out = []
        for c in body.calls():
            tgt = None
            if c.rpath and c.rlocal and c.rpath in self.bodies:
                tgt = [self.bodies[c.rpath]]
            elif c.local and c.decl in self.bodies and not c.trait:
                tgt = [self.bodies[c.decl]]
            elif c.trait and not c.rpath:
                # unresolved trait call: all local impls of the method
                mname = c.decl.rsplit("::", 1)[-1]
                tgt = [b for b in self.body_list
                       if b.impl_trait == c.trait and b.name == mname]
            elif c.decl in ("std::convert::TryInto::try_into", "std::convert::Into::into") and len(c.gargs) >= 2:
                # the blanket impls in core forward to the crate's own TryFrom / From impl for the target type
                tr, mn = ("std::convert::TryFrom", "try_from") if c.decl.endswith("try_into") else ("std::convert::From", "from")
                dst = c.gargs[1].replace("rpm::", "")
                tgt = [b for b in self.body_list if b.impl_trait == tr and b.name == mn and b.kind != "closure" and (b.impl_self or "").replace("rpm::", "") == dst]
            if tgt:
                for t in tgt:
                    out.append((c, t))
        for cl in self.closures_of(body):
            out.append((None, cl))
        return out

    def cone(self, roots, stop=None):
        """Call-graph closure inside the crate from `roots` (Body list). Returns ordered dict path->Body."""
        seen = {}
        dq = deque(roots)
        while dq:
            b = dq.popleft()
            if b.path in seen:
                continue
            if stop and stop(b):
                continue
            seen[b.path] = b
            for (_c, t) in self.callees(b):
                if t.path not in seen:
                    dq.append(t)
        return seen


class AnchorLost(Exception):
    pass


# ---------------------------------------------------------------------------------------
# product-state exploration (path-sensitive rules)
# ---------------------------------------------------------------------------------------

def explore(body, init_state, transfer, max_states=200000):
    """Reachability over (block, abstract state).

    transfer(bb, state) -> list of (succ_bb, new_state) ; it is given the block index and
    must look at the block's statements/terminator itself.  A state must be hashable.
    Returns (visited set, list of (bb, state) for blocks with no successors yielded)."""
    seen = set()
    finals = []
    dq = deque([(0, init_state)])
    while dq:
        node = dq.popleft()
        if node in seen:
            continue
        seen.add(node)
        if len(seen) > max_states:
            raise AnchorLost("state explosion in %s" % body.path)
        bb, st = node
        nxt = transfer(bb, st)
        if not nxt:
            finals.append(node)
        for n in nxt:
            if n not in seen:
                dq.append(n)
    return seen, finals
