"""C03 - digest verification succeeds exactly when all recorded digests match.

Decided on Package::verify_digests (structure of every comparison):
  R1  per digest tag exactly one binding comparison: declared value (the tag's getter) against the
      recomputed digest; mismatch edge -> Err(DigestMismatchError); no path reaches Ok(()) with the
      tag present that bypasses the comparison's "equal" edge
  R2  the recomputed digest hashes the right byte range with the right algorithm
  R3  an unsupported payload digest algorithm is an error, never success
  R4  closed set of failures: nothing else withholds success
  R5  DigestAlgorithm numbering equals the OpenPGP hash ids
"""
import re
from engine import op_place, AnchorLost
from pathsens import ps_reach
from terms import TermBuilder, render, strip_proj
from common import (ok_assign_blocks, err_assign_blocks, residual_return_blocks, question_mark_source,
                    reach_from, switch_info, users_switches, fmt_key, arms_of)

HDR = "buf[ser(self.metadata.header)]"
ORACLE = {
    # tag: (getter, expected recomputed term)
    "RPMSIGTAG_MD5": ("get_entry_data_as_binary", "md5(%s ++ self.content)" % HDR),
    "RPMSIGTAG_SHA1": ("get_entry_data_as_string", "hex(sha1(%s))" % HDR),
    "RPMSIGTAG_SHA256": ("get_entry_data_as_string", "hex(sha256(%s))" % HDR),
    "RPMTAG_PAYLOADDIGEST": ("get_entry_data_as_string_array", "hex(sha256(self.content))"),
}
OPENPGP_HASH_IDS = {"Md5": 1, "Sha2_256": 8, "Sha2_384": 9, "Sha2_512": 10, "Sha2_224": 11, "Sha3_256": 12, "Sha3_512": 14}
GETTER_RX = re.compile(r"Header::<.*>::(get_entry_data_as_\w+)$")


def getter_of(term):
    """If `term` is (a projection of / the first element of) a tag getter result: (getter, tag, first?)."""
    first = False
    t = term
    for _ in range(6):
        if t[0] == "proj":
            if any(p.startswith("[") for p in t[2]):
                first = True
            t = t[1]
            continue
        if t[0] == "call" and re.search(r"<impl \[T\]>::(first|get)$|<impl \[.*\]>::(first|get)$", t[1]):
            first = True
            t = t[2][0]
            continue
        if t[0] == "call" and re.search(r"(ok_or|ok_or_else|copied|cloned|as_str|as_ref|as_slice)$", t[1]):
            t = t[2][0]
            continue
        break
    if t[0] == "call":
        m = GETTER_RX.search(t[1])
        if m and len(t[2]) >= 2:
            tagt = strip_proj(t[2][1])
            if tagt[0] == "agg":
                return (m.group(1), tagt[1].rsplit("::", 1)[-1], first, render(t[2][0]))
    return None


def analyse_comparisons(body, tb):
    """-> list of dicts describing each PartialEq comparison whose one side is a tag getter value."""
    out = []
    for c in body.calls():
        if c.decl not in ("std::cmp::PartialEq::eq", "std::cmp::PartialEq::ne"):
            continue
        ta, tbm = tb.term(c.args[0]), tb.term(c.args[1])
        ga, gb = getter_of(ta), getter_of(tbm)
        if ga and not gb:
            decl, comp, g = ta, tbm, ga
        elif gb and not ga:
            decl, comp, g = tbm, ta, gb
        else:
            continue
        out.append({"call": c, "getter": g[0], "tag": g[1], "first": g[2], "recv": g[3], "computed": render(comp), "is_ne": c.decl.endswith("::ne")})
    return out


def run(f, fixture, rep, cfg, tier):
    rep.explanation = (
        "Provenance and branch-structure analysis of Package::verify_digests in MIR: every PartialEq comparison is "
        "classified by the tag getter feeding its declared side and by a provenance term for its recomputed side "
        "(algorithm, hashed byte ranges in order, hex encoding); branch polarity, the mismatch edge's error, "
        "must-pass-through of the 'equal' edge and the closed set of error exits are checked on the CFG. "
        "This decides the structure of the iff; hash values themselves are not computed.")
    rep.trusted = ["rustc nightly MIR", "digest/hex/md5/sha1/sha2 crates compute what their names say", "pass-through table in rules/engine.py"]
    rep.rule("R1", "one binding comparison per digest tag with correct polarity; no bypass to Ok(())")
    rep.rule("R2", "hashed range and algorithm per tag equal the oracle table")
    rep.rule("R3", "non-SHA-256 payload digest algorithm -> error")
    rep.rule("R4", "closed set of error exits")
    rep.rule("R5", "DigestAlgorithm numbering = OpenPGP hash ids")
    rep.rule("R6", "the header bytes that are hashed are the bytes that were read (C01: parse then write reproduces the header)")
    # verify_digests hashes ser(parse(bytes)), not the bytes: every clause of the round-trip property is a clause of this one
    rep.include("c01", f, fixture, cfg, tier, "R6", "header round trip (the digest is computed over the re-serialised header)", floor=30)

    b = f.one("Package::verify_digests")
    tb = TermBuilder(b)
    oks = ok_assign_blocks(b)
    rep.anchor(len(oks) >= 1, "R1", "verify_digests has a success return")
    ok_set = set(oks)
    cmps = analyse_comparisons(b, tb)
    rep.count("comparisons", len(cmps))
    by_tag = {}
    for c in cmps:
        by_tag.setdefault(c["tag"], []).append(c)

    mismatch_blocks = set()
    mismatch_edges = []
    for tag, (getter, want) in ORACLE.items():
        cs = by_tag.get(tag, [])
        if not rep.check(len(cs) == 1, "R1", "%s|one-comparison" % tag, "exactly one comparison binds %s" % tag,
                         "%d comparisons involve the %s getter (expected exactly one): the recorded digest is %s" % (
                             len(cs), tag, "never compared" if not cs else "compared ambiguously"), b.span):
            continue
        c = cs[0]
        call = c["call"]
        rep.check(c["getter"] == getter, "R1", "%s|getter" % tag, "%s read with %s" % (tag, getter),
                  "%s is read with %s, expected %s" % (tag, c["getter"], getter), call.loc())
        want_recv = "self.metadata.header" if tag.startswith("RPMTAG_") else "self.metadata.signature"
        rep.check(c["recv"] == want_recv, "R1", "%s|receiver" % tag, "%s is read from %s" % (tag, want_recv),
                  "%s is read from %s, expected %s" % (tag, c["recv"], want_recv), call.loc())
        rep.check(c["computed"] == want, "R2", "%s|range" % tag, "%s compared with %s" % (tag, want),
                  "%s is compared with %s, expected %s" % (tag, c["computed"], want), call.loc())
        if tag == "RPMTAG_PAYLOADDIGEST":
            rep.check(c["first"], "R1", "%s|first" % tag, "the first entry of the digest array is compared", "the digest array is compared as a whole", call.loc())
        # polarity
        sws = users_switches(b, call.dest["l"])
        if not rep.check(len(sws) == 1, "R1", "%s|switch" % tag, "the comparison result is branched on once",
                         "the comparison result of %s feeds %d branches" % (tag, len(sws)), call.loc()):
            continue
        si = switch_info(b, sws[0])
        mismatch_t = si["true"] if c["is_ne"] else si["false"]
        equal_t = si["false"] if c["is_ne"] else si["true"]
        from_mis = ps_reach(b, mismatch_t)
        errs_on_mis = {v for (bb, v) in err_assign_blocks(b) if bb in from_mis}
        rep.check(not (from_mis & ok_set) and errs_on_mis == {"DigestMismatchError"}, "R1", "%s|mismatch-edge" % tag,
                  "mismatch of %s returns Err(DigestMismatchError)" % tag,
                  "on mismatch of %s the function %s" % (tag, "can still reach Ok(())" if from_mis & ok_set else "returns %s" % sorted(map(str, errs_on_mis))), call.loc())
        mismatch_blocks |= {bb for (bb, v) in err_assign_blocks(b) if bb in from_mis}
        mismatch_edges.append((sws[0], mismatch_t))
        rep.check(bool(reach_from(b, equal_t) & ok_set), "R1", "%s|equal-edge" % tag, "a matching %s lets verification continue to Ok(())" % tag,
                  "a matching %s can never reach Ok(()): success is withheld" % tag, call.loc())
        # must-pass-through: with the tag present, Ok(()) only via the equal edge
        # "recorded" for the payload digest means digest *and* algorithm tag are present
        gate_tags = {tag} | ({"RPMTAG_PAYLOADDIGESTALGO"} if tag == "RPMTAG_PAYLOADDIGEST" else set())
        getter_calls = [gc for gc in b.calls() if GETTER_RX.search(gc.decl) and getter_of(tb.call_term(gc, 0)) and getter_of(tb.call_term(gc, 0))[1] in gate_tags]
        blocked = {(sws[0], equal_t)}
        absent_edges = set()
        for sb in b.reachable():
            info = switch_info(b, sb)
            if not info or info["kind"] != "discr":
                continue
            # is this a discriminant test of the getter's result (possibly packed in a tuple)?
            lvs = b.origins(info["place"], passthrough={})
            if any(l["kind"] == "call" and l["call"] in getter_calls and not [p for p in l["proj"] if p.startswith("as ")] for l in lvs):
                okt = info["targets"].get(0)
                for s in b.succ(sb):
                    if s != okt:
                        absent_edges.add((sb, s))
        rep.check(len(absent_edges) >= 1, "R1", "%s|presence-test" % tag, "presence of %s is tested" % tag,
                  "no discriminant test of the %s getter found" % tag, call.loc())
        still = ps_reach(b, 0, blocked_edges=blocked | absent_edges)
        rep.check(not (still & ok_set), "R1", "%s|no-bypass" % tag,
                  "every path to Ok(()) with %s present passes the comparison's equal edge" % tag,
                  "Ok(()) is reachable with %s present without passing its comparison" % tag, call.loc())

    # any comparison on a tag that is not in the oracle is reported (unknown semantics)
    for tag in by_tag:
        if tag not in ORACLE:
            rep.finding("R4", "%s|extra-comparison" % tag, "a comparison on %s is not part of the digest table" % tag, by_tag[tag][0]["call"].loc())

    # ---- R3 algorithm switch -------------------------------------------------------------
    algo_sw = []
    for sb in b.reachable():
        info = switch_info(b, sb)
        if info and info["kind"] == "discr":
            ty = None
            pl = info["place"]
            if not pl["p"]:
                ty = b.local_ty(pl["l"])
            if ty and ty.endswith("DigestAlgorithm"):
                algo_sw.append((sb, info))
    if rep.check(len(algo_sw) == 1, "R3", "algo-switch", "the payload digest algorithm is matched once",
                 "%d matches on DigestAlgorithm in verify_digests" % len(algo_sw), b.span):
        sb, info = algo_sw[0]
        sha256 = OPENPGP_HASH_IDS["Sha2_256"]
        for s in b.succ(sb):
            vals = [v for v, t in info["targets"].items() if t == s]
            if vals == [sha256]:
                pc = by_tag.get("RPMTAG_PAYLOADDIGEST", [])
                ok = bool(pc) and pc[0]["call"].bb in reach_from(b, s)
                rep.check(ok, "R3", "algo|sha256", "the SHA-256 arm leads to the payload comparison",
                          "the SHA-256 arm does not reach the payload digest comparison", b.span)
            else:
                r = ps_reach(b, s)
                errs = {v for (bb, v) in err_assign_blocks(b) if bb in r}
                rep.check(not (r & ok_set) and errs == {"UnsupportedDigestAlgorithm"}, "R3", "algo|other|%s" % (vals or "otherwise"),
                          "any other algorithm returns Err(UnsupportedDigestAlgorithm)",
                          "payload digest algorithm %s %s" % (vals or "(others)", "can reach Ok(())" if r & ok_set else "returns %s" % sorted(map(str, errs))), b.span)

    # ---- R4 closed set of error exits ------------------------------------------------------
    for (bb, var) in err_assign_blocks(b):
        if var == "DigestMismatchError":
            # "mismatch" is the verdict of a comparison that failed - nothing else (an absent tag, a policy decision) may report it:
            # with the mismatch edges of the binding comparisons cut, no DigestMismatchError exit is reachable
            if len(mismatch_edges) == len(ORACLE):
                # an empty recorded digest list cannot match either: the `None` edge of `first()` / `get(0)` on the payload digest
                # array counts as a failed comparison (the pinned tree reports it with `.first().ok_or(DigestMismatchError)?`)
                empty_edges = set()
                for sb_ in sorted(b.reachable()):
                    i_ = switch_info(b, sb_)
                    if i_ and i_["kind"] == "discr" and (i_.get("enum") or "").endswith("option::Option") and i_.get("place") is not None:
                        pt_ = render(tb.term(i_["place"]))
                        if re.match(r"(core::slice::<impl \[T\]>::(first|get)|std::iter::Iterator::next)\(", pt_) and "RPMTAG_PAYLOADDIGEST" in pt_ and "RPMTAG_PAYLOADDIGESTALGO" not in pt_:
                            a_ = arms_of(b, i_)
                            if "None" in a_:
                                empty_edges.add((sb_, a_["None"]))
                free = reach_from(b, 0, blocked_edges=set(mismatch_edges) | empty_edges)
                rep.check(bb not in free, "R4", "err|DigestMismatchError|only-on-mismatch", "DigestMismatchError is returned only behind a failed digest comparison",
                          "verify_digests returns DigestMismatchError on a path on which no digest comparison failed: a package whose recorded digests all match (or that records fewer digests) is reported as corrupt",
                          "%s:%s" % (b.file, (b.stmts(bb)[-1].get("line") if b.stmts(bb) else b.term(bb).get("line"))))
            continue
        # InvalidTagValueEnumVariant: the recorded algorithm id is not a DigestAlgorithm at all (same verdict as "unsupported")
        rep.check(var in ("UnsupportedDigestAlgorithm", "InvalidTagValueEnumVariant"), "R4", "err|%s" % var, "error exit %s is in the allowed set" % var,
                  "verify_digests can fail with %s, which is not a digest verdict" % var, b.span)
    allowed_q = (r"Header::<.*>::write", r"Option::<.*>::ok_or(_else)?$")
    from terms import known_fns

    def q_ok(call, depth=0):
        if any(re.search(p, call.full) or re.search(p, call.decl) for p in allowed_q):
            return True
        # a helper introduced after the rules were written: all of *its* error exits must be allowed ones
        path = call.rpath if (call.rpath and call.rlocal) else (call.decl if call.local else None)
        hb = f.bodies.get(path) if path else None
        if hb is None or path in known_fns() or depth > 3:
            return False
        if err_assign_blocks(hb):
            return False
        for (_bb, rc2) in residual_return_blocks(hb):
            s2 = question_mark_source(hb, rc2)
            if not s2 or not all(q_ok(x, depth + 1) for x in s2):
                return False
        return True
    for (bb, rc) in residual_return_blocks(b):
        srcs = question_mark_source(b, rc)
        # an inner `?` exit of a spliced-in helper that the outer `?` hands on: checked as an exit of its own in this loop
        inner = [s_ for s_ in srcs if s_.decl == "std::ops::FromResidual::from_residual"]
        srcs = [s_ for s_ in srcs if s_ not in inner]
        names = [s.decl for s in srcs] or ["?"]
        ok = all(q_ok(s) for s in srcs) and bool(srcs)
        if not srcs and inner:
            ok, names = True, ["(inner `?` of an inlined helper)"]
        if not srcs and not inner:
            # `helper(..)?` where the helper was spliced in: the propagated value is the helper's own Ok/Err construction, and
            # those error exits are already in err_assign_blocks (checked above against the allowed set)
            for lf in b.origins(rc.args[0], passthrough={}):
                if lf["kind"] == "call" and lf["call"].decl == "std::ops::Try::branch":
                    leaves = b.origins(lf["call"].args[0], passthrough={})
                    if leaves and all(l2["kind"] == "agg" and l2["stmt"]["rv"].get("adt", "").endswith("result::Result") for l2 in leaves):
                        ok, names = True, ["(inlined helper result)"]
        rep.check(ok, "R4", "q|%s" % ",".join(sorted(set(names))), "`?` exit propagates %s" % names,
                  "verify_digests can fail through `?` on %s, which is not a digest verdict" % names, rc.loc())

    # ---- R8 the getters the presence tests rely on ---------------------------------------------------------------------
    # a digest is "recorded" when its getter succeeds; a getter that fails on a present entry turns the check off
    rep.rule("R8", "the typed getters accept every well-formed entry of their type (C05.R3)")
    rep.include("c05", f, fixture, cfg, tier, "R8", "header getters (their failure silently skips a digest check)", only_rules={"R3"}, floor=10)

    # ---- R9 the digest step of signature verification -------------------------------------------------------------------
    # verify_signature is the other public way to ask "are the digests right": each of its success exits passes verify_digests
    rep.rule("R9", "every success of verify_signature passed verify_digests (C02.R3)")
    rep.include("c02", f, fixture, cfg, tier, "R9", "digest step of verify_signature", only_rules={"R3"}, floor=0 if cfg == "no-default" else 1)

    # ---- R7 the digest tags are rpm's digest tags ------------------------------------------------------------------
    rep.rule("R7", "digest tag numbers equal rpm's (rpmtag.h)")
    from tagtable import check_tag_numbers
    check_tag_numbers(f, rep, "R7", names={"RPMSIGTAG_MD5", "RPMSIGTAG_SHA1", "RPMSIGTAG_SHA256", "RPMTAG_PAYLOADDIGEST", "RPMTAG_PAYLOADDIGESTALGO", "RPMTAG_SHA256HEADER", "RPMTAG_SHA1HEADER"})

    # ---- R5 numbering ------------------------------------------------------------------------
    adt = f.adt("DigestAlgorithm")
    got = {v["name"]: int(v["discr"]) for v in adt["variants"]}
    for name, val in got.items():
        want = OPENPGP_HASH_IDS.get(name)
        rep.check(want == val, "R5", "digest-algo|%s" % name, "DigestAlgorithm::%s = %s" % (name, val),
                  "DigestAlgorithm::%s = %s, OpenPGP hash id is %s" % (name, val, want))
    rep.check("Sha2_256" in got, "R5", "digest-algo|has-sha256", "Sha2_256 exists", "DigestAlgorithm has no Sha2_256")
