"""C10 - after any signing history a package verifies with exactly the last signer's key.

Decided (effect footprint and freshness; the histories themselves quantify over runtime keys):
  R1  sign / sign_with_timestamp / clear_signatures write nothing but self.metadata.signature
  R2  the new signature header is built from scratch: nothing of the previous one flows into it
  R3  legacy tag table of SignatureHeaderBuilder::build (OpenPGP algorithm id -> RSA/DSA tag, else error);
      OpenPGP entries are the base64 (standard alphabet) of the very signature bytes
  R4  signature_key_ids: the issuer-count guard tests the ids of the signature just parsed, in both
      branches, and the reported ids derive from the package's own signature tags
  R5  digest after sign/clear: see C08.R2 (re-checked here for the two functions)
Not decided: "verifies iff the last signer's key" over histories (runtime keys / crypto).
"""
import re
from engine import op_place, proj_key, place_str
from terms import TermBuilder, render, strip_proj
from common import switch_info, err_assign_blocks, reach_from, ok_assign_blocks, fmt_key, call_leaves

MUTATORS = ["Package::sign", "Package::sign_with_timestamp", "Package::clear_signatures"]
# OpenPGP public-key algorithm ids (RFC 4880 / 9580)
LEGACY = {1: "RPMSIGTAG_RSA", 19: "RPMSIGTAG_DSA", 22: "RPMSIGTAG_DSA", 27: "RPMSIGTAG_DSA"}


def self_writes(body):
    """[(kind, path_string, detail)] of every write / mutable borrow rooted at `self` (local 1)."""
    out = []
    # locals that alias (reborrow) self
    alias = {1}
    changed = True
    while changed:
        changed = False
        for bb in body.reachable():
            for st in body.stmts(bb):
                if st["k"] != "assign" or st["lhs"]["p"]:
                    continue
                rv = st["rv"]
                src = None
                if rv["r"] == "ref" and rv["mut"] and rv["p"]["l"] in alias and [proj_key(p) for p in rv["p"]["p"]] == ["*"]:
                    src = rv["p"]["l"]
                elif rv["r"] == "use" and op_place(rv["o"]) and op_place(rv["o"])["l"] in alias and not op_place(rv["o"])["p"]:
                    src = op_place(rv["o"])["l"]
                if src is not None and st["lhs"]["l"] not in alias:
                    alias.add(st["lhs"]["l"])
                    changed = True
    for bb in body.reachable():
        for st in body.stmts(bb):
            if st["k"] != "assign":
                continue
            lhs = st["lhs"]
            if lhs["l"] in alias and lhs["p"]:
                path = "".join(proj_key(p) for p in lhs["p"] if proj_key(p) != "*")
                out.append(("assign", path, "line %s" % st.get("line")))
            rv = st["rv"]
            if rv["r"] == "ref" and rv["mut"] and rv["p"]["l"] in alias:
                path = "".join(proj_key(p) for p in rv["p"]["p"] if proj_key(p) != "*")
                if path:
                    out.append(("borrow_mut", path, "line %s" % st.get("line")))
    # whole-self reborrows passed to calls
    for c in body.calls():
        for i, a in enumerate(c.args):
            pl = op_place(a)
            if pl is not None and not pl["p"] and pl["l"] in alias and body.local_ty(pl["l"]).startswith("&mut"):
                out.append(("pass_self", c.decl, "arg %d line %s" % (i, c.line)))
    return out


def run(f, fixture, rep, cfg, tier):
    rep.explanation = (
        "Effect-footprint analysis of Package::{sign, sign_with_timestamp, clear_signatures} over MIR (every assignment and "
        "mutable borrow rooted at self, closed over the callees that receive &mut self), provenance terms of the new "
        "signature header (freshness), the arm table of SignatureHeaderBuilder::build and the provenance of the operand "
        "of the issuer-count guard in signature_key_ids. These clauses make header and payload immutable under any "
        "history and forbid an older signature from surviving; which key verifies is a runtime question and is not decided.")
    rep.trusted = ["rustc nightly MIR / borrow checker", "pgp crate's issuer(), base64 crate's standard engine", "OpenPGP algorithm ids"]
    for r, d in (("R1", "write footprint = {metadata.signature}"), ("R2", "freshness of the new signature header"),
                 ("R3", "legacy tag table / base64"), ("R4", "issuer-count guard operand"), ("R5", "digest after sign/clear"), ("R6", "pgp signer and verifier are given the same bytes")):
        rep.rule(r, d)
    if cfg == "no-default":
        rep.ok("R1", "no signature support compiled in this configuration")
        return

    bodies = {}
    for n in MUTATORS:
        bodies[n] = f.one(n)
    allowed_calls = {b.path for b in bodies.values()}
    for n, b in bodies.items():
        ws = self_writes(b)
        rep.count("self_write_sites", len(ws))
        for (kind, path, detail) in ws:
            if kind == "pass_self":
                rep.check(path in allowed_calls, "R1", "%s|pass-self|%s" % (n, path), "%s hands &mut self only to %s" % (n, path),
                          "%s passes &mut self to %s, whose effects are outside the footprint" % (n, path), "%s %s" % (b.file, detail))
            else:
                rep.check(path == ".metadata.signature", "R1", "%s|%s|%s" % (n, kind, path), "%s writes self%s" % (n, path),
                          "%s %s self%s: signing/clearing must leave lead, header and payload untouched" % (n, "assigns" if kind == "assign" else "mutably borrows", path),
                          "%s %s" % (b.file, detail))
    for n in ("Package::sign_with_timestamp", "Package::clear_signatures"):
        b = bodies[n]
        ws = [w for w in self_writes(b) if w[0] == "assign" and w[1] == ".metadata.signature"]
        rep.check(len(ws) >= 1, "R1", "%s|replaces-signature" % n, "%s replaces the signature header" % n, "%s no longer assigns self.metadata.signature" % n, b.span)
        # R2 freshness
        tb = TermBuilder(b)
        for bb in b.reachable():
            for st in b.stmts(bb):
                if st["k"] == "assign" and st["lhs"]["l"] == 1 and "".join(proj_key(p) for p in st["lhs"]["p"] if proj_key(p) != "*") == ".metadata.signature":
                    t = render(tb.term(st["rv"]["o"])) if st["rv"]["r"] == "use" else render(tb.term(st["lhs"]))
                    fresh = "self.metadata.signature" not in t and "SignatureHeaderBuilder::new()" in t and "SignatureHeaderBuilder::build(" in t
                    rep.check(fresh, "R2", "%s|fresh" % n, "%s builds the new signature header from SignatureHeaderBuilder::new()" % n,
                              "%s: the new signature header depends on the old one or is not built from scratch: %s" % (n, t[:240]), "%s:%s" % (b.file, st.get("line")))
                    want_digest = "set_sha256_digest(rpm::headers::signatures::SignatureHeaderBuilder::new(), hex(sha256(buf[ser(self.metadata.header)])))"
                    rep.check(want_digest in t, "R5", "%s|digest" % n, "%s records sha256 of the serialised main header" % n,
                              "%s: the new signature header does not carry hex(sha256(serialised header)): %s" % (n, t[:240]), "%s:%s" % (b.file, st.get("line")))
                    if n.endswith("sign_with_timestamp"):
                        sig = "add_openpgp_signature(" in t and "rpm::signature::traits::Signing::sign(signer, buf[ser(self.metadata.header)]" in t
                        rep.check(sig, "R2", "%s|signature-added" % n, "the signer's signature over the serialised header is added",
                                  "sign_with_timestamp does not add signer.sign(serialised header): %s" % t[:240], "%s:%s" % (b.file, st.get("line")))
                    else:
                        rep.check("add_openpgp_signature(" not in t, "R2", "%s|no-signature" % n, "clear_signatures adds no signature",
                                  "clear_signatures adds a signature", "%s:%s" % (b.file, st.get("line")))
    # every successful return replaced the signature header (no early `Ok` that keeps an earlier signer's signatures), and nothing
    # of the package is touched before the fallible steps succeeded (a failed sign leaves the package as it was)
    from common import ok_assign_blocks as _okb
    for n in ("Package::sign_with_timestamp", "Package::clear_signatures"):
        b = bodies[n]
        assigns = []
        passers = []
        for bb in b.reachable():
            for st in b.stmts(bb):
                if st["k"] == "assign" and st["lhs"]["l"] == 1 and "".join(proj_key(p) for p in st["lhs"]["p"] if proj_key(p) != "*") == ".metadata.signature":
                    assigns.append(bb)
        for c in b.calls():
            if c.rpath in allowed_calls or c.decl in allowed_calls or any(c.decl.endswith(x.split("::", 1)[-1]) and "Package::" in c.decl for x in MUTATORS):
                if any(b.local_ty(op_place(a)["l"]).startswith("&mut ") and "package::Package" in b.local_ty(op_place(a)["l"]) for a in c.args[:1] if op_place(a) is not None):
                    passers.append(c)
        oks = _okb(b)
        rep.check(bool(oks) and all(any(b.dominates(a, o) for a in assigns) for o in oks), "R2", "%s|always-replaces" % n,
                  "%s: every Ok return follows the replacement of the signature header" % n,
                  "%s can return Ok(()) without replacing the signature header: an earlier signer's signatures survive (key ids, verification)" % n, b.span)
        fallible = [c for c in b.calls() if c.decl == "rpm::signature::traits::Signing::sign" or c.decl.endswith("Header::<T>::write") or c.decl.endswith("SignatureHeaderBuilder::build") or re.search(r"SignatureHeaderBuilder(::<.*>)?::build$", c.decl)]
        early = [w for w in assigns if any(not b.dominates(fc.bb, w) for fc in fallible)] + [c.bb for c in passers if any(not b.dominates(fc.bb, c.bb) for fc in fallible)]
        # ... and no mutable borrow of a part of the package (e.g. `self.metadata.signature.clear()`) is taken before them
        for bb in b.reachable():
            for st in b.stmts(bb):
                if st["k"] == "assign" and st["rv"]["r"] == "ref" and st["rv"].get("mut") and st["rv"]["p"]["l"] == 1 and [proj_key(p) for p in st["rv"]["p"]["p"] if proj_key(p) != "*"]:
                    if any(not b.dominates(fc.bb, bb) for fc in fallible):
                        early.append(bb)
        rep.check(not early, "R2", "%s|all-or-nothing" % n, "%s changes the package only after signing / serialising succeeded" % n,
                  "%s modifies the package (directly or through another mutator) before its fallible steps have succeeded: a failed attempt leaves it changed" % n, b.span)
    # sign delegates
    sb = bodies["Package::sign"]
    rep.check(any(c.decl.endswith("Package::sign_with_timestamp") for c in sb.calls()), "R1", "sign|delegates", "sign delegates to sign_with_timestamp",
              "sign no longer delegates to sign_with_timestamp", sb.span)

    # ---- R3 -------------------------------------------------------------------------------
    if cfg in ("default", "default+bzip2"):
        bb_ = f.one("SignatureHeaderBuilder::build")
        tb = TermBuilder(bb_)
        alg_sw = None
        build_b = bb_
        # the table may sit in build() itself, or in a closure it maps over the signatures (with a helper spliced in)
        for cand in [bb_] + list(f.closures_of(bb_)):
            tcand = TermBuilder(cand)
            for sbk in sorted(cand.reachable()):
                info = switch_info(cand, sbk)
                if info and info["kind"] == "discr" and render(tcand.term(info["place"])).endswith(".config.pub_alg"):
                    alg_sw = info
                    bb_ = cand
        if rep.anchor(alg_sw is not None, "R3", "match on the signature's public-key algorithm"):
            def tag_at(target):
                seen = set()
                cur = target
                for _ in range(4):
                    if cur in seen:
                        break
                    seen.add(cur)
                    for st in bb_.stmts(cur):
                        if st["k"] == "assign" and st["rv"]["r"] == "agg" and st["rv"].get("adt", "").endswith("IndexSignatureTag"):
                            return st["rv"]["variant"]
                    sc = bb_.succ(cur)
                    if len(sc) != 1:
                        break
                    cur = sc[0]
                return None
            got = {v: tag_at(t) for v, t in alg_sw["targets"].items()}
            rep.check(got == LEGACY, "R3", "legacy-table", "algorithm id -> legacy tag table is %s" % LEGACY,
                      "algorithm id -> legacy tag table is %s, expected %s" % (got, LEGACY), bb_.span)
            r = reach_from(bb_, alg_sw["otherwise"])
            errs = {v for (b2, v) in err_assign_blocks(bb_) if b2 in r}
            rep.check(errs == {"UnsupportedPGPKeyType"} and not (r & set(ok_assign_blocks(bb_))), "R3", "legacy-table|other",
                      "any other algorithm is Err(UnsupportedPGPKeyType)", "other algorithms lead to %s" % sorted(map(str, errs)), bb_.span)
        table_b = bb_
        bb_ = build_b
        ents = [(render(tb.term(c.args[0])), render(tb.term(c.args[2])), c) for c in bb_.calls() if re.search(r"IndexEntry::<.*>::new$", c.decl)]
        op = [e for e in ents if e[0].endswith("RPMSIGTAG_OPENPGP{}")]
        # `signatures.iter().map(|s| encode_sig(s)).collect()` is the loop that pushes encode_sig(s) for every s
        mapped = False
        if len(op) == 1:
            import idioms
            t_op = tb.term(op[0][2].args[2])
            if t_op[0] == "agg" and t_op[2] and t_op[2][0][0] == "call" and t_op[2][0][1].endswith("Iterator::collect"):
                mp_ = t_op[2][0][2][0]
                if mp_[0] == "call" and mp_[1].endswith("Iterator::map") and len(mp_[2]) == 2 and render(mp_[2][0]) == "self.openpgp_signatures":
                    ret_, _pn = idioms._closure_ret(f, mp_[2][1])
                    mapped = ret_ is not None and re.fullmatch(r"rpm::headers::signatures::encode_sig\((std::iter::Iterator::next|ELEM)\(self\.openpgp_signatures\)(<Some>\.0)?\)", render(ret_)) is not None
        rep.check(len(op) == 1 and (mapped or "encode_sig(std::iter::Iterator::next(self.openpgp_signatures)<Some>.0)" in op[0][1]) and "StringArray" in op[0][1],
                  "R3", "openpgp-entry", "RPMSIGTAG_OPENPGP <- [encode_sig(sig) for sig in given signatures] in order",
                  "RPMSIGTAG_OPENPGP is built as %s" % [e[1][:200] for e in op], bb_.span)
        leg = [e for e in ents if "RPMSIGTAG_RSA" in e[0] or "RPMSIGTAG_DSA" in e[0]]
        if not leg and table_b is not build_b:
            # the tag is the last of the per-signature tags computed by the mapped closure, the bytes the last signature
            leg = [e for e in ents if re.fullmatch(r"core::slice::<impl \[T\]>::last\(std::iter::Iterator::collect\(std::iter::Iterator::map\(self\.openpgp_signatures, closure\{\}\)\)(<Ok>\.0)?\)<Some>\.0", e[0])]
        LAST_SIG = "rpm::headers::header::IndexData::Bin{core::slice::<impl [T]>::last(self.openpgp_signatures)<Some>.0}"
        rep.check(len(leg) == 1 and leg[0][1] in ("rpm::headers::header::IndexData::Bin{std::iter::Iterator::next(self.openpgp_signatures)<Some>.0}", LAST_SIG), "R3", "legacy-entry",
                  "the legacy tag carries the raw signature bytes", "the legacy tag is built as %s" % [e[1][:200] for e in leg], bb_.span)
        sha = [e for e in ents if e[0].endswith("RPMSIGTAG_SHA256{}")]
        rep.check(len(sha) == 1 and sha[0][1] == "rpm::headers::header::IndexData::StringTag{self.header_sha256<Some>.0}", "R3", "sha256-entry",
                  "RPMSIGTAG_SHA256 <- the digest given to the builder", "RPMSIGTAG_SHA256 is built as %s" % [e[1][:200] for e in sha], bb_.span)
        enc = f.one("signatures::encode_sig")
        te = TermBuilder(enc)
        calls = [c for c in enc.calls() if c.decl == "base64::Engine::encode"]
        ok = len(calls) == 1 and render(te.term(calls[0].args[1])) == "signature"
        eng = calls[0].args[0].get("k", {}) if calls else {}
        rep.check(ok, "R3", "encode_sig", "encode_sig base64-encodes its whole argument", "encode_sig no longer encodes its argument as a whole", enc.span)
        # the engine operand is a promoted/const reference to BASE64_STANDARD: check the const item it names when visible
        names = [lf["k"].get("item") or lf["k"].get("s") for lf in enc.origins(calls[0].args[0]) if lf["kind"] == "const"] if calls else []
        rep.notes.append("encode_sig engine operand: %s" % names)

        # ---- R6 -------------------------------------------------------------------------------
        from c02 import check_pgp_data
        check_pgp_data(f, rep, "R6", cfg)
        # the signer names its key exactly once: signature_key_ids() accepts a signature only if it carries exactly one
        # issuer id (hashed and unhashed areas together), so a second Issuer subpacket makes the fresh signature unreportable
        if "no-default" not in cfg:
            ps_ = [x for x in f.body_list if x.impl_trait == "rpm::signature::traits::Signing" and x.name == "sign" and "pgp::Signer" in (x.impl_self or "")]
            if rep.anchor(len(ps_) == 1, "R4", "pgp Signer::sign"):
                sb_ = ps_[0]
                tsb = TermBuilder(sb_)
                iss = []
                for cb_ in [sb_] + list(f.closures_of(sb_)):
                    inloop = set()
                    for (_h, blks) in cb_.loops():
                        inloop |= blks
                    for bb_ in cb_.reachable():
                        for st_ in cb_.stmts(bb_):
                            if st_["k"] == "assign" and st_["rv"]["r"] == "agg" and st_["rv"].get("adt", "").endswith("SubpacketData") and st_["rv"].get("variant") == "Issuer":
                                iss.append((cb_, bb_, bb_ in inloop or cb_ is not sb_, render(TermBuilder(cb_).term(st_["rv"]["ops"][0])), st_.get("line")))
                rep.check(len(iss) == 1 and not iss[0][2], "R4", "signer|issuer-once", "the signer adds exactly one Issuer subpacket",
                          "the signer adds %d Issuer subpackets%s: signature_key_ids() only accepts a signature with exactly one issuer id" % (len(iss), " (in a loop / closure)" if any(x[2] for x in iss) else ""),
                          "%s:%s" % (sb_.file, iss[-1][4] if iss else None))
                for x in iss:
                    rep.check(re.fullmatch(r"pgp::types::PublicKeyTrait::key_id\(self\.secret_key\)", x[3]) is not None, "R4", "signer|issuer-own-key", "the Issuer subpacket names the signing key",
                              "the Issuer subpacket carries %s, not the id of the signing key" % x[3][:120], "%s:%s" % (sb_.file, x[4]))

        # ---- R4 -------------------------------------------------------------------------------
        kb = f.one("Package::signature_key_ids")
        tk = TermBuilder(kb)
        guards = []
        for sbk in sorted(kb.reachable()):
            info = switch_info(kb, sbk)
            if info and info["kind"] == "cmp" and info["stmt"]["rv"]["op"] in ("Ne", "Eq"):
                rv = info["stmt"]["rv"]
                mism = info["true"] if rv["op"] == "Ne" else info["false"]
                errs = {v for (b2, v) in err_assign_blocks(kb) if b2 in reach_from(kb, mism)}
                if "UnexpectedIssuerCount" in errs:
                    a, b2 = render(tk.term(rv["a"])), render(tk.term(rv["b"]))
                    guards.append((sbk, a, b2, info))
            elif info and info["kind"] == "bool" and re.search(r"(Vec::<T, A>|<impl \[T\]>)::len$", info["call"].decl) and [int(v) for v, _b in kb.term(sbk)["targets"]] == [1]:
                # `match ids.len() { 1 => .., n => Err(UnexpectedIssuerCount(n)) }`
                errs = {v for (b2, v) in err_assign_blocks(kb) if b2 in reach_from(kb, info["false"])}
                if "UnexpectedIssuerCount" in errs:
                    fake = {"stmt": {"rv": {"a": {"c": info["call"].dest}, "b": {"k": {"ty": "usize", "s": "1_usize", "bits": "1", "size": 8}}, "op": "Ne"}}}
                    guards.append((sbk, render(tk.term({"c": info["call"].dest})), "1_usize", fake))
        rep.floor("R4", "issuer-count guards in signature_key_ids", len(guards), 2)
        for i, (sbk, a, b2, info) in enumerate(guards):
            operand = a if b2 == "1_usize" else b2
            const_ok = "1_usize" in (a, b2)
            fresh = operand.startswith("std::vec::Vec::<T, A>::len(std::iter::Iterator::collect(std::iter::Iterator::map(pgp::Signature::issuer(")
            if not fresh and operand.startswith("std::vec::Vec::<T, A>::len(") and "pgp::Signature::issuer(" in operand:
                # built with a loop instead of map/collect: the tested vector must be created after this signature was parsed
                # (an accumulator that lives across signatures is created before) and filled from issuer() only
                rvg = info["stmt"]["rv"]
                lenop = rvg["a"] if b2 == "1_usize" else rvg["b"]
                parses = [c for c in kb.calls() if c.decl.endswith("Verifier::parse_signature") and kb.dominates(c.bb, sbk)]
                ctors = set()
                for lc in call_leaves(kb, lenop):
                    if lc.decl.endswith("Vec::<T, A>::len"):
                        for l3 in kb.origins(lc.args[0]):
                            if l3["kind"] == "call":
                                ctors.add(l3["call"])
                fresh = bool(ctors) and bool(parses) and all(any(kb.dominates(p_.bb, c_.bb) for p_ in parses) for c_ in ctors) and \
                    len({p_[:80] for p_ in operand.split("pgp::Signature::issuer(")[1:]}) == 1
            branch = "openpgp" if "Base64Decoder" in operand or "RPMSIGTAG_OPENPGP" in operand or not fresh and i == 0 else "legacy"
            rep.check(const_ok and fresh, "R4", "guard|%s" % branch, "the %s branch tests the issuer count of the signature just parsed" % branch,
                      "the %s branch's UnexpectedIssuerCount guard tests %s - not the issuer ids of the signature just parsed" % (branch, operand[:200]),
                      "%s:%s" % (kb.file, kb.term(sbk).get("line")))
        # the id is printed in full: either the KeyId's own LowerHex impl, or every byte as two hex digits
        hexes = []
        work, seenk = [kb], set()
        while work:
            cb = work.pop()
            if cb.path in seenk:
                continue
            seenk.add(cb.path)
            work += f.closures_of(cb)
            for c in cb.calls():
                if c.decl.endswith("Argument::<'_>::new_lower_hex") or c.decl.endswith("Argument::<'_>::new_upper_hex"):
                    hexes.append((cb, c))
        rep.floor("R4", "hex formatting sites of key ids", len(hexes), 1)
        for i, (cb, c) in enumerate(hexes):
            ty = c.gargs[-1] if c.gargs else ""
            if "KeyId" in ty:
                rep.ok("R4", "key id #%d printed with KeyId's own LowerHex" % i, c.loc())
                continue
            tpl = [x for x in f.fmt if x["file"] == cb.file and x["line"] == c.line]
            padded = bool(tpl) and all(re.search(r"width: Some\(\w*\(?2\)?\)", pc.get("opts", "")) and "zero_pad: true" in pc.get("opts", "") for x in tpl for pc in x["pieces"] if pc.get("trait") in ("LowerHex", "UpperHex"))
            rep.check(re.search(r"\bu8\b", ty) is not None and padded, "R4", "key-id-format|#%d" % i, "key id bytes are printed as two hex digits each",
                      "a key id is printed piecewise (%s) without fixed-width zero padding: an id with a byte below 0x10 loses a digit" % ty, c.loc())
        ret = render(tk.term({"l": 0, "p": [{"d": "Ok"}, {"f": 0, "n": "0"}]}))
        rep.check("pgp::Signature::issuer(" in ret and "self.metadata.signature" in ret, "R4", "reported-ids",
                  "the reported ids are issuer ids of signatures read from the package's signature header",
                  "the reported key ids derive from %s" % ret[:240], kb.span)

    # ---- R7 "its digests still verify": rests on verify_digests deciding by comparison only (C03.R1-R4) -----------------------
    # sign / clear rebuild the signature header with fewer digests than a foreign package may have carried; verify_digests must
    # then still succeed, i.e. it may fail only where a recorded digest was compared and differed
    rep.rule("R7", "digest verification after sign / clear is decided by comparisons only (C03.R1-R4)")
    rep.include("c03", f, fixture, cfg, tier, "R7", "digest verification", only_rules={"R1", "R2", "R3", "R4"}, floor=20)

    # ---- R8 "write / re-parse" steps of a history: rest on the reader's chunk independence and on the signature padding -----------
    # (C14.R5: the parse cone reads with read_exact / read_to_end only; C01.R6: reader, writer and offsets share one padding function)
    rep.rule("R8", "re-parsing what was written does not depend on how the source chunks its reads (C14.R5, C01.R6)")
    rep.include("c14", f, fixture, cfg, tier, "R8", "parse cone reads", only_rules={"R5"}, floor=3)
    rep.include("c01", f, fixture, cfg, tier, "R8", "signature padding", only_rules={"R6"}, floor=3)
