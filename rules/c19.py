"""C19 - capability text is accepted only when every clause is well formed.

  R1  per-clause checks depend on the clause: no error guard inside the clause loop tests a loop-invariant value
  R2  validation dominates construction of FileCaps, on the same string, with the error propagated
  R3  accepted text is stored verbatim; Display prints it unchanged
  R4  FileOptionsBuilder::caps maps validator failure to InvalidCapabilities
  R5  operator / flag / capability-name tables equal the oracle
  R6  no panic (site audit of the validator)
Not decided: exact language equality with the grammar (e.g. whether an operator with no flags is a group).
"""
import re
from engine import op_place
from terms import TermBuilder, render
from common import switch_info, err_assign_blocks, ok_assign_blocks, reach_from, residual_return_blocks, fmt_key
from audit import Auditor
import c17

LINUX_CAPS = ["CAP_CHOWN", "CAP_DAC_OVERRIDE", "CAP_DAC_READ_SEARCH", "CAP_FOWNER", "CAP_FSETID", "CAP_KILL", "CAP_SETGID", "CAP_SETUID", "CAP_SETPCAP",
              "CAP_LINUX_IMMUTABLE", "CAP_NET_BIND_SERVICE", "CAP_NET_BROADCAST", "CAP_NET_ADMIN", "CAP_NET_RAW", "CAP_IPC_LOCK", "CAP_IPC_OWNER", "CAP_SYS_MODULE",
              "CAP_SYS_RAWIO", "CAP_SYS_CHROOT", "CAP_SYS_PTRACE", "CAP_SYS_PACCT", "CAP_SYS_ADMIN", "CAP_SYS_BOOT", "CAP_SYS_NICE", "CAP_SYS_RESOURCE", "CAP_SYS_TIME",
              "CAP_SYS_TTY_CONFIG", "CAP_MKNOD", "CAP_LEASE", "CAP_AUDIT_WRITE", "CAP_AUDIT_CONTROL", "CAP_SETFCAP", "CAP_MAC_OVERRIDE", "CAP_MAC_ADMIN", "CAP_SYSLOG",
              "CAP_WAKE_ALARM", "CAP_BLOCK_SUSPEND", "CAP_AUDIT_READ", "CAP_PERFMON", "CAP_BPF", "CAP_CHECKPOINT_RESTORE"]
OPS = {ord("="), ord("+"), ord("-")}
FLAGS = {ord("e"), ord("i"), ord("p")}


def error_blocks(b):
    return {bb for (bb, _v) in err_assign_blocks(b)} | {bb for (bb, _c) in residual_return_blocks(b)}


def run(f, fixture, rep, cfg, tier):
    rep.explanation = (
        "Loop-invariance, dominance and table rules over the MIR of the capability-text validator: every branch that can reject "
        "inside the per-clause loop must be data-dependent on the loop item; every FileCaps construction is dominated by a "
        "propagated validate_caps_text on the same string and stores that string unchanged; the operator / flag character "
        "switch tables and the capability-name constant equal the oracle; panic-site audit of the validator.")
    rep.trusted = ["rustc nightly MIR", "str::split_whitespace / find / eq_ignore_ascii_case semantics", "Linux capability names (capability.h)"]
    for r, d in (("R1", "per-clause guards depend on the clause"), ("R2", "validation dominates construction"), ("R3", "verbatim storage"),
                 ("R4", "error mapping"), ("R5", "tables"), ("R6", "no panic")):
        rep.rule(r, d)
    v = f.one("filecaps::validate_caps_text")
    tb = TermBuilder(v)
    # ---- R1 -------------------------------------------------------------------------------
    loops = v.loops()
    nx = [c for c in v.calls() if c.decl == "std::iter::Iterator::next" and "SplitWhitespace" in (c.self_ty or "")]

    def clause_guards(cbody, ctb, item, blocks, head_bb, is_own_next):
        """every branch of the per-clause code that can reject depends on the clause (`item`), not on something fixed for the text"""
        errs = error_blocks(cbody)
        oks = set(ok_assign_blocks(cbody))
        # a tail call (`validate_suffix(rest)` as the last expression) is a success-capable return as well
        oks |= {bb for (bb, idx, kind, payload, lhs_proj) in cbody.defs(0) if kind == "call" and cbody.call_at(bb).decl != "std::ops::FromResidual::from_residual"}
        n = 0
        for sb in sorted(blocks):
            if cbody.term(sb)["t"] != "switch":
                continue
            info = switch_info(cbody, sb)
            succs = cbody.succ(sb)
            blocked = {head_bb} if head_bb is not None else set()
            rejecting = [s_ for s_ in succs if (reach_from(cbody, s_, blocked_blocks=blocked) & errs)]
            passing = [s_ for s_ in succs if (head_bb is not None and head_bb in reach_from(cbody, s_)) or (reach_from(cbody, s_) & oks)]
            if not rejecting or len(rejecting) == len(succs) and not passing:
                continue
            if info["kind"] == "discr":
                dep = render(ctb.term(info["place"]))
            elif info["kind"] == "bool":
                dep = " ".join(render(ctb.term(a)) for a in info["call"].args)
            elif info["kind"] == "cmp":
                rv = info["stmt"]["rv"]
                dep = render(ctb.term(rv["a"])) + " " + render(ctb.term(rv["b"]))
            elif info["kind"] == "value":
                dep = render(ctb.term(info["place"]))
            else:
                pl = op_place(cbody.term(sb)["d"])
                dep = render(ctb.term(pl)) if pl else "?"
            if info["kind"] == "discr" and is_own_next(info):
                continue  # the loop's own `match iter.next()`
            n += 1
            depends = item in dep
            line = cbody.term(sb).get("line")
            rep.check(depends, "R1", "guard|line-condition|%s" % ("item" if depends else re.sub(r"[^A-Za-z_:]+", "_", dep)[:60]),
                      "the rejecting branch at line %s depends on the clause" % line,
                      "a rejecting branch of the per-clause code (line %s) tests %s, which does not depend on the clause being examined: the rule is applied to the whole text" % (line, dep[:160]),
                      "%s:%s" % (cbody.file, line))
        return n

    # the per-clause code: the body of a loop over split_whitespace(), or a closure / function handed to an iterator adaptor over it
    per_clause = None
    if len(nx) == 1 and loops:
        item = "std::iter::Iterator::next(%s)<Some>.0" % render(tb.term(nx[0].args[0]))
        blocks = [blks for (_h, blks) in loops if nx[0].bb in blks][0]
        per_clause = (v, tb, item, blocks, nx[0].bb, lambda info: canon_is_next(v, info, nx[0]))
    else:
        for c in v.calls():
            if re.search(r"Iterator::(try_for_each|all|any|for_each|try_fold|find|find_map)$", c.decl) and c.args and "split_whitespace(" in render(tb.term(c.args[0])):
                for lf in v.origins(c.args[-1], passthrough={}):
                    cb_ = None
                    if lf["kind"] == "agg" and lf["stmt"]["rv"].get("ak") == "closure":
                        cb_ = f.bodies.get(lf["stmt"]["rv"]["closure"])
                        pn = 2
                    elif lf["kind"] == "const" and "fn" in lf["k"]:
                        fnk = lf["k"]["fn"]
                        cb_ = f.bodies.get((fnk.get("r") or {}).get("path") or fnk["path"])
                        pn = 1
                    if cb_ is not None:
                        per_clause = (cb_, TermBuilder(cb_), cb_.local_name(pn) or "_%d" % pn, set(cb_.reachable()), None, lambda info: False)
    if rep.anchor(per_clause is not None, "R1", "per-clause code of validate_caps_text (loop over split_whitespace() or an adaptor over it)"):
        n = clause_guards(*per_clause)
        rep.floor("R1", "rejecting branches in the per-clause code", n, 3)

    # ---- R2 / R3 ----------------------------------------------------------------------------
    ctors = []
    for b in f.body_list:
        if b.derived:
            continue  # derive(Clone) copies an already validated value
        for bb in b.reachable():
            for st in b.stmts(bb):
                if st["k"] == "assign" and st["rv"]["r"] == "agg" and st["rv"].get("adt", "").endswith("filecaps::FileCaps"):
                    ctors.append((b, bb, st))
    rep.floor("R2", "FileCaps constructions", len(ctors), 2)
    for (b, bb, st) in ctors:
        t = TermBuilder(b)
        stored = render(t.term(st["rv"]["ops"][0]))
        vals = [c for c in b.calls() if c.decl.endswith("filecaps::validate_caps_text") and b.dominates(c.bb, bb)]
        ok = False
        same = False
        for c in vals:
            via_q = any(isinstance(u[2], tuple) and b.call_at(u[0]).decl == "std::ops::Try::branch" for u in b.uses(c.dest["l"]))
            arg = render(t.term(c.args[0]))
            if via_q:
                ok = True
                same = same or (arg == stored)
        key = fmt_key(b.path)
        rep.check(ok, "R2", "%s|validated" % key, "%s validates before constructing FileCaps" % key,
                  "%s constructs FileCaps without a dominating, `?`-propagated validate_caps_text" % b.path, "%s:%s" % (b.file, st.get("line")))
        rep.check(same, "R3", "%s|verbatim" % key, "%s stores exactly the validated string" % key,
                  "%s stores %s but validated something else (accepted text must be kept verbatim)" % (b.path, stored[:120]), "%s:%s" % (b.file, st.get("line")))
        params = [b.local_name(i) for i in range(1, b.argc + 1)]
        rep.check(stored in params, "R3", "%s|stores-argument" % key, "%s stores its argument unchanged" % key,
                  "%s stores %s, not its argument" % (b.path, stored[:120]), "%s:%s" % (b.file, st.get("line")))
        # ... and nothing edits that text in place between validation and storage (truncate / push / make_ascii_lowercase ...)
        edits = []
        for i in range(1, len(b.locals)):
            if b.local_name(i) == stored or (i <= b.argc and stored in params and b.local_name(i) == stored):
                edits += [c.decl for (c, _ai) in b.mut_borrow_calls(i)]
                edits += ["assignment" for (_bb, _idx, kind, _pl, lhs_proj) in b.defs(i) if kind == "assign" and i <= b.argc]
        rep.check(not edits, "R3", "%s|unedited" % key, "%s never edits the text it stores" % key,
                  "%s edits the validated text in place (%s) before storing it: the stored capability text is not the caller's" % (b.path, sorted(set(edits))), "%s:%s" % (b.file, st.get("line")))
    disp = [b for b in f.body_list if b.impl_trait == "std::fmt::Display" and (b.impl_self or "").endswith("filecaps::FileCaps") and b.name == "fmt"]
    if rep.anchor(len(disp) == 1, "R3", "Display for FileCaps"):
        t = TermBuilder(disp[0])
        args = [c for c in disp[0].calls() if c.decl.endswith("Argument::<'_>::new_display")]
        rep.check(len(args) == 1 and render(t.term(args[0].args[0])) == "self.0", "R3", "display", "Display prints the stored text",
                  "Display prints %s" % [render(t.term(a.args[0])) for a in args], disp[0].span)

    # ---- R4 -------------------------------------------------------------------------------------
    cb = f.one("FileOptionsBuilder::caps")
    from common import constructed_errors
    errs = {x for (_b, x) in err_assign_blocks(cb)} | constructed_errors(f, cb)
    # the builder hands the caller's text to FileCaps::from_str as given (trimming or re-casing it would store something else)
    tcb = TermBuilder(cb)
    fs = [c for c in cb.calls() if c.decl == "std::str::FromStr::from_str" or c.decl.endswith("FileCaps::new") or c.decl.endswith("FileCaps as std::str::FromStr>::from_str")]
    if rep.check(len(fs) == 1, "R3", "caps|constructs", "caps() constructs the value through FileCaps::from_str / new", "caps() has %d FileCaps constructions" % len(fs), cb.span):
        got = render(tcb.term(fs[0].args[0]))
        rep.check(got == (cb.local_name(2) or "_2"), "R3", "caps|verbatim", "caps() passes the caller's text unchanged",
                  "caps() passes %s to FileCaps, not the text it was given: the stored capability text differs from the caller's" % got[:160], fs[0].loc())
    # every successful caps() call went through the validator (no shortcut for "blank" or otherwise special text)
    oks_cb = ok_assign_blocks(cb)
    rep.check(bool(fs) and bool(oks_cb) and all(any(cb.dominates(c_.bb, o_) for c_ in fs) for o_ in oks_cb), "R2", "caps|always-validates",
              "caps() returns Ok only after FileCaps validated the text", "caps() can return Ok without validating the text (a path to Ok bypasses FileCaps::from_str)", cb.span)
    rep.check(errs == {"InvalidCapabilities"}, "R4", "caps|error-mapping", "caps() reports InvalidCapabilities", "caps() error exits are %s" % sorted(map(str, errs)), cb.span)

    # ---- R5 tables --------------------------------------------------------------------------------
    vs = f.one("filecaps::validate_suffix")
    ts = TermBuilder(vs)
    char_sw = None
    adj_sw = None
    for sb in sorted(vs.reachable()):
        t = vs.term(sb)
        if t["t"] != "switch":
            continue
        vals = {int(x) for x, _b in t["targets"]}
        if vals == OPS | FLAGS or (vals & OPS and vals & FLAGS):
            char_sw = (sb, t)
        elif vals <= OPS and vals and len(vals) > 1:
            adj_sw = (sb, t)
    errs = error_blocks(vs)
    # the verdict table itself, whatever the code's shape: abstract evaluation of validate_suffix on a symbolic text of up to four
    # characters (suffixfsm.py), compared with the specification for every class assignment consistent with each path.  When the
    # body cannot be evaluated (it leaves the domain) the structural rules below decide instead.
    table_decides = False
    try:
        from suffixfsm import evaluate_validator, check_against
        from absint import LeaveDomain as _LD

        def suffix_spec(cs):
            last = None
            for ch_ in cs:
                if ch_ in OPS:
                    if last in OPS:
                        return "Err"
                elif ch_ in FLAGS:
                    if last is None:
                        return ("Ok", "panic")      # never reached from validate_caps_text (R6 / C17 allow entry): a debug assertion
                else:
                    return "Err"
                last = ch_
            return "Ok"
        try:
            tab = evaluate_validator(f, vs, 4)
            alphabet = sorted(OPS | FLAGS | {ord("x"), ord("E"), ord(" "), 0xe9, 0})
            bad, n_cmp, _cov = check_against(tab, suffix_spec, alphabet)
            table_decides = True
            rep.floor("R5", "suffix verdicts compared with the specification (texts of up to 4 characters over an 11-letter alphabet)", n_cmp, 16105)
            rep.check(not bad, "R5", "suffix|table", "validate_suffix accepts exactly operator/flag texts without adjacent operators (all texts up to 4 characters)",
                      "validate_suffix gives the wrong verdict, e.g. %s" % ", ".join("`%s` -> %s (expected %s)" % (t_, g_, "/".join(w_)) for (t_, g_, w_) in bad[:4]), vs.span)
        except _LD as e_:
            rep.notes.append("validate_suffix left the abstract domain (%s): structural rules decide" % str(e_)[:120])
    except ImportError:
        pass
    if table_decides:
        char_sw = adj_sw = None
    elif rep.check(char_sw is not None, "R5", "suffix|char-switch", "validate_suffix dispatches on the character", "no character dispatch found in validate_suffix", vs.span):
        sb, t = char_sw
        by_target = {}
        for x, bb in t["targets"]:
            by_target.setdefault(bb, set()).add(int(x))
        groups = sorted(map(sorted, by_target.values()))
        rep.check(groups == sorted([sorted(OPS), sorted(FLAGS)]), "R5", "suffix|char-table", "operators {=,+,-} and flags {e,i,p} are the only accepted characters",
                  "character classes are %s" % [[chr(c) for c in g] for g in groups], vs.span)
        r = reach_from(vs, t["otherwise"], blocked_blocks={sb})
        rep.check(bool(r & errs), "R5", "suffix|other-char", "any other character is an error", "other characters do not lead to an error", vs.span)
    if not table_decides and rep.check(adj_sw is not None, "R5", "suffix|adjacency-switch", "the previous character is tested in the operator arm", "no adjacency test found", vs.span):
        sb, t = adj_sw
        vals = {int(x) for x, _b in t["targets"]}
        tgt = {bb for _x, bb in t["targets"]}
        rep.check(vals == OPS and all(reach_from(vs, bb, blocked_blocks={char_sw[0]} if char_sw else ()) & errs for bb in tgt), "R5", "suffix|adjacency-table",
                  "an operator directly after an operator is an error", "the adjacency test covers %s" % [chr(c) for c in sorted(vals)], vs.span)
    # "previous character" must be the previous character: the tested state is set to Some(<this iteration's char>) on every
    # path that goes on to the next character (a stale value rejects `=p+e` or accepts `=+`)
    if adj_sw is not None and char_sw is not None:
        pl = op_place(adj_sw[1]["d"])
        state = pl["l"] if pl else None
        nexts = [c for c in vs.calls() if c.decl.endswith("Iterator::next")]
        good_defs = set()
        if state is not None:
            for (dbb, idx, kind, payload, lhs_proj) in vs.defs(state):
                if kind != "assign" or lhs_proj:
                    continue
                rv = payload["rv"]
                aggs = [payload] if rv["r"] == "agg" else [lf["stmt"] for lf in vs.origins(rv["o"], passthrough={}) if lf["kind"] == "agg"] if rv["r"] == "use" else []
                for ag in aggs:
                    if ag["rv"].get("variant") == "Some" and ag["rv"]["ops"]:
                        src = vs.origins(ag["rv"]["ops"][0], passthrough={})
                        if any(x["kind"] == "call" and x["call"].decl.endswith("Iterator::next") for x in src):
                            good_defs.add(dbb)
        if rep.check(bool(good_defs) and len(nexts) == 1, "R5", "suffix|state-update", "the remembered character is set to the character just read",
                     "validate_suffix never stores the character just read into the state its adjacency test reads", vs.span):
            around = reach_from(vs, char_sw[0], blocked_blocks=good_defs)
            rep.check(nexts[0].bb not in around, "R5", "suffix|state-update|every-path", "every accepted character becomes the remembered one before the next is read",
                      "an accepted character can be followed by the next one without being remembered: the adjacency test then compares against a stale character", vs.span)
    vc = f.one("filecaps::validate_capset")
    tc = TermBuilder(vc)
    # the lookup may sit in validate_capset, in a closure it passes to an iterator adaptor, or in a helper of either
    vcone = [vc]
    work = list(f.closures_of(vc))
    while work:
        x = work.pop()
        if x not in vcone:
            vcone.append(x)
            work += f.closures_of(x)
    names = None
    table_refs = 0

    def const_items(x):
        for bb in x.reachable():
            for st in x.stmts(bb):
                if st["k"] == "assign":
                    yield from _items(st["rv"])
            t = x.term(bb)
            for a in t.get("args", []) or []:
                yield from _items(a)

    def _items(o):
        if isinstance(o, dict):
            k = o.get("k")
            if isinstance(k, dict) and k.get("item"):
                yield k["item"]
            for v in o.values():
                if isinstance(v, (dict, list)):
                    yield from _items(v)
        elif isinstance(o, list):
            for v in o:
                yield from _items(v)
    for x in vcone:
        for it in const_items(x):
            c = f.consts.get(it)
            if c and c.get("strs"):
                names = c["strs"]
                table_refs += 1
    lookups = [c for x in vcone for c in x.calls() if re.search(r"(<impl \[T\]>::contains|Iterator::any|Iterator::find|Iterator::position|<impl \[T\]>::binary_search)$", c.decl)]
    if rep.check(table_refs >= 1 and bool(lookups), "R5", "capset|contains", "capability names are looked up in a table", "validate_capset no longer looks names up in a table", vc.span):
        rep.check(names is not None and sorted(names) == sorted(LINUX_CAPS), "R5", "capset|names", "the table holds the %d Linux capability names" % len(LINUX_CAPS),
                  "the capability table differs from capability.h: missing %s, extra %s" % (sorted(set(LINUX_CAPS) - set(names or [])), sorted(set(names or []) - set(LINUX_CAPS))), vc.span)
        ups = [c for x in vcone for c in x.calls() if c.decl.endswith("to_uppercase") or c.decl.endswith("to_ascii_uppercase") or c.decl.endswith("eq_ignore_ascii_case")]
        splits = [c for c in vc.calls() if c.decl.endswith("<impl str>::split") and any("','" in render(tc.term(a)) for a in c.args[1:])]
        rep.check(bool(ups) and bool(splits), "R5", "capset|per-name",
                  "each comma-separated name is upper-cased and looked up", "validate_capset no longer splits at ',' (%d) and upper-cases (%d) each name" % (len(splits), len(ups)), vc.span)
    # no early success inside the per-name scan: a name that follows an accepted one is still looked up
    okb = set(ok_assign_blocks(vc))
    for (hdr, blks) in vc.loops():
        # exits of the scan: the one taken when the iterator is exhausted is the regular end; any other exit that can reach
        # Ok(()) accepts the text before the remaining names were looked at
        inside_ok = []
        for u_ in blks:
            for v_ in vc.succ(u_):
                if v_ in blks:
                    continue
                info_u = switch_info(vc, u_)
                exhausted = False
                if info_u and info_u["kind"] == "discr":
                    lv = vc.origins(info_u["place"], passthrough={})
                    if any(l["kind"] == "call" and l["call"].decl.endswith("Iterator::next") for l in lv) and info_u["targets"].get(0) == v_:
                        exhausted = True
                if not exhausted and (reach_from(vc, v_) & okb):
                    inside_ok.append(v_)
        rep.check(not inside_ok, "R5", "capset|no-early-accept", "validate_capset accepts only after every name was checked",
                  "validate_capset returns Ok(()) from inside its scan over the names: the names after that point are never checked", vc.span)
    alls = [c for c in vc.calls() if c.decl.endswith("eq_ignore_ascii_case")]
    rep.check(len(alls) == 1 and any('"all"' in render(tc.term(a)) for a in alls[0].args), "R5", "capset|all", "'all' is accepted case-insensitively",
              "the 'all' shortcut is no longer an eq_ignore_ascii_case(\"all\") test", vc.span)

    # ---- R6 -------------------------------------------------------------------------------------------
    roots = [v] + [b for b in f.body_list if (b.impl_self or "").endswith("filecaps::FileCaps") and b.kind != "closure" and not b.derived]
    cone = f.cone(roots)
    allow = {k: x for k, x in c17.ALLOW.items() if k.startswith("filecaps::")}
    aud = Auditor(f, rep, "C19", "R6", allow)
    for b in cone.values():
        if not b.derived:
            aud.audit_body(b)
    aud.finish()


def canon_is_next(v, info, nx):
    """Is this discriminant switch the loop's own `match iter.next()`?"""
    from pathsens import canon
    return canon(v, info["place"]) == ("call", nx.bb, ())
