"""C07 - payload iteration returns every file's exact content under its own metadata.

  R1  metadata is selected by the entry's identity (cpio name / stripped file index), never by position alone
  R2  newc header: writer field order == reader field order == oracle (13 x 8 hex digits), name + NUL, 4-byte padding
  R3  stripped entry: writer and reader agree on magic, index field and padding (header and data)
  R4  the entry's size comes from the cpio header (named) or the header's file entry (stripped); reads are limited to it
  R5  the trailer is written once after the file loop; the reader recognises the same constant
  R6  codec table: encoder, decoder, header string and parser key agree per compression type
  R7  files are kept in a BTreeMap keyed by archive path and iterated once
Not decided: actual content/size/digest values; compression-level behaviour.
"""
import re
from engine import op_place, const_int, const_str
from terms import TermBuilder, render
from common import call_leaves, switch_info, arms_of, reach_from, err_assign_blocks, fmt_key
from c01 import agg_fields
from c08 import index_entries

NEWC_FIELDS = ["ino", "mode", "uid", "gid", "nlink", "mtime", "file_size", "dev_major", "dev_minor", "rdev_major", "rdev_minor", "name_len", "checksum"]
CODECS = {
    # variant: (encoder ctor rx, decoder ctor rx, finish rx, header string)
    "Gzip": (r"flate2::write::GzEncoder::<W>::new", r"flate2::bufread::GzDecoder::<R>::new", r"flate2::write::GzEncoder::<W>::finish", "gzip"),
    "Zstd": (r"zstd::Encoder::<'\w+, W>::new", r"zstd::Decoder::<'\w+, .*>::new", r"zstd::Encoder::<'\w+, W>::finish", "zstd"),
    "Xz": (r"liblzma::write::XzEncoder::<W>::new", r"liblzma::bufread::XzDecoder::<R>::new", r"liblzma::write::XzEncoder::<W>::finish", "xz"),
    "Bzip2": (r"bzip2::write::BzEncoder::<W>::new", r"bzip2::bufread::BzDecoder::<R>::new", r"bzip2::write::BzEncoder::<W>::finish", "bzip2"),
}


def count_write_kinds(it):
    """Writes of FileIterator.count in next(): (+1 steps, `= file_entries.len()` terminal assignments, anything else) as block lists."""
    tb = TermBuilder(it)
    steps, terminal, other = [], [], []
    selfs = it.self_aliases()
    for bb in it.reachable():
        for st in it.stmts(bb):
            if st["k"] == "assign" and st["lhs"]["l"] in selfs and [p.get("n") for p in st["lhs"]["p"] if isinstance(p, dict) and "n" in p] == ["count"]:
                r = render(tb.term(st["rv"]["o"])) if st["rv"]["r"] == "use" else "?"
                is_step = False
                if st["rv"]["r"] == "use":
                    for lf in it.origins(st["rv"]["o"], passthrough={}):
                        if lf["kind"] == "bin" and lf["stmt"]["rv"]["op"] in ("AddWithOverflow", "Add", "AddUnchecked"):
                            a_, b_ = lf["stmt"]["rv"]["a"], lf["stmt"]["rv"]["b"]
                            pa = op_place(a_)
                            if const_int(b_) == 1 and pa is not None and pa["l"] in selfs and [p.get("n") for p in pa["p"] if isinstance(p, dict) and "n" in p] == ["count"]:
                                is_step = True
                if is_step:
                    steps.append(bb)
                elif r == "std::vec::Vec::<T, A>::len(self.file_entries)":
                    terminal.append(bb)
                else:
                    other.append(bb)
    return steps, terminal, other


def dom_sorted(b, calls):
    return sorted(calls, key=lambda c: (len(b.dominators().get(c.bb, ())), c.bb))


def arm_calls(b, info, sb):
    arms = arms_of(b, info)
    reach = {t: reach_from(b, t, blocked_blocks={sb}) for t in set(arms.values())}
    common = set.intersection(*reach.values()) if reach else set()
    out = {}
    for name, t in arms.items():
        region = reach[t] - common
        out[name] = [c for c in b.calls() if c.bb in region]
    return out


def run(f, fixture, rep, cfg, tier):
    rep.explanation = (
        "Provenance and sibling-agreement rules over the MIR of the payload path: the metadata handed out with each archive entry "
        "must be selected through the entry's own identity; the cpio header writer's field sequence and the reader's decoder "
        "sequence are compared positionally with each other and with the newc / stripped-cpio oracle including all paddings; "
        "entry sizes, trailer handling and the per-compression-type codec table (encoder, decoder, finish, header string, parser key) "
        "are checked. Content bytes themselves are not computed.")
    rep.trusted = ["rustc nightly MIR", "flate2 / zstd / liblzma / bzip2 encoders and decoders are inverse", "newc and rpm stripped-cpio format documentation"]
    for r, d in (("R1", "identity-based pairing"), ("R2", "newc header agreement"), ("R3", "stripped entry agreement"), ("R4", "size source"),
                 ("R5", "trailer"), ("R6", "codec table"), ("R7", "ordered single pass")):
        rep.rule(r, d)

    # ---- R1 -------------------------------------------------------------------------------------
    it = f.one("FileIterator<'_> as std::iter::Iterator>::next")
    tb = TermBuilder(it)
    ag = agg_fields(it, "package::RpmFile", tb)
    if rep.anchor(ag is not None, "R1", "RpmFile aggregate in FileIterator::next"):
        mt = tb.term(ag[1]["metadata"])
        alts = mt[1] if mt[0] == "phi" else [mt]
        ENTRY = "rpm::payload::Reader::<R>::entry(rpm::payload::Reader::<R>::new(self.archive, self.file_entries)<Ok>.0)"
        for i, a in enumerate(alts):
            r = render(a)
            by_index = re.search(r"<impl \[T\]>::get\(self\.file_entries, usize\(%s<Stripped>\.0\)\)" % re.escape(ENTRY), r) is not None
            by_name = ("Option::<T>::filter(" in r or "Iterator::find(" in r) and "closure{" in r
            rep.check(by_index or by_name, "R1", "metadata|alt%d" % i, "metadata alternative %d is selected %s" % (i, "by the stripped file index" if by_index else "by a name predicate"),
                      "RpmFile.metadata can be %s: chosen without looking at the archive entry (positional pairing breaks on %%ghost files / reordered archives)" % r[:200], it.span)
        cont = render(tb.term(ag[1]["content"]))
        rep.check("std::io::Read::read_to_end(" in cont and "Reader::<R>::new(self.archive" in cont, "R1", "content", "content is read from the entry reader",
                  "RpmFile.content is %s" % cont[:160], it.span)
        # the name predicate compares the normalised names of both sides
        okp = False
        for cb in f.closures_of(it):
            t = TermBuilder(cb)
            for c in cb.calls():
                if c.decl == "std::cmp::PartialEq::eq":
                    a0, a1 = render(t.term(c.args[0])), render(t.term(c.args[1]))
                    if "archive_name(" in a0 and ".path" in a0 and re.fullmatch(r"_1\.\d+", a1.replace("*", "")) is not None:
                        okp = True
                    if "archive_name(" in a1 and ".path" in a1:
                        okp = True
        caps = []
        for bb in it.reachable():
            for st in it.stmts(bb):
                if st["k"] == "assign" and st["rv"]["r"] == "agg" and st["rv"].get("ak") == "closure":
                    caps += [render(tb.term(o)) for o in st["rv"]["ops"]]
        okc = any("archive_name(rpm::payload::CpioEntry::name(" in c and "<Cpio>.0" in c for c in caps)
        rep.check(okp and okc, "R1", "name-predicate", "the predicate compares the header path with the cpio entry's name (both normalised)",
                  "the name predicate does not compare the header path with the archive entry's name (captures: %s)" % [c[:100] for c in caps], it.span)
        # the normalisation may only remove the "./" and "/" prefixes (anything wider makes distinct names collide)
        an = [b for b in f.body_list if b.path.endswith("package::archive_name")]
        if rep.check(len(an) == 1, "R1", "normaliser|exists", "one name normaliser", "the name normaliser archive_name was not found (anchor)"):
            ta = TermBuilder(an[0])
            pats = []
            for c in an[0].calls():
                if re.search(r"<impl str>::(trim_start_matches|strip_prefix|trim_matches|trim_start|trim_left_matches|replace|trim_end_matches)$", c.decl):
                    pats.append((c.decl.rsplit("::", 1)[-1], (const_str(c.args[1]) if len(c.args) > 1 and "k" in c.args[1] else render(ta.term(c.args[1])) if len(c.args) > 1 else "")))
                elif c.local is False and "str" in c.decl and not re.search(r"(as_ref|deref|len|is_empty)$", c.decl):
                    pats.append((c.decl.rsplit("::", 1)[-1], "?"))
            allowed = {("trim_start_matches", '"./"'), ("trim_start_matches", "'/'"), ("strip_prefix", '"./"'), ("strip_prefix", "'/'"), ("strip_prefix", '"/"'), ("trim_start_matches", '"/"')}
            rep.check(bool(pats) and set(pats) <= allowed, "R1", "normaliser|patterns", "names are normalised by removing only the './' and '/' prefixes",
                      "archive_name normalises with %s: more than the './' / '/' prefixes is removed, so distinct header paths (e.g. /.profile and /profile) compare equal" % pats, an[0].span)
        # the position counter moves by exactly one per yielded entry: it pairs positional entries with header rows and ends the
        # iteration, so skipping rows (or moving it inside a loop) drops or mis-pairs files
        cw = []
        for bb in it.reachable():
            for st in it.stmts(bb):
                if st["k"] == "assign" and st["lhs"]["l"] in it.self_aliases() and [p.get("n") for p in st["lhs"]["p"] if isinstance(p, dict) and "n" in p] == ["count"]:
                    cw.append(bb)
        in_loop = [bb for bb in cw if any(bb in blks for (_h, blks) in it.loops())]
        # a write is either the single step (+1) or the terminal assignment `count = file_entries.len()` that ends the iteration
        steps, terminal, other = count_write_kinds(it)
        rep.check(len(steps) == 1 and not other and not in_loop, "R1", "count|single-step", "FileIterator advances its position once per entry",
                  "FileIterator::next writes self.count at %d places (%d steps, %d neither step nor end-of-iteration, %d inside a loop): positions are skipped or repeated" % (len(cw), len(steps), len(other), len(in_loop)), it.span)
        fin = [c for x in [it] + list(f.closures_of(it)) for c in x.calls() if c.decl.endswith("payload::Reader::<R>::finish")]    # also `read_to_end(..).and_then(|_| r.finish())`
        rep.check(len(fin) == 1, "R1", "finish", "the entry is finished (padding skipped) before the next one", "FileIterator::next calls finish() %d times" % len(fin), it.span)

    # ---- R2 newc ----------------------------------------------------------------------------------
    ih = f.one("payload::Builder::into_header")
    th = TermBuilder(ih)
    APPEND = lambda c: c.decl == "std::iter::Extend::extend" or c.decl.endswith("Vec::<T, A>::push") or c.decl.endswith("Vec::<T, A>::extend_from_slice")
    ext = dom_sorted(ih, [c for c in ih.calls() if APPEND(c)])
    wseq = []

    def field_name(x):
        if x.startswith("self."):
            return x[5:]
        if x == "file_size":
            return "file_size"
        if "String::len(self.name)" in x and "1_usize" in x:
            return "name_len"
        if "file_checksum" in x:
            return "checksum"
        return "?" + x[:40]
    def norm_pad(t_):
        # `pad(n).unwrap_or_default()` appends what `if let Some(p) = pad(n) { extend(p) }` appends (nothing when pad is None)
        m_ = re.fullmatch(r"std::option::Option::<T>::unwrap_or_default\((rpm::payload::pad\(.*\))\)", t_)
        return m_.group(1) + "<Some>.0" if m_ else t_
    for c in ext:
        t = norm_pad(render(th.term(c.args[1])))
        m = re.search(r"new_lower_hex\((.*)\)\}\)\)\)$", t)
        # `for field in [a, b, ...] { header.extend(format!("{:08x}", field)) }`: one emission per array element, in order
        ma = re.fullmatch(r"std::iter::Iterator::next\(array\{(.*)\}\)<Some>\.0", m.group(1)) if m else None
        mp = re.fullmatch(r'phi\(b"(0707\d\d)" \| b"(0707\d\d)"\)', t)
        if ma and any(c.bb in blks for (_h, blks) in ih.loops()):
            for x in [e.strip() for e in ma.group(1).split(", ")]:
                wseq.append(field_name(x))
        elif mp:
            wseq += ["magic:" + mp.group(1), "magic:" + mp.group(2)]
        elif m:
            x = m.group(1)
            if x.startswith("self."):
                wseq.append(x[5:])
            elif x == "file_size":
                wseq.append("file_size")
            elif "String::len(self.name)" in x and "1_usize" in x:
                wseq.append("name_len")
            elif "file_checksum" in x:
                wseq.append("checksum")
            else:
                wseq.append("?" + x[:40])
        elif t.startswith('b"0707'):
            wseq.append("magic:" + t[2:-1])
        elif t == "self.name":
            wseq.append("name")
        elif t == "0_u8":
            wseq.append("nul")
        elif t.startswith("rpm::payload::pad("):
            wseq.append("pad:" + t)
        else:
            wseq.append("?" + t[:40])
    fields_w = [x for x in wseq if not x.startswith(("magic:", "pad:")) and x not in ("name", "nul")]
    rep.check(fields_w == NEWC_FIELDS, "R2", "writer|field-order", "newc writer emits %s" % NEWC_FIELDS, "newc writer emits the fields %s" % fields_w, ih.span)
    tail = [x for x in wseq if x in ("name", "nul") or x.startswith("pad:")]
    HL = 110
    okt = tail[:2] == ["name", "nul"] and len(tail) == 3 and tail[2] == "pad:rpm::payload::pad(AddWithOverflow(%d_usize, AddWithOverflow(std::string::String::len(self.name), 1_usize)))<Some>.0" % HL
    rep.check(okt, "R2", "writer|name-pad", "name, NUL, padding of (110 + namesize) to 4", "after the fields the writer emits %s" % tail, ih.span)
    rep.check(sorted(x for x in wseq if x.startswith("magic:")) == ["magic:070701", "magic:070702"], "R2", "writer|magic", "magic 070701 / 070702", "writer magics %s" % [x for x in wseq if x.startswith("magic:")], ih.span)
    # all hex fields use {:08x}
    # the templates behind the hex emissions: looked up at the lines of the `{:x}` argument constructors (which may sit in a
    # helper spliced into this function)
    hexargs = [c for c in ih.calls() if c.decl.endswith("Argument::<'_>::new_lower_hex")]
    lines = {c.line for c in hexargs} or {c.line for c in ext}
    tpls = [x for x in f.fmt if x["file"] == ih.file and x["line"] in lines and any(pc.get("trait") == "LowerHex" for pc in x["pieces"])]
    bad = [x for x in tpls if not (len(x["pieces"]) == 1 and x["pieces"][0].get("trait") == "LowerHex" and "width: Some(Count(8))" in x["pieces"][0].get("opts", "").replace("Literal(8)", "Count(8)").replace("Some(Literal(8))", "Some(Count(8))") or
                                   (len(x["pieces"]) == 1 and x["pieces"][0].get("trait") == "LowerHex" and re.search(r"width: Some\(\w*\(?8\)?\)", x["pieces"][0].get("opts", "")) and "zero_pad: true" in x["pieces"][0].get("opts", "")))]
    n_hex = len({c.line for c in hexargs})
    rep.check(len(tpls) >= 1 and len(tpls) == n_hex and not bad, "R2", "writer|hex-width", "every field is formatted as {:08x}", "%d templates for %d hex emissions, non-{:08x}: %s" % (len(tpls), n_hex, [b_["pieces"] for b_ in bad][:2]), ih.span)

    rd = f.one("payload::Reader::<R>::new")
    tr = TermBuilder(rd)
    # every place where Reader::new assembles a CpioEntry: a newc-style one is preceded by the 13 hex fields, the stripped one by 1
    allhex = [c for c in rd.calls() if c.decl.endswith("payload::read_hex_u32")]
    aggs = []
    for bb in sorted(rd.reachable()):
        for st in rd.stmts(bb):
            if st["k"] == "assign" and st["rv"]["r"] == "agg" and st["rv"].get("adt", "").endswith("payload::CpioEntry") and st["rv"].get("ak") == "adt":
                aggs.append((bb, st))
    newc_like = []
    stripped_like = []
    order = {}
    for (ce_bb, st) in aggs:
        hexcalls = dom_sorted(rd, [c for c in allhex if rd.dominates(c.bb, ce_bb)])
        (newc_like if len(hexcalls) == 13 else stripped_like if len(hexcalls) == 1 else []).append((ce_bb, st, hexcalls))
        if len(hexcalls) == 13:
            order.update({c.bb: i for i, c in enumerate(hexcalls)})
    rep.count("cpio_entry_aggregates", len(aggs))
    used = {c.bb for (_b, _s, hc) in newc_like for c in hc}
    other_hex = [c for c in allhex if c.bb not in used]
    if rep.anchor(len(newc_like) >= 1 and len(newc_like) == len(aggs) and len(other_hex) == 1, "R2",
                  "CpioEntry aggregates in Reader::new each follow 13 read_hex_u32 calls; one further read_hex_u32 reads the stripped index"):
        for (ce_bb, st, hexcalls) in newc_like:
            rseq = [None] * 13
            for fld, op in zip(st["rv"]["fields"], st["rv"]["ops"]):
                for lf in rd.origins(op):
                    if lf["kind"] == "call" and lf["call"].decl.endswith("read_hex_u32") and lf["call"].bb in order:
                        rseq[order[lf["call"].bb]] = fld
            # namesize is consumed locally (not stored): it sizes the name buffer
            for c in [c for c in rd.calls() if c.decl == "std::vec::from_elem"]:
                for c2 in call_leaves(rd, c.args[1]):
                    if c2.bb in order:
                        rseq[order[c2.bb]] = "name_len"
            rep.check(rseq == NEWC_FIELDS, "R2", "reader|field-order", "newc reader stores the 13 fields in the same order", "newc reader field order is %s" % rseq, rd.span)
    rh = f.one("payload::read_hex_u32")
    trh = TermBuilder(rh)
    rx = [c for c in rh.calls() if c.decl == "std::io::Read::read_exact"]
    from seqs import buffer_width
    radix = [c for c in rh.calls() + [c for cb in f.closures_of(rh) for c in cb.calls()] if c.decl.endswith("from_str_radix")]
    okh = len(rx) == 1 and buffer_width(rh, rx[0].args[1]) == 8 and len(radix) == 1 and const_int(radix[0].args[1]) == 16
    rep.check(okh, "R2", "reader|hex-field", "each field is 8 bytes parsed as base 16", "read_hex_u32 reads %s bytes, radix %s" % ([buffer_width(rh, c.args[1]) for c in rx], [const_int(c.args[1]) for c in radix]), rh.span)
    pads = [render(tr.term(c.args[0])) for c in rd.calls() if c.decl.endswith("payload::pad")]
    rep.check(any(p.startswith("AddWithOverflow(%d_usize, usize(rpm::payload::read_hex_u32(" % HL) for p in pads), "R2", "reader|name-pad", "reader skips padding of (110 + namesize)",
              "reader pad arguments: %s" % [p[:80] for p in pads], rd.span)
    rep.check(f.const_int("payload::HEADER_LEN") == 6 + 13 * 8 if True else False, "R2", "header-len", "HEADER_LEN = 6 + 13*8", "HEADER_LEN is %s" % f.const_int("payload::HEADER_LEN"))

    # ---- R3 stripped ------------------------------------------------------------------------------------
    sh = f.one("payload::stripped_cpio_header")
    ts = TermBuilder(sh)
    seq = []
    for c in dom_sorted(sh, [c for c in sh.calls() if (c.decl == "std::iter::Extend::extend" or c.decl.endswith("Vec::<T, A>::extend_from_slice"))]):
        t = norm_pad(render(ts.term(c.args[1])))
        seq.append("magic:07070X" if t == 'b"07070X"' else ("index" if "new_lower_hex(file_index)" in t else ("pad14" if t == "rpm::payload::pad(14_usize)<Some>.0" else "?" + t[:50])))
    rep.check(seq == ["magic:07070X", "index", "pad14"], "R3", "writer|stripped-header", "stripped header = magic, 8 hex index, padding of 14 to 4", "stripped header writer emits %s" % seq, sh.span)
    rep.check("14_usize" in pads, "R3", "reader|stripped-header-pad", "the reader skips the stripped header's padding", "the reader does not skip pad(14) after a stripped header (pads: %s)" % [p[:40] for p in pads], rd.span)
    # builder's large-file branch: header, content, pad(content.len())
    pd = f.one("PackageBuilder::prepare_data")
    tp = TermBuilder(pd)
    sc = [c for c in pd.calls() if c.decl.endswith("payload::stripped_cpio_header")]
    if rep.check(len(sc) == 1, "R3", "builder|stripped-call", "the builder has one large-file branch", "stripped_cpio_header is called %d times" % len(sc), pd.span):
        region = {x for x in reach_from(pd, sc[0].bb) if pd.dominates(sc[0].bb, x)}
        was = dom_sorted(pd, [c for c in pd.calls() if c.bb in region and c.decl == "std::io::Write::write_all" and render(tp.term(c.args[0])).startswith("rpm::headers::types::Sha256Writer")])
        wts = []
        for c in was:
            t_ = tp.term(c.args[1])
            # `for chunk in [a, b, c] { w.write_all(chunk)? }`: the pieces in array order
            x_ = t_
            while x_[0] == "proj" or (x_[0] == "call" and re.search(r"(Iterator::next|IntoIterator::into_iter|<impl \[T\]>::iter)$", x_[1]) and x_[2]):
                x_ = x_[1] if x_[0] == "proj" else x_[2][0]
            if x_[0] == "agg" and x_[1] == "array" and x_ is not t_:
                wts += list(x_[2])
            else:
                wts.append(t_)

        def unslice(x_):
            # `&v[..]` is v
            while x_[0] == "call" and x_[1].endswith("ops::Index::index") and len(x_[2]) == 2 and render(x_[2][1]).startswith("std::ops::RangeFull"):
                x_ = x_[2][0]
            return x_
        ws = [render(unslice(x_)) for x_ in wts][:3]
        PADC = r"rpm::payload::pad\((?:std::vec::Vec::<T, A>|core::slice::<impl \[T\]>)::len\(.*\.content\)\)"
        ok = len(ws) == 3 and ws[0].startswith("rpm::payload::stripped_cpio_header(") and ws[1].endswith(".content") and \
            re.fullmatch(PADC + r"<Some>\.0|std::option::Option::<T>::unwrap_or_default\(" + PADC + r"\)", ws[2]) is not None
        rep.check(ok, "R3", "builder|stripped-entry", "large-file entry = stripped header, content, padding of content to 4", "large-file branch writes %s" % [w[:70] for w in ws], sc[0].loc())
    fin = f.one("payload::Reader::<R>::finish")
    tf = TermBuilder(fin)
    fp = [render(tf.term(c.args[0])) for c in fin.calls() if c.decl.endswith("payload::pad")]
    rep.check(fp == ["usize(self.file_size)"], "R3", "reader|data-pad", "finish() skips the data padding of file_size", "finish() pads %s" % fp, fin.span)
    wr = f.one("payload::Writer::<W>::do_finish")
    tw = TermBuilder(wr)
    wp = [render(tw.term(c.args[0])) for c in wr.calls() if c.decl.endswith("payload::pad")]
    rep.check(wp == ["AddWithOverflow(self.header_size, usize(self.file_size))"], "R2", "writer|data-pad", "the cpio writer pads (header + data) to 4", "do_finish pads %s" % wp, wr.span)

    # ---- R4 ------------------------------------------------------------------------------------------------
    ra = agg_fields(rd, "payload::Reader", tr)
    if rep.anchor(ra is not None, "R4", "Reader aggregate"):
        fs = ra[0].get("file_size", "")
        ok2 = "<impl [T]>::get(file_entries" in fs and ".size" in fs
        # the named branch takes the 7th hex field (c_filesize)
        ok = False
        # the value may be widened with `as u64` or `u64::from`
        for c2 in call_leaves(rd, ra[1]["file_size"]):
            if c2.decl.endswith("read_hex_u32") and order.get(c2.bb) == NEWC_FIELDS.index("file_size"):
                ok = True
        rep.check(ok and ok2, "R4", "size-source", "size = cpio header's filesize (named) / header file entry's size (stripped)", "Reader.file_size is %s" % fs[:260], rd.span)
        rep.check(ra[0].get("bytes_read") == "0_u64", "R4", "bytes-read-init", "bytes_read starts at 0", "bytes_read starts at %s" % ra[0].get("bytes_read"), rd.span)
    rr = [b for b in f.body_list if b.impl_trait == "std::io::Read" and "payload::Reader<" in (b.impl_self or "") and b.name == "read"]
    if rep.anchor(len(rr) == 1, "R4", "impl Read for payload::Reader"):
        t = TermBuilder(rr[0])
        inner = [c for c in rr[0].calls() if c.decl == "std::io::Read::read"]
        buf = render(t.term(inner[0].args[1])) if inner else ""
        rep.check("std::cmp::Ord::min(" in buf and "SubWithOverflow(self.file_size, " in buf, "R4", "read-limit", "reads are limited to the bytes left of this entry",
                  "the inner read buffer is %s" % buf[:200], rr[0].span)

    # accounting: the per-entry counters advance by what the inner call actually transferred
    for (trait, callee, field) in (("std::io::Read", "std::io::Read::read", "bytes_read"), ("std::io::Write", "std::io::Write::write", "written")):
        bs = [b for b in f.body_list if b.impl_trait == trait and re.search(r"payload::(Reader|Writer)<", b.impl_self or "") and b.name in ("read", "write")]
        for b in bs:
            t = TermBuilder(b)
            n = 0
            for bb in b.reachable():
                for st in b.stmts(bb):
                    if st["k"] == "assign" and st["lhs"]["p"] and any(isinstance(p, dict) and p.get("n") == field for p in st["lhs"]["p"]) and st["rv"]["r"] == "use":
                        n += 1
                        term = t.term(st["rv"]["o"])
                        # AddWithOverflow(<old>, cast(<inner call>(..)<Ok>.0))
                        ok = term[0] == "proj" or term[0] == "bin"
                        tt = term[1] if term[0] == "proj" else term
                        inc = render(tt[3]) if tt[0] == "bin" and tt[1].startswith("Add") else ""
                        ok = tt[0] == "bin" and re.fullmatch(r"u(32|64)\(%s\(self\.inner, .*\)<Ok>\.0\)" % re.escape(callee), inc) is not None
                        rep.check(ok, "R4", "%s|accounting|%s" % (fmt_key(b.path), field), "%s advances by the count the inner %s returned" % (field, callee.rsplit("::", 1)[-1]),
                                  "%s: %s advances by %s, not by what the inner call actually transferred (a short read/write desynchronises the entry)" % (b.path, field, inc[:120] or render(term)[:120]), "%s:%s" % (b.file, st.get("line")))
            rep.check(n == 1, "R4", "%s|accounting-site|%s" % (fmt_key(b.path), field), "%s is advanced at one place" % field, "%s is assigned at %d places in %s" % (field, n, b.path), b.span)

    # ---- R5 trailer ------------------------------------------------------------------------------------------
    trl = [c for c in pd.calls() if c.decl.endswith("payload::trailer")]
    inloop = any(c.bb in blks for c in trl for (_h, blks) in pd.loops())
    wc = [c for c in pd.calls() if c.decl.endswith("payload::Builder::write_cpio")]
    dig = [c for c in pd.calls() if c.decl.endswith("Sha256Writer::<W>::into_digest")]
    uncond = len(trl) == 1 and len(dig) == 1 and pd.dominates(trl[0].bb, dig[0].bb)
    rep.check(len(trl) == 1 and not inloop and uncond and all(not pd.can_reach(trl[0].bb, c.bb) for c in wc), "R5", "trailer-once", "the trailer is written exactly once, unconditionally, after all entries",
              "payload::trailer is called %d times / conditionally / inside the loop / before an entry" % len(trl), pd.span)
    tf_ = f.one("payload::trailer")
    tt = TermBuilder(tf_)
    nb = [c for c in tf_.calls() if c.decl.endswith("payload::Builder::new")]
    isn = f.one("payload::CpioEntry::is_trailer")
    ti = TermBuilder(isn)
    cmpc = [c for c in isn.calls() if c.decl == "std::cmp::PartialEq::eq"]
    a = render(tt.term(nb[0].args[0])) if nb else None
    b_ = [render(ti.term(x)) for x in cmpc[0].args] if cmpc else []
    for x in (cmpc[0].args if cmpc else []):
        k = x.get("k") if "k" in x else None
        if k is None:
            for lf in isn.origins(x, passthrough={}):
                if lf["kind"] == "const":
                    k = lf["k"]
        if k and k.get("alloc_chain"):
            try:
                b_.append('"%s"' % bytes.fromhex(k["alloc_chain"][-1]).decode())
            except Exception:
                pass
    rep.check(a == '"TRAILER!!!"' and a in b_ and "self.name" in b_, "R5", "trailer-name", "writer and reader use the same trailer name", "trailer name: writer %s reader %s" % (a, b_), tf_.span)

    # ---- R6 codec table ----------------------------------------------------------------------------------------
    tf2 = [b for b in f.body_list if b.impl_trait == "std::convert::TryFrom" and (b.impl_self or "").endswith("compressor::Compressor") and b.name == "try_from"]
    ds = f.one("compressor::decompress_stream")
    fc = f.one("compressor::Compressor::finish_compression")
    enc_arms = dec_arms = fin_arms = None
    if tf2:
        for sb in sorted(tf2[0].reachable(), reverse=True):
            info = switch_info(tf2[0], sb)
            if info and info["kind"] == "discr" and (info.get("enum") or "").endswith("CompressionWithLevel"):
                cand = arm_calls(tf2[0], info, sb)
                # the match that builds the encoders (a level check may match on the same enum first)
                if any(re.search(r"Encoder", c.decl) for cs in cand.values() for c in cs):
                    enc_arms = cand
                    break
                enc_arms = enc_arms or cand
    for sb in sorted(ds.reachable()):
        info = switch_info(ds, sb)
        if info and info["kind"] == "discr" and (info.get("enum") or "").endswith("CompressionType"):
            dec_arms = arm_calls(ds, info, sb)
    for sb in sorted(fc.reachable()):
        info = switch_info(fc, sb)
        if info and info["kind"] == "discr" and (info.get("enum") or "").endswith("compressor::Compressor"):
            fin_arms = arm_calls(fc, info, sb)
    ents = {tag: d for (tag, d, _c) in index_entries(pd, tp)}
    comp = ents.get("RPMTAG_PAYLOADCOMPRESSOR", "")
    # per-variant string written to the header: from the match on self.compression
    names_by_variant = {}
    for sb in sorted(pd.reachable()):
        info = switch_info(pd, sb)
        if info and info["kind"] == "discr" and (info.get("enum") or "").endswith("CompressionWithLevel") and render(tp.term(info["place"])) == "self.compression":
            arms = arms_of(pd, info)
            reach = {t: reach_from(pd, t, blocked_blocks={sb}) for t in set(arms.values())}
            common = set.intersection(*reach.values())
            for name, t in arms.items():
                lits = []
                for x in sorted(reach[t] - common):
                    for st in pd.stmts(x):
                        if st["k"] == "assign" and st["rv"]["r"] == "use" and "k" in st["rv"]["o"] and str(st["rv"]["o"]["k"].get("s", "")).startswith('"'):
                            lits.append(st["rv"]["o"]["k"]["s"].strip('"'))
                        if st["k"] == "assign" and st["rv"]["r"] == "agg":       # `Some(("gzip", level.to_string()))`: the name as a tuple element
                            for a_ in st["rv"]["ops"]:
                                if "k" in a_ and str(const_str(a_) or "").startswith('"'):
                                    lits.append(const_str(a_).strip('"'))
                    tt_ = pd.term(x)
                    if tt_["t"] == "call":
                        for a_ in tt_["args"]:
                            if "k" in a_ and str(a_["k"].get("s", "")).startswith('"'):
                                lits.append(a_["k"]["s"].strip('"'))
                names_by_variant[name] = [l for l in lits if l in ("gzip", "zstd", "xz", "bzip2", "none")]
    import c15
    frm = [b for b in f.body_list if b.impl_trait == "std::str::FromStr" and (b.impl_self or "").endswith("compressor::CompressionType") and b.name == "from_str"]
    ft = c15.fromstr_table(frm[0]) if frm else {}
    have = set((enc_arms or {}).keys())
    for v, (erx, drx, frx, hs) in CODECS.items():
        if cfg == "no-default":
            rep.notes.append("no compression codec is compiled in this configuration")
            break
        if enc_arms is None or dec_arms is None or fin_arms is None:
            rep.finding("R6", "codec|anchor", "codec match arms not found")
            break
        if v == "Bzip2" and cfg != "default+bzip2":
            continue
        if v not in have or (cfg == "no-default"):
            continue
        # the plain constructors (all defaults): a decoder built with limits or options may refuse what the encoder produced
        e = any(re.search(erx + "$", c.decl) or re.search(erx + "$", c.full) for c in enc_arms.get(v, []))
        d = any(re.search(drx + "$", c.decl) or re.search(drx + "$", c.full) for c in dec_arms.get(v, []))
        fi = any(re.search(frx, c.decl) or re.search(frx, c.full) for c in fin_arms.get(v, []))
        rep.check(e and d and fi, "R6", "codec|%s|families" % v, "%s: encoder, decoder and finish belong to one codec" % v,
                  "%s: encoder %s decoder %s finish %s" % (v, [c.decl for c in enc_arms.get(v, []) if "new" in c.decl][:2], [c.decl for c in dec_arms.get(v, []) if "new" in c.decl][:2], [c.decl for c in fin_arms.get(v, [])][:2]), ds.span)
        rep.check(names_by_variant.get(v) == [hs], "R6", "codec|%s|header-string" % v, "%s is recorded as \"%s\"" % (v, hs), "%s is recorded as %s" % (v, names_by_variant.get(v)), pd.span)
        rep.check(ft.get(hs) == v, "R6", "codec|%s|parser-key" % v, "\"%s\" parses to %s" % (hs, v), "\"%s\" parses to %s" % (hs, ft.get(hs)), frm[0].span if frm else None)
    # each Compressor variant is built only in the arm of the requested type of the same name: a fallback arm (a codec whose
    # cargo feature is off) must fail, not silently produce another codec's stream under the requested codec's header string
    if tf2:
        tfb = tf2[0]
        sw_enc = None
        for sb in sorted(tfb.reachable(), reverse=True):
            info = switch_info(tfb, sb)
            if info and info["kind"] == "discr" and (info.get("enum") or "").endswith("CompressionWithLevel"):
                cand = arms_of(tfb, info)
                if sw_enc is None or any(re.search(r"Encoder", c.decl) for t_ in cand.values() for c in tfb.calls() if tfb.dominates(t_, c.bb)):
                    sw_enc = (sb, info, cand)
        if sw_enc is not None:
            sb, info, arms_e = sw_enc
            for bb in tfb.reachable():
                for st in tfb.stmts(bb):
                    if st["k"] == "assign" and st["rv"]["r"] == "agg" and st["rv"].get("adt", "").endswith("compressor::Compressor") and st["rv"].get("ak") == "adt":
                        v = st["rv"]["variant"]
                        tgt = arms_e.get(v)
                        okv = tgt is not None and tfb.dominates(tgt, bb) and all(not tfb.dominates(t2, bb) for n2, t2 in arms_e.items() if n2 != v and t2 != tgt)
                        rep.check(okv, "R6", "codec|%s|built-in-own-arm" % v, "Compressor::%s is built only for a request of %s" % (v, v),
                                  "Compressor::%s is built outside the arm that handles a %s request (e.g. as a fallback for a codec that is not compiled in): the header would name one codec and the payload use another" % (v, v),
                                  "%s:%s" % (tfb.file, st.get("line")))
    # a decoder is used as constructed: any further call on it (window / memory limits, format switches) can make it refuse
    # what the encoder of the same family legitimately produced
    tuned = [c for c in ds.calls() if re.search(r"(Decoder|decoder)", c.decl) and not re.search(r"::new$", c.decl)
             and not c.decl.startswith("std::") and not re.search(r"(Read::|BufRead::|Box)", c.decl)]
    rep.check(not tuned, "R6", "codec|decoder-untuned", "decoders are used as constructed (no limits or options)",
              "decompress_stream configures a decoder with %s: payloads the matching encoder produces within its documented range may be refused" % sorted({c.decl for c in tuned}), tuned[0].loc() if tuned else ds.span)
    # ... and an encoder is built with its codec's default frame parameters: window / dictionary / format switches change what a
    # default-constructed decoder accepts (e.g. a zstd window above the decoder's default limit)
    if tf2:
        etuned = [c for c in tf2[0].calls() if re.search(r"(Encoder|encoder|Stream|LzmaOptions|MtStreamBuilder|GzBuilder)", c.decl) and not re.search(r"::new$", c.decl)
                  and not c.decl.startswith("std::") and not re.search(r"::(multithread|include_checksum|include_contentsize)$", c.decl)]
        rep.check(not etuned, "R6", "codec|encoder-untuned", "encoders are built with their codec's default stream parameters (level aside)",
                  "the compressor configures an encoder with %s: the default-constructed decoder of decompress_stream may refuse such a stream" % sorted({c.decl for c in etuned}),
                  etuned[0].loc() if etuned else tf2[0].span)
    rep.check(names_by_variant.get("None") == [] and "phi(" in comp, "R6", "codec|None|no-tag", "no compressor tag is written for uncompressed payloads", "None payloads record %s" % names_by_variant.get("None"), pd.span)
    gpc = f.one("PackageMetadata::get_payload_compressor")
    cl = f.closures_of(gpc)
    none_on_missing = any(st["k"] == "assign" and st["rv"]["r"] == "agg" and st["rv"].get("variant") == "None" and st["rv"].get("adt", "").endswith("CompressionType")
                          for cb in [gpc] + list(cl) for bb in cb.reachable() for st in cb.stmts(bb))
    rep.check(none_on_missing, "R6", "codec|None|absent-tag", "an absent compressor tag reads back as None", "get_payload_compressor no longer maps a missing tag to CompressionType::None", gpc.span)

    # ---- R7 ---------------------------------------------------------------------------------------------------------
    adt = f.adt("builder::PackageBuilder")
    types = {fl["name"]: fl["ty"] for fl in adt["variants"][0]["fields"]}
    rep.check(types.get("files", "").startswith("std::collections::BTreeMap<std::string::String,"), "R7", "files-map", "files: BTreeMap<String, _> keyed by archive path",
              "PackageBuilder.files is %s" % types.get("files"))
    nb2 = [c for c in pd.calls() if c.decl.endswith("payload::Builder::new")]
    rep.check(len(nb2) == 1 and render(tp.term(nb2[0].args[0])).endswith("<Some>.0.1.0"), "R7", "cpio-name", "the cpio name is the map key of the same iteration",
              "payload::Builder::new is given %s" % [render(tp.term(c.args[0]))[-60:] for c in nb2], pd.span)

    # ---- R8 what is archived is what the builder was given and digested (C08.R2: content, size and digest are set together) ----
    rep.rule("R8", "the archived bytes of a file are the bytes recorded for it (C08.R2)")
    rep.include("c08", f, fixture, cfg, tier, "R8", "file content / digest pairing in the builder", only_rules={"R2"}, floor=5)

    # ---- R9 "paired with the metadata of the file of that path": the pairing is made by get_file_entries (C05.R6, C05.R8) ----
    rep.rule("R9", "file entries pair each path with its own columns; no accessor reorders a stored list (C05.R6, C05.R8)")
    rep.include("c05", f, fixture, cfg, tier, "R9", "file entries the iterator pairs content with", only_rules={"R6", "R8"}, floor=8)
