"""C11 - builds with a source date are reproducible and clamped.

  R1  no hash-order dependence: no iteration over a RandomState container on the build cone
  R2  closed list of ambient inputs (clock, environment, pid, thread, rng, parallelism) on the cone
  R3  clamp pattern with polarity for the three time values that reach the output
  R4  ordered containers in the builder state
Not decided: determinism of compressors / pgp signing primitives.
"""
import re
from engine import op_place, proj_key
from terms import TermBuilder, render
from common import switch_info, fmt_key

HASH_TY = re.compile(r"std::collections::(hash_map|hash_set)|HashMap<|HashSet<|hash::RandomState")
ITER_METHODS = re.compile(r"::(iter|iter_mut|into_iter|drain|keys|values|values_mut|into_keys|into_values|retain|extract_if)$|IntoIterator::into_iter$|Iterator::(next|collect|for_each|map)$|fmt::Debug::fmt$")
AMBIENT = [
    r"^std::time::SystemTime::now$", r"^std::time::Instant::now$", r"^rpm::timestamp::Timestamp::now$", r"^std::env::", r"^std::process::id$",
    r"^std::thread::current$", r"^std::thread::available_parallelism$", r"^rand", r"^getrandom", r"^gethostname", r"^std::fs::metadata$",
    r"^chrono::(Utc|Local)::now$", r"^std::collections::hash_map::RandomState::new$",
]


def build_cone(f):
    roots = [f.one("PackageBuilder::build")]
    bs = f.find("PackageBuilder::build_and_sign")
    roots += [b for b in bs if b.kind != "closure"]
    return f.cone(roots), roots


def clamps(body):
    """All `d < v` style comparisons against a source date in this body.

    -> list of dicts {call, d_term, v_term, d_is_arg0, true_bb, false_bb}"""
    tb = TermBuilder(body)
    out = []
    for sb in sorted(body.reachable()):
        info = switch_info(body, sb)
        if not info or info["kind"] != "bool":
            continue
        c = info["call"]
        m = re.search(r"std::cmp::PartialOrd::(lt|le|gt|ge)$", c.decl)
        if not m:
            continue
        a, b_ = render(tb.term(c.args[0])), render(tb.term(c.args[1]))
        if a.endswith("source_date<Some>.0"):
            d, v, rel = a, b_, m.group(1)
        elif b_.endswith("source_date<Some>.0"):
            d, v = b_, a
            rel = {"lt": "gt", "le": "ge", "gt": "lt", "ge": "le"}[m.group(1)]
        else:
            continue
        # rel: d REL v holds on the true edge
        out.append({"call": c, "d": d, "v": v, "rel": rel, "true": info["true"], "false": info["false"], "switch": sb, "tb": tb})
    return out


def check_clamp(body, cl, rep, what):
    """The value selected must be min(d, v): d exactly where d < v (or <=), v elsewhere."""
    tb = cl["tb"]
    key = "%s|%s" % (fmt_key(body.path), what)
    if cl["rel"] in ("lt", "le"):
        d_edge = cl["true"]
    else:
        d_edge = cl["false"]      # `d > v` false  <=>  d <= v
    # find the result local: a local assigned (copy) from d on one side and from v on others
    cands = {}
    for l in range(len(body.locals)):
        ds = [x for x in body.defs(l) if x[2] == "assign" and not x[4] and x[3]["rv"]["r"] == "use"]
        if len(ds) < 2:
            continue
        terms = [(x[0], render(tb.term(x[3]["rv"]["o"]))) for x in ds]
        ts = {t for (_b, t) in terms}
        if ts == {cl["d"], cl["v"]}:
            cands[l] = terms
    if not rep.check(len(cands) == 1, "R3", key + "|result", "%s: one local selects between the source date and the actual time" % what,
                     "%s: cannot find the clamped value (a local assigned the source date on one path and the actual time on the others); found %d" % (what, len(cands)), cl["call"].loc()):
        return None
    (l, terms), = cands.items()
    ok = True
    why = ""
    for (bb, t) in terms:
        under_d = body.dominates(d_edge, bb) and body.pred(d_edge) == [cl["switch"]]
        if t == cl["d"] and not under_d:
            ok, why = False, "the source date is selected outside the branch where it is earlier"
        if t == cl["v"] and under_d:
            ok, why = False, "the actual time is selected although the source date is earlier (comparison polarity reversed: max instead of min)"
    rep.check(ok, "R3", key + "|polarity", "%s = min(source date, actual)" % what, "%s: %s" % (what, why), cl["call"].loc())
    return l


def run(f, fixture, rep, cfg, tier):
    rep.explanation = (
        "Determinism-source audit of the call-graph cone of PackageBuilder::build / build_and_sign over MIR: no iteration "
        "(or Debug formatting) of a HashMap/HashSet, a closed table of ambient inputs (only Timestamp::now, and only where clamped), "
        "and for each of the three time values reaching the output the min(source_date, value) pattern with branch polarity, "
        "plus the consumer's provenance being the clamped local. Type-resolved from callee receiver types.")
    rep.trusted = ["rustc nightly MIR", "determinism of flate2/zstd/xz/bzip2 and of pgp signing for deterministic key types", "BTreeMap/BTreeSet iterate in key order", "zstd frames produced with nbWorkers >= 1 do not depend on the number of workers (zstdmt feature)"]
    for r, d in (("R1", "no hash-order dependence"), ("R2", "closed list of ambient inputs"), ("R3", "clamp pattern with polarity"), ("R4", "ordered containers"),
                 ("R5", "the source date given by the caller is converted exactly (C20's conversion tables)")):
        rep.rule(r, d)
    cone, roots = build_cone(f)
    rep.floor("R1", "bodies on the build cone", len(cone), 60 if cfg != "no-default" else 40)

    # ---- R1 ------------------------------------------------------------------------------
    n_calls = 0
    for b in cone.values():
        if b.derived:
            continue
        # locals of hash container type
        hash_locals = {l for l in range(len(b.locals)) if HASH_TY.search(b.local_ty(l))}
        for c in b.calls():
            n_calls += 1
            tys = " ".join([c.self_ty or "", c.impl_self or "", " ".join(c.gargs)])
            if HASH_TY.search(tys) and ITER_METHODS.search(c.decl):
                ordinal = sum(1 for c2 in b.calls() if c2.decl == c.decl and c2.bb < c.bb and HASH_TY.search(" ".join([c2.self_ty or "", c2.impl_self or "", " ".join(c2.gargs)])))
                rep.finding("R1", "%s|%s|#%d" % (fmt_key(b.path), c.decl, ordinal),
                            "%s iterates a hash container (%s): the order depends on the per-process hash seed and reaches the package" % (b.path, c.decl), c.loc())
    rep.count("calls_scanned", n_calls)
    rep.ok("R1", "scanned %d calls on the build cone for hash-container iteration" % n_calls)
    # positive control
    ctl = fixture.one("c11_hash_iteration")
    hit = any(HASH_TY.search(" ".join([c.self_ty or "", c.impl_self or "", " ".join(c.gargs)])) and ITER_METHODS.search(c.decl) for c in ctl.calls())
    rep.check(hit, "control", "R1-control", "hash-iteration control is flagged", "R1 positive control no longer matches")

    # ---- R2 -------------------------------------------------------------------------------
    ambient_sites = []
    for b in cone.values():
        for c in b.calls():
            name = c.rpath or c.decl
            for rx in AMBIENT:
                if re.search(rx, c.decl) or re.search(rx, name):
                    ambient_sites.append((b, c))
                    break
    for (b, c) in ambient_sites:
        where = fmt_key(b.path)
        if re.search(r"Timestamp::now$", c.decl):
            ok = where.endswith("PackageBuilder::build_and_sign") or where.endswith("PackageBuilder::prepare_data")
            rep.check(ok, "R2", "ambient|%s|%s" % (where, c.decl), "Timestamp::now in %s (clamped, R3)" % where,
                      "%s reads the clock in %s, outside the two clamped sites" % (c.decl, b.path), c.loc())
        elif re.search(r"SystemTime::now$", c.decl):
            rep.check(where.endswith("Timestamp::now"), "R2", "ambient|%s|%s" % (where, c.decl), "SystemTime::now only inside Timestamp::now",
                      "%s reads the system clock directly" % b.path, c.loc())
        elif re.search(r"available_parallelism", c.decl):
            # the CPU count may only become the zstd encoder's worker count: with nbWorkers >= 1 the frame is cut into jobs whose size
            # depends on the compression parameters, not on the number of workers (zstd.h, ZSTD_c_nbWorkers / ZSTD_c_jobSize;
            # 1, 2, 8 and 16 workers were compared once on 48 MiB at levels 3 and 19: identical frames).  Any other use is ambient input.
            tb_ = TermBuilder(b)
            users = sorted({c2.decl for c2 in b.calls() if c2 is not c and any("available_parallelism(" in render(tb_.term(a_)) for a_ in c2.args)})
            okp = bool(users) and all(re.search(r"(std::ops::Try::branch|std::ops::FromResidual::from_residual|std::num::NonZero::<T>::get|zstd::Encoder::<'\w+, W>::multithread)$", u_) for u_ in users) \
                and any(u_.endswith("::multithread") for u_ in users)
            rep.check(okp, "R2", "ambient|%s|%s" % (where, c.decl), "the CPU count only sets the zstd worker count (frames do not depend on it)",
                      "%s depends on the number of CPUs beyond the zstd worker count (used by %s): output may differ between machines" % (b.path, users), c.loc())
        else:
            rep.finding("R2", "ambient|%s|%s" % (where, c.decl), "%s reads an ambient input (%s) on the build path" % (b.path, c.decl), c.loc())
    rep.count("ambient_sites", len(ambient_sites))

    # ---- R3 --------------------------------------------------------------------------------
    # Every time value that reaches the output is min(source date, actual value).  Two spellings are recognised:
    #   guarded:    match source_date { Some(d) if d < v => d, _ => v }   - a CFG pattern, checked with its polarity
    #   combinator: MIN(source_date, v) after idiom normalisation (rules/idioms.py)
    from idioms import normalize
    from c08 import index_entries
    pd = f.one("PackageBuilder::prepare_data")
    tbp = TermBuilder(pd)

    def first_elem(t):
        """element pushed into / listed in an Int32 array term"""
        t2 = t
        if t2[0] == "agg" and t2[2]:
            t2 = t2[2][0]
        if t2[0] == "vec" and t2[1]:
            return t2[1][0]
        if t2[0] == "buf":
            for w in t2[1]:
                if w[0] == "write" and w[1].endswith("::push") and w[2]:
                    return w[2][-1]
        return None

    def strip_conv(t):
        for _ in range(4):
            if t[0] == "call" and re.search(r"(Into::into|From::from)$", t[1]) and len(t[2]) == 1:
                t = t[2][0]
            elif t[0] == "cast":
                t = t[2]
            else:
                break
        return t

    def check_consumer(body, tb, term, what, v_suffix, key_present, key_consumer, cls_pool, loc):
        """`term` must be min(self.source_date, V) with V ending in v_suffix."""
        if term is None:
            rep.finding("R3", key_present, "%s: the value written cannot be located" % what, loc)
            return
        nt = normalize(f, strip_conv(term))
        r = render(nt)
        if nt[0] == "call" and nt[1] == "MIN":
            o, v = render(nt[2][0]), render(nt[2][1])
            okc = o.endswith("self.source_date") and v.endswith(v_suffix)
            rep.check(okc, "R3", key_present, "%s is min(source date, %s)" % (what, v_suffix.strip(".")), "%s is clamped as MIN(%s, %s), not against the source date / the actual value" % (what, o[:80], v[:80]), loc)
            rep.ok("R3", "%s: consumer receives the clamped value (combinator form)" % what, loc)
            return
        found = [cl for cl in cls_pool if cl["v"].endswith(v_suffix)]
        if rep.check(len(found) >= 1, "R3", key_present, "%s is compared with the source date" % what,
                     "%s is not clamped: no comparison with the source date and no min() form (value is %s)" % (what, r[:160]), loc):
            check_clamp(body, found[0], rep, what)
        m = re.fullmatch(r"phi\((.*self\.source_date<Some>\.0) \| (.*)\)", r)
        rep.check(m is not None and m.group(2).endswith(v_suffix) and "phi(" not in m.group(2), "R3", key_consumer, "%s: the consumer receives the clamped value" % what,
                  "%s is %s" % (what, r[:200]), loc)

    cls = clamps(pd)
    ent_terms = {}
    for c in pd.calls():
        if re.search(r"IndexEntry::<.*>::new$", c.decl):
            from terms import strip_proj
            tt = strip_proj(tbp.term(c.args[0]))
            tag = tt[1].rsplit("::", 1)[-1] if tt[0] == "agg" else render(tt)
            ent_terms[tag] = tbp.term(c.args[2])
    bt = ent_terms.get("RPMTAG_BUILDTIME")
    check_consumer(pd, tbp, first_elem(bt) if bt else None, "build time", "rpm::timestamp::Timestamp::now()", "prepare_data|build time|present", "BUILDTIME|consumer", cls, pd.span)
    mt = ent_terms.get("RPMTAG_FILEMTIMES")
    check_consumer(pd, tbp, first_elem(mt) if mt else None, "file mtime", ".modified_at", "prepare_data|file mtime|present", "FILEMTIMES|consumer", cls, pd.span)
    # cpio mtime: the cpio entries are written with mtime 0 (Builder default) - never the raw file time
    for c in pd.calls():
        if c.decl.endswith("payload::Builder::mtime"):
            t = render(tbp.term(c.args[1]))
            rep.check("source_date" in t, "R3", "cpio-mtime", "cpio mtime is clamped", "a cpio entry's mtime is set from %s without the clamp" % t[:120], c.loc())
    if cfg != "no-default":
        bs = f.one("PackageBuilder::build_and_sign")
        cls = clamps(bs)
        tbs = TermBuilder(bs)
        sw = [c for c in bs.calls() if c.decl.endswith("Package::sign_with_timestamp")]
        if rep.check(len(sw) >= 1, "R3", "build_and_sign|signs-with-timestamp", "build_and_sign signs with an explicit time", "build_and_sign no longer calls sign_with_timestamp", bs.span):
            for c in sw:
                check_consumer(bs, tbs, tbs.term(c.args[2]), "signature time", "rpm::timestamp::Timestamp::now()", "build_and_sign|signature time|present", "build_and_sign|consumer", cls, c.loc())
        for c in bs.calls():
            if c.decl.endswith("Package::sign"):
                rep.finding("R3", "build_and_sign|unclamped-sign", "build_and_sign calls Package::sign, which uses the current time unclamped", c.loc())

    # the signer stamps the signature with the time it was given - nothing else (key creation time, clock, ...) enters
    if cfg in ("default", "default+bzip2"):
        ps = [x for x in f.body_list if x.impl_trait == "rpm::signature::traits::Signing" and x.name == "sign" and "pgp::Signer" in (x.impl_self or "")]
        if rep.anchor(len(ps) == 1, "R3", "<pgp::Signer as Signing>::sign"):
            sb_ = ps[0]
            tsb = TermBuilder(sb_)
            tname = sb_.local_name(3) or "_3"
            stamps = []
            for bb in sb_.reachable():
                for st in sb_.stmts(bb):
                    if st["k"] == "assign" and st["rv"]["r"] == "agg" and st["rv"].get("variant") == "SignatureCreationTime":
                        stamps.append(tsb.term(st["rv"]["ops"][0]))

            def leaves(t, args, calls):
                k = t[0]
                if k == "arg":
                    args.add(t[1])
                elif k == "call":
                    calls.add(t[1])
                    for a in t[2]:
                        leaves(a, args, calls)
                elif k in ("agg", "vec", "buf", "phi"):
                    for a in (t[2] if k == "agg" else t[1]):
                        leaves(a, args, calls)
                elif k in ("proj", "cast", "un", "hex", "ser"):
                    leaves(t[1] if k in ("proj", "hex", "ser") else t[2], args, calls)
                elif k == "bin":
                    calls.add("bin:" + t[1])
                    leaves(t[2], args, calls)
                    leaves(t[3], args, calls)
                elif k in ("unknown",):
                    calls.add("unknown")
            okst = len(stamps) == 1
            shown = []
            for t_ in stamps:
                a_, c_ = set(), set()
                leaves(t_, a_, c_)
                shown.append(render(t_)[:200])
                # only the time parameter flows in, only through chrono's constructors / plain conversions
                if not (a_ <= {tname, tname + ".0"} and a_ and all(re.match(r"^(chrono::|std::convert::(Into::into|From::from)$)", x) for x in c_)):
                    okst = False
            rep.check(okst, "R3", "pgp-signer|creation-time", "the OpenPGP creation time is the time handed to sign()",
                      "the signature creation time is %s, not simply the time handed to sign(): it can differ from the (clamped) time the builder chose" % shown, sb_.span)

    # ---- R4 ---------------------------------------------------------------------------------
    adt = f.adt("builder::PackageBuilder")
    for fl in adt["variants"][0]["fields"]:
        rep.check(not HASH_TY.search(fl["ty"]), "R4", "field|%s" % fl["name"], "PackageBuilder.%s: %s" % (fl["name"], fl["ty"][:60]),
                  "PackageBuilder.%s is a hash container (%s): any iteration over it is seed dependent" % (fl["name"], fl["ty"]))
    types = {fl["name"]: fl["ty"] for fl in adt["variants"][0]["fields"]}
    rep.check(types.get("files", "").startswith("std::collections::BTreeMap<") and types.get("directories", "").startswith("std::collections::BTreeSet<"), "R4", "ordered-maps",
              "files: BTreeMap, directories: BTreeSet", "files/directories are %s / %s" % (types.get("files"), types.get("directories")))

    # ---- R5 the value the clamps compare against is the instant the caller named ---------------------------
    # source_date() accepts anything TryInto<Timestamp>: a conversion that shifts the instant shifts build time, file times
    # and signature time with it.  The conversion tables are C20's; any row that fails there fails here.
    import c20
    from framework import Report
    sub = Report("C20", tier)
    c20.run(f, fixture, sub, cfg, tier)
    rep.floor("R5", "conversion obligations taken over from C20", len(sub.obligations), 8)
    for fd in sub.findings:
        rep.finding("R5", "conversion|%s" % fd["key"].split("|", 1)[1], "source date conversion: %s" % fd["msg"], fd["loc"])
    for o in sub.obligations:
        if o["ok"]:
            rep.ok("R5", "conversion: %s" % o["desc"], o["loc"])
