"""C11 - builds with a source date are reproducible and clamped.

  R1  no hash-order dependence: no iteration over a RandomState container on the build cone
  R2  closed list of ambient inputs (clock, environment, pid, thread, rng, parallelism) on the cone
  R3  clamp pattern with polarity for the three time values that reach the output
  R4  ordered containers in the builder state
Not decided: determinism of compressors / pgp signing primitives.
"""
import re
from engine import op_place, proj_key
from terms import TermBuilder, render
from common import switch_info, fmt_key

HASH_TY = re.compile(r"std::collections::(hash_map|hash_set)|HashMap<|HashSet<|hash::RandomState")
ITER_METHODS = re.compile(r"::(iter|iter_mut|into_iter|drain|keys|values|values_mut|into_keys|into_values|retain|extract_if)$|IntoIterator::into_iter$|Iterator::(next|collect|for_each|map)$|fmt::Debug::fmt$")
AMBIENT = [
    r"^std::time::SystemTime::now$", r"^std::time::Instant::now$", r"^rpm::timestamp::Timestamp::now$", r"^std::env::", r"^std::process::id$",
    r"^std::thread::current$", r"^std::thread::available_parallelism$", r"^rand", r"^getrandom", r"^gethostname", r"^std::fs::metadata$",
    r"^chrono::(Utc|Local)::now$", r"^std::collections::hash_map::RandomState::new$",
]


def build_cone(f):
    roots = [f.one("PackageBuilder::build")]
    bs = f.find("PackageBuilder::build_and_sign")
    roots += [b for b in bs if b.kind != "closure"]
    return f.cone(roots), roots


def clamps(body):
    """All `d < v` style comparisons against a source date in this body.

    -> list of dicts {call, d_term, v_term, d_is_arg0, true_bb, false_bb}"""
    tb = TermBuilder(body)
    out = []
    for sb in sorted(body.reachable()):
        info = switch_info(body, sb)
        if not info or info["kind"] != "bool":
            continue
        c = info["call"]
        m = re.search(r"std::cmp::PartialOrd::(lt|le|gt|ge)$", c.decl)
        if not m:
            continue
        a, b_ = render(tb.term(c.args[0])), render(tb.term(c.args[1]))
        if a.endswith("source_date<Some>.0"):
            d, v, rel = a, b_, m.group(1)
        elif b_.endswith("source_date<Some>.0"):
            d, v = b_, a
            rel = {"lt": "gt", "le": "ge", "gt": "lt", "ge": "le"}[m.group(1)]
        else:
            continue
        # rel: d REL v holds on the true edge
        out.append({"call": c, "d": d, "v": v, "rel": rel, "true": info["true"], "false": info["false"], "switch": sb, "tb": tb})
    return out


def check_clamp(body, cl, rep, what):
    """The value selected must be min(d, v): d exactly where d < v (or <=), v elsewhere."""
    tb = cl["tb"]
    key = "%s|%s" % (fmt_key(body.path), what)
    if cl["rel"] in ("lt", "le"):
        d_edge = cl["true"]
    else:
        d_edge = cl["false"]      # `d > v` false  <=>  d <= v
    # find the result local: a local assigned (copy) from d on one side and from v on others
    cands = {}
    for l in range(len(body.locals)):
        ds = [x for x in body.defs(l) if x[2] == "assign" and not x[4] and x[3]["rv"]["r"] == "use"]
        if len(ds) < 2:
            continue
        terms = [(x[0], render(tb.term(x[3]["rv"]["o"]))) for x in ds]
        ts = {t for (_b, t) in terms}
        if ts == {cl["d"], cl["v"]}:
            cands[l] = terms
    if not rep.check(len(cands) == 1, "R3", key + "|result", "%s: one local selects between the source date and the actual time" % what,
                     "%s: cannot find the clamped value (a local assigned the source date on one path and the actual time on the others); found %d" % (what, len(cands)), cl["call"].loc()):
        return None
    (l, terms), = cands.items()
    ok = True
    why = ""
    for (bb, t) in terms:
        under_d = body.dominates(d_edge, bb) and body.pred(d_edge) == [cl["switch"]]
        if t == cl["d"] and not under_d:
            ok, why = False, "the source date is selected outside the branch where it is earlier"
        if t == cl["v"] and under_d:
            ok, why = False, "the actual time is selected although the source date is earlier (comparison polarity reversed: max instead of min)"
    rep.check(ok, "R3", key + "|polarity", "%s = min(source date, actual)" % what, "%s: %s" % (what, why), cl["call"].loc())
    return l


def run(f, fixture, rep, cfg, tier):
    rep.explanation = (
        "Determinism-source audit of the call-graph cone of PackageBuilder::build / build_and_sign over MIR: no iteration "
        "(or Debug formatting) of a HashMap/HashSet, a closed table of ambient inputs (only Timestamp::now, and only where clamped), "
        "and for each of the three time values reaching the output the min(source_date, value) pattern with branch polarity, "
        "plus the consumer's provenance being the clamped local. Type-resolved from callee receiver types.")
    rep.trusted = ["rustc nightly MIR", "determinism of flate2/zstd/xz/bzip2 and of pgp signing for deterministic key types", "BTreeMap/BTreeSet iterate in key order"]
    for r, d in (("R1", "no hash-order dependence"), ("R2", "closed list of ambient inputs"), ("R3", "clamp pattern with polarity"), ("R4", "ordered containers"),
                 ("R5", "the source date given by the caller is converted exactly (C20's conversion tables)")):
        rep.rule(r, d)
    cone, roots = build_cone(f)
    rep.floor("R1", "bodies on the build cone", len(cone), 60 if cfg != "no-default" else 40)

    # ---- R1 ------------------------------------------------------------------------------
    n_calls = 0
    for b in cone.values():
        if b.derived:
            continue
        # locals of hash container type
        hash_locals = {l for l in range(len(b.locals)) if HASH_TY.search(b.local_ty(l))}
        for c in b.calls():
            n_calls += 1
            tys = " ".join([c.self_ty or "", c.impl_self or "", " ".join(c.gargs)])
            if HASH_TY.search(tys) and ITER_METHODS.search(c.decl):
                ordinal = sum(1 for c2 in b.calls() if c2.decl == c.decl and c2.bb < c.bb and HASH_TY.search(" ".join([c2.self_ty or "", c2.impl_self or "", " ".join(c2.gargs)])))
                rep.finding("R1", "%s|%s|#%d" % (fmt_key(b.path), c.decl, ordinal),
                            "%s iterates a hash container (%s): the order depends on the per-process hash seed and reaches the package" % (b.path, c.decl), c.loc())
    rep.count("calls_scanned", n_calls)
    rep.ok("R1", "scanned %d calls on the build cone for hash-container iteration" % n_calls)
    # positive control
    ctl = fixture.one("c11_hash_iteration")
    hit = any(HASH_TY.search(" ".join([c.self_ty or "", c.impl_self or "", " ".join(c.gargs)])) and ITER_METHODS.search(c.decl) for c in ctl.calls())
    rep.check(hit, "control", "R1-control", "hash-iteration control is flagged", "R1 positive control no longer matches")

    # ---- R2 -------------------------------------------------------------------------------
    ambient_sites = []
    for b in cone.values():
        for c in b.calls():
            name = c.rpath or c.decl
            for rx in AMBIENT:
                if re.search(rx, c.decl) or re.search(rx, name):
                    ambient_sites.append((b, c))
                    break
    for (b, c) in ambient_sites:
        where = fmt_key(b.path)
        if re.search(r"Timestamp::now$", c.decl):
            ok = where.endswith("PackageBuilder::build_and_sign") or where.endswith("PackageBuilder::prepare_data")
            rep.check(ok, "R2", "ambient|%s|%s" % (where, c.decl), "Timestamp::now in %s (clamped, R3)" % where,
                      "%s reads the clock in %s, outside the two clamped sites" % (c.decl, b.path), c.loc())
        elif re.search(r"SystemTime::now$", c.decl):
            rep.check(where.endswith("Timestamp::now"), "R2", "ambient|%s|%s" % (where, c.decl), "SystemTime::now only inside Timestamp::now",
                      "%s reads the system clock directly" % b.path, c.loc())
        elif re.search(r"available_parallelism", c.decl):
            rep.check(False, "R2", "ambient|%s|%s" % (where, c.decl), "", "%s depends on the number of CPUs (zstdmt): output may differ between machines" % b.path, c.loc())
        else:
            rep.finding("R2", "ambient|%s|%s" % (where, c.decl), "%s reads an ambient input (%s) on the build path" % (b.path, c.decl), c.loc())
    rep.count("ambient_sites", len(ambient_sites))

    # ---- R3 --------------------------------------------------------------------------------
    pd = f.one("PackageBuilder::prepare_data")
    cls = clamps(pd)
    tbp = TermBuilder(pd)
    want = {"build time": "rpm::timestamp::Timestamp::now()", "file mtime": ".modified_at"}
    found = {}
    for cl in cls:
        for what, suffix in want.items():
            if cl["v"].endswith(suffix):
                found[what] = cl
    for what in want:
        if rep.check(what in found, "R3", "prepare_data|%s|present" % what, "%s is compared with the source date" % what,
                     "prepare_data no longer compares the %s with the source date: it is not clamped" % what, pd.span):
            check_clamp(pd, found[what], rep, what)
    # consumers
    from c08 import index_entries
    ents = {tag: data for (tag, data, _c) in index_entries(pd, tbp)}
    bt = ents.get("RPMTAG_BUILDTIME", "")
    rep.check(bt == "rpm::headers::header::IndexData::Int32{vec![phi(self.source_date<Some>.0 | rpm::timestamp::Timestamp::now())]}", "R3", "BUILDTIME|consumer",
              "RPMTAG_BUILDTIME carries the clamped value", "RPMTAG_BUILDTIME is %s" % bt[:200], pd.span)
    mt = ents.get("RPMTAG_FILEMTIMES", "")
    rep.check("push(phi(self.source_date<Some>.0 | " in mt and mt.endswith(".modified_at))]}"), "R3", "FILEMTIMES|consumer",
              "RPMTAG_FILEMTIMES carries the clamped value per file", "RPMTAG_FILEMTIMES is %s" % mt[:240], pd.span)
    # cpio mtime: the cpio entries are written with mtime 0 (Builder default) - never the raw file time
    for c in pd.calls():
        if c.decl.endswith("payload::Builder::mtime"):
            t = render(tbp.term(c.args[1]))
            rep.check("source_date" in t, "R3", "cpio-mtime", "cpio mtime is clamped", "a cpio entry's mtime is set from %s without the clamp" % t[:120], c.loc())
    if cfg != "no-default":
        bs = f.one("PackageBuilder::build_and_sign")
        cls = clamps(bs)
        tbs = TermBuilder(bs)
        if rep.check(len(cls) == 1, "R3", "build_and_sign|signature time|present", "the signature time is compared with the source date",
                     "build_and_sign has %d comparisons with the source date" % len(cls), bs.span):
            check_clamp(bs, cls[0], rep, "signature time")
        for c in bs.calls():
            if c.decl.endswith("Package::sign_with_timestamp"):
                t = render(tbs.term(c.args[2]))
                rep.check(t == "phi(self.source_date<Some>.0 | rpm::timestamp::Timestamp::now())", "R3", "build_and_sign|consumer",
                          "the signer receives the clamped time", "sign_with_timestamp is given %s" % t[:200], c.loc())
            if c.decl.endswith("Package::sign"):
                rep.finding("R3", "build_and_sign|unclamped-sign", "build_and_sign calls Package::sign, which uses the current time unclamped", c.loc())

    # ---- R4 ---------------------------------------------------------------------------------
    adt = f.adt("builder::PackageBuilder")
    for fl in adt["variants"][0]["fields"]:
        rep.check(not HASH_TY.search(fl["ty"]), "R4", "field|%s" % fl["name"], "PackageBuilder.%s: %s" % (fl["name"], fl["ty"][:60]),
                  "PackageBuilder.%s is a hash container (%s): any iteration over it is seed dependent" % (fl["name"], fl["ty"]))
    types = {fl["name"]: fl["ty"] for fl in adt["variants"][0]["fields"]}
    rep.check(types.get("files", "").startswith("std::collections::BTreeMap<") and types.get("directories", "").startswith("std::collections::BTreeSet<"), "R4", "ordered-maps",
              "files: BTreeMap, directories: BTreeSet", "files/directories are %s / %s" % (types.get("files"), types.get("directories")))

    # ---- R5 the value the clamps compare against is the instant the caller named ---------------------------
    # source_date() accepts anything TryInto<Timestamp>: a conversion that shifts the instant shifts build time, file times
    # and signature time with it.  The conversion tables are C20's; any row that fails there fails here.
    import c20
    from framework import Report
    sub = Report("C20", tier)
    c20.run(f, fixture, sub, cfg, tier)
    rep.floor("R5", "conversion obligations taken over from C20", len(sub.obligations), 8)
    for fd in sub.findings:
        rep.finding("R5", "conversion|%s" % fd["key"].split("|", 1)[1], "source date conversion: %s" % fd["msg"], fd["loc"])
    for o in sub.obligations:
        if o["ok"]:
            rep.ok("R5", "conversion: %s" % o["desc"], o["loc"])
