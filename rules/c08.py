"""C08 - every digest the builder records is the true digest (hash provenance and ordering).

  R1  hashing io::Write adapters account exactly the bytes the inner writer accepted
  R2  provenance table: each recorded digest is hex(SHA-256(the very bytes it describes))
  R3  all archive bytes go through the hashing writer: nothing else writes into the compressor,
      the trailer and every cpio entry are written to the hashing writer
Not decided: digest values; correctness of sha2/hex.
"""
import re
from engine import op_place, proj_key, AnchorLost
from terms import TermBuilder, render, strip_proj
from common import fmt_key

IO_WRITE = "std::io::Write"


def index_entries(body, tb):
    """[(tag_variant, data_term_rendered, Call)] for every IndexEntry::new in body - including the ones made inside closures it
    hands to iterator / Option adaptors, and one row per element when the tag and value come from an array literal being iterated
    (`[(TAG_A, self.a), (TAG_B, self.b)].into_iter().filter_map(|(tag, v)| v.map(|v| IndexEntry::new(tag, off, ..)))`)."""
    from idioms import expand_rows
    out = []
    facts = getattr(body, "facts", None)
    work = [(body, tb, None)]
    seen = set()
    while work:
        b, t_, host = work.pop(0)
        if b.path in seen:
            continue
        seen.add(b.path)
        for c in b.calls():
            if re.search(r"IndexEntry::<.*>::new$", c.decl):
                # `host_bb`: the block of `body` the entry belongs to - for an entry made inside a closure, the block that creates the
                # closure (block numbers of a closure's own body mean nothing in `body`)
                c.host_bb = (c.bb,) if host is None else host
                for (tt0, dd0) in expand_rows((t_.term(c.args[0]), t_.term(c.args[2]))):
                    tt = strip_proj(tt0)
                    tag = tt[1].rsplit("::", 1)[-1] if tt[0] == "agg" else render(tt)
                    out.append((tag, render(dd0), c))
        if facts is not None:
            for cb in facts.closures_of(b):
                h = host
                if h is None:
                    made = [i for i in range(len(b.blocks)) for st in b.stmts(i)
                            if st.get("rv", {}).get("r") == "agg" and st["rv"].get("ak") == "closure" and st["rv"].get("closure") == cb.path]
                    h = tuple(made)                             # no known site: dominates nothing
                work.append((cb, TermBuilder(cb, closure_env=True), h))
    return out


def _must_pass(body, through, targets):
    """Every path from the entry to a block of `targets` goes through a block of `through`: by dominance, or - when a helper that
    returns a Result was inlined, so that its Ok and Err exits meet again before the caller's `?` - by path-sensitive reachability
    with the `through` blocks taken out (bodies of at most 200 blocks)."""
    if not through:
        return False
    if all(any(body.dominates(h, x) for h in through) for x in targets):
        return True
    if len(body.blocks) > 200:
        return False        # the path explorer is kept to small bodies (sign / clear); prepare_data is decided by dominance alone
    from pathsens import ps_reach
    seen = ps_reach(body, 0, blocked_blocks=set(through))
    return not any(x in seen for x in targets)


def check_always_recorded(f, rep, rule):
    """The digests a verifier relies on are recorded on every build, whatever the configuration: the entries for the payload
    digest, its algorithm and the header SHA-256 are created on every path that reaches the construction of the header
    (the reader skips a check whose tag is absent, so an omitted digest is an unverified payload)."""
    pd = f.one("PackageBuilder::prepare_data")
    tb = TermBuilder(pd)
    ents = index_entries(pd, tb)
    fe = [c for c in pd.calls() if c.decl.endswith("Header::<T>::from_entries")]
    if not rep.anchor(len(fe) >= 1, rule, "Header::from_entries call in prepare_data"):
        return
    for tag in ("RPMTAG_PAYLOADDIGEST", "RPMTAG_PAYLOADDIGESTALGO", "RPMTAG_PAYLOADDIGESTALT"):
        cs = [c for (t, _d, c) in ents if t == tag]
        ok = bool(cs) and _must_pass(pd, [h for c in cs for h in c.host_bb], [x.bb for x in fe])
        rep.check(ok, rule, "%s|always" % tag, "%s is recorded on every build" % tag,
                  "%s is %s: a package built on the other paths carries no such digest and verification silently skips it" % (tag, "recorded only on some paths" if cs else "never recorded"),
                  cs[0].loc() if cs else pd.span)
    for bname in ("PackageBuilder::build", "Package::sign_with_timestamp", "Package::clear_signatures"):
        for b in [x for x in f.find(bname) if x.kind != "closure"]:
            sets = [c for c in b.calls() if c.decl.endswith("set_sha256_digest")]
            builds = [c for c in b.calls() if c.decl.endswith("SignatureHeaderBuilder::<T>::build") or c.decl.endswith("SignatureHeaderBuilder::build") or re.search(r"SignatureHeaderBuilder(::<.*>)?::build$", c.decl)]
            if builds:
                rep.check(bool(sets) and _must_pass(b, [s_.bb for s_ in sets], [x.bb for x in builds]), rule, "%s|sha256-always" % fmt_key(b.path),
                          "%s always records the header SHA-256" % fmt_key(b.path), "%s can build a signature header without the header SHA-256 digest" % b.path, b.span)


def check_hashing_adapter(b, rep):
    tb = TermBuilder(b)
    UPD = lambda c: c.decl in ("digest::Digest::update", "digest::Update::update", "fixtures::MiniDigest::update") or c.decl.endswith("MiniDigest::update")
    upd = [c for c in b.calls() if UPD(c)]
    # `self.writer.write(buf).inspect(|&n| self.hasher.update(&buf[..n]))`: the update sits in a closure that runs on the inner
    # call's Ok value (its parameter is bound to that value, its captures to this body's values)
    upd_cl = []
    facts_ = getattr(b, "facts", None)
    if facts_ is not None:
        for ic in b.calls():
            if re.search(r"Result::<T, E>::(inspect|map|and_then)$", ic.decl) and len(ic.args) == 2:
                for lf in b.origins(ic.args[1], passthrough={}):
                    if lf["kind"] == "agg" and lf["stmt"]["rv"].get("ak") == "closure":
                        cb_ = facts_.bodies.get(lf["stmt"]["rv"]["closure"])
                        if cb_ is not None:
                            upd_cl += [(cb_, c) for c in cb_.calls() if UPD(c)]
    inner = [c for c in b.calls() if c.decl == "std::io::Write::write"]
    inner_all = [c for c in b.calls() if c.decl == "std::io::Write::write_all"]
    key = fmt_key(b.path)
    if not upd and not upd_cl:
        return False
    ret = render(tb.term({"l": 0, "p": [{"d": "Ok"}, {"f": 0, "n": "0"}]}))
    for u in upd + upd_cl:
        in_closure = isinstance(u, tuple)
        if in_closure:
            cb_, u = u
            t = TermBuilder(cb_, closure_env=True).term(u.args[1])
        else:
            t = tb.term(u.args[1])
        r = render(t)
        ok = False
        why = "hashes %s" % r
        if inner:
            w = inner[0]
            count = "std::io::Write::write(%s, %s)<Ok>.0" % (render(tb.term(w.args[0])), render(tb.term(w.args[1])))
            buf = render(tb.term(w.args[1]))
            want = "std::ops::Index::index(%s, std::ops::RangeTo::RangeTo{%s})" % (buf, count)
            want2 = "std::ops::Index::index(%s, std::ops::Range::Range{0_usize, %s})" % (buf, count)
            ok = r in (want, want2) and (in_closure or b.dominates(w.bb, u.bb))
            # and the adapter must report the same count
            ok_ret = count in ret
            rep.check(ok_ret, "R1", "%s|returns-count" % key, "%s returns the accepted count" % b.path,
                      "%s returns %s, not the inner writer's count" % (b.path, ret[:160]), b.span)
            if not ok:
                why = "hashes %s but the inner writer may accept fewer bytes (expected %s after the inner write)" % (r, want)
        elif inner_all:
            w = inner_all[0]
            ok = r == render(tb.term(w.args[1]))
        rep.check(ok, "R1", "%s|hashes-accepted" % key, "%s hashes exactly the bytes the inner writer accepted" % b.path,
                  "%s: %s - bytes retried after a short write are hashed twice / unaccepted bytes are hashed" % (b.path, why), u.loc())
    return True


def run(f, fixture, rep, cfg, tier):
    rep.explanation = (
        "Provenance terms (rules/terms.py) for every digest-carrying value on the build / sign / clear paths are compared "
        "with the oracle table: header SHA-256 = hex(sha256(buf[ser(H)])) of the very header object stored in the package, "
        "payload digest = hex(sha256(finish_compression(C))) of the returned payload, alternate digest = digest of the "
        "hashing writer wrapped around C, file digest = hex(sha256(content)) of the content stored in the entry. "
        "Who-may-write rules ensure all archive bytes pass the hashing writer, and the hashing adapter is checked to "
        "account exactly what the inner writer accepted.")
    rep.trusted = ["rustc nightly MIR and borrow checker (a moved/borrowed value cannot be used out of order)",
                   "sha2 / hex crates", "pass-through table in rules/engine.py"]
    rep.rule("R1", "hashing Write adapters account exactly the accepted bytes and return that count")
    rep.rule("R2", "digest provenance table")
    rep.rule("R3", "all archive bytes go through the hashing writer")

    # ---- R1 -----------------------------------------------------------------------------
    n = 0
    for b in f.body_list:
        if b.impl_trait == IO_WRITE and b.name == "write":
            if check_hashing_adapter(b, rep):
                n += 1
    rep.floor("R1", "hashing io::Write adapters", n, 1)
    # positive control
    ctl = [b for b in fixture.body_list if b.impl_trait == IO_WRITE and b.name == "write" and "HashBefore" in (b.impl_self or "")]
    if rep.anchor(len(ctl) == 1, "control", "fixture HashBefore"):
        from framework import Report
        probe = Report("C08", "quick")
        check_hashing_adapter(ctl[0], probe)
        rep.check(any(fd["rule"] == "R1" for fd in probe.findings), "control", "R1-control",
                  "R1 control (hash whole buffer before a possibly short write) is flagged", "R1 positive control no longer matches")

    # ---- R2: prepare_data ------------------------------------------------------------------
    pd = f.one("PackageBuilder::prepare_data")
    tb = TermBuilder(pd)
    ents = index_entries(pd, tb)
    rep.floor("R2", "IndexEntry::new sites in prepare_data", len(ents), 70)
    by_tag = {}
    for tag, data, c in ents:
        by_tag.setdefault(tag, []).append((data, c))

    comp_calls = [c for c in pd.calls() if c.decl == "std::convert::TryInto::try_into" and any("Compressor" in g for g in c.gargs)]
    rep.anchor(len(comp_calls) == 1, "R2", "compressor construction in prepare_data")
    comp = "std::convert::TryInto::try_into(self.compression)<Ok>.0"
    payload = "rpm::compressor::Compressor::finish_compression(%s)<Ok>.0" % comp
    archive = "rpm::headers::types::Sha256Writer::<W>::new(%s)" % comp
    want = {
        "RPMTAG_PAYLOADDIGEST": "rpm::headers::header::IndexData::StringArray{vec![hex(sha256(%s))]}" % payload,
        "RPMTAG_PAYLOADDIGESTALT": "rpm::headers::header::IndexData::StringArray{vec![hex(rpm::headers::types::Sha256Writer::<W>::into_digest(%s))]}" % archive,
    }
    for tag, w in want.items():
        got = [d for d, _c in by_tag.get(tag, [])]
        rep.check(got == [w], "R2", "%s|provenance" % tag, "%s <- %s" % (tag, w[len("rpm::headers::header::IndexData::"):]),
                  "%s is recorded as %s, expected %s" % (tag, [g[:300] for g in got], w), (by_tag.get(tag) or [(None, pd)])[0][1].loc() if by_tag.get(tag) else pd.span)
    check_always_recorded(f, rep, "R2")
    for tag in ("RPMTAG_PAYLOADDIGESTALGO", "RPMTAG_FILEDIGESTALGO"):
        got = [d for d, _c in by_tag.get(tag, [])]
        ok = len(got) == 1 and re.fullmatch(r"rpm::headers::header::IndexData::Int32\{vec!\[u32\(AddWithOverflow\(8_u32, 0_u32\)\)\]\}|rpm::headers::header::IndexData::Int32\{vec!\[8_u32\]\}", got[0]) is not None
        rep.check(ok, "R2", "%s|sha256" % tag, "%s = 8 (SHA-256)" % tag, "%s is recorded as %s (expected DigestAlgorithm::Sha2_256 = 8)" % (tag, got))
    # returned payload is the hashed payload; into_digest of the archive
    ret = render(tb.term({"l": 0, "p": [{"d": "Ok"}, {"f": 0, "n": "0"}, {"f": 2, "n": "2"}]}))
    rep.check(ret == payload, "R2", "payload|returned", "prepare_data returns the very payload it hashed",
              "prepare_data returns %s as payload but hashed %s" % (ret[:200], payload), pd.span)
    fd = [d for d, _c in by_tag.get("RPMTAG_FILEDIGESTS", [])]
    rep.check(len(fd) == 1 and fd[0].endswith(".sha_checksum)]}") and "self.files" in fd[0], "R2", "FILEDIGESTS|provenance",
              "RPMTAG_FILEDIGESTS <- each file entry's sha_checksum", "RPMTAG_FILEDIGESTS is recorded as %s" % [x[:200] for x in fd])

    # ---- R3: who writes into the compressor / archive ----------------------------------------
    if comp_calls:
        # local holding the compressor
        comp_local = None
        for (bb, idx, kind, payload_, lhs_proj) in []:
            pass
        news = [c for c in pd.calls() if c.decl.endswith("Sha256Writer::<W>::new")]
        rep.anchor(len(news) == 1, "R3", "one hashing writer is created in prepare_data")
        comp_locals = [l for l in range(len(pd.locals)) if re.fullmatch(r"(\w+::)*compressor::Compressor", pd.local_ty(l))]
        names = set()
        for cl in comp_locals:
            for (w, i) in pd.mut_borrow_calls(cl):
                names.add(w.decl)
        rep.check(sorted(names) == ["rpm::headers::types::Sha256Writer::<W>::new"], "R3", "compressor|writers",
                  "the only mutable use of the compressor is the hashing writer wrapped around it",
                  "the compressor is written by %s: bytes can reach the payload without being hashed" % sorted(names), pd.span)
        arch_locals = [l for l in range(len(pd.locals)) if re.match(r"(\w+::)*types::Sha256Writer<", pd.local_ty(l))]
        rep.anchor(len(arch_locals) >= 1, "R3", "the hashing writer local")
        if arch_locals:
            names = set()
            for al in arch_locals:
                for (w, i) in pd.mut_borrow_calls(al):
                    names.add(w.decl)
            names = sorted(names)
            rep.check(any(n.endswith("payload::trailer") for n in names), "R3", "archive|trailer",
                      "the cpio trailer is written through the hashing writer",
                      "the cpio trailer is not written through the hashing writer (writers: %s)" % names, pd.span)
            rep.check(any(n.endswith("write_cpio") for n in names), "R3", "archive|entries",
                      "cpio entries are written through the hashing writer", "no cpio entry is written through the hashing writer (writers: %s)" % names, pd.span)
            # every payload::* writer call in prepare_data targets the archive
            for c in pd.calls():
                if re.search(r"payload::(trailer|Builder::write_cpio|Builder::write_crc)$", c.decl):
                    t = render(tb.term(c.args[-1] if c.decl.endswith("trailer") else c.args[1]))
                    rep.check(t == archive, "R3", "%s|target" % c.decl.rsplit("::", 1)[-1], "%s writes into the hashing writer" % c.decl,
                              "%s writes into %s, bypassing the hashing writer" % (c.decl, t[:160]), c.loc())

    # the compressor hands on exactly what the hashing writer gave it: the "uncompressed archive" that was hashed is the input of
    # the codec (write forwards `content` as given) and, for the None codec, the payload itself (finish returns the buffer untouched)
    cw = [x for x in f.body_list if x.name == "write" and x.impl_trait == "std::io::Write" and (x.impl_self or "").endswith("compressor::Compressor")]
    if rep.anchor(len(cw) == 1, "R3", "Write::write for Compressor"):
        tcw = TermBuilder(cw[0])
        fw = [c for c in cw[0].calls() if c.decl.endswith("Write::write") or c.decl.endswith("Write::write_all") or c.decl.endswith("extend_from_slice")]
        rep.floor("R3", "forwarding writes in Compressor::write", len(fw), 1)
        for c in fw:
            a0, a1 = render(tcw.term(c.args[0])), render(tcw.term(c.args[1]))
            rep.check(re.fullmatch(r"self<\w+>\.0|phi\(self<\w+>\.0( \| self<\w+>\.0)*\)", a0) is not None and a1 == (cw[0].local_name(2) or "_2"), "R3", "compressor|write|%s" % a0, "Compressor::write forwards its input unchanged (%s)" % a0,
                      "Compressor::write gives %s to %s instead of the bytes it was handed: the archive that was hashed is not the archive that is compressed" % (a1[:120], a0), c.loc())
        other = [c.decl for c in cw[0].calls() if c not in fw and not c.decl.startswith("std::ops::") and not re.search(r"(Deref|DerefMut|AsRef|AsMut)::", c.decl)]
        rep.check(not other, "R3", "compressor|write|only-forwards", "Compressor::write does nothing but forward", "Compressor::write also calls %s" % sorted(set(other)), cw[0].span)
    fcb = f.one("Compressor::finish_compression")
    tfc = TermBuilder(fcb)
    # the None buffer reaches the return value as itself: under phi / Ok{..} / map_err only, never as an argument of anything else
    def none_paths(t, anc, out):
        if isinstance(t, tuple) and t:
            if render(t) == "self<None>.0":
                out.append(list(anc))
                return
            here = anc
            if t[0] == "call":
                here = anc + [t[1]]
            elif t[0] == "agg":
                here = anc + ["agg:%s" % t[1]]
            for y in t[1:]:
                none_paths(y, here, out)
        elif isinstance(t, (list, tuple)):
            for y in t:
                none_paths(y, anc, out)
    paths = []
    none_paths(tfc.term({"c": {"l": 0, "p": []}}), [], paths)
    bad_anc = sorted({a for pth in paths for a in pth if not re.search(r"(^agg:std::result::Result::Ok$|Result::<T, E>::map_err$|^agg:.*Result$)", a)})
    rep.check(bool(paths) and not bad_anc, "R3", "compressor|finish|None", "an uncompressed payload is returned as accumulated",
              "finish_compression %s" % ("passes the None buffer through %s" % bad_anc if paths else "does not return the None buffer"), fcb.span)
    edits = sorted({w.decl for l in range(len(fcb.locals)) if re.fullmatch(r"std::vec::Vec<u8>", fcb.local_ty(l)) for (w, _i) in fcb.mut_borrow_calls(l)})
    rep.check(not edits, "R3", "compressor|finish|unedited", "finish_compression does not touch the bytes after the codec finished",
              "finish_compression edits the payload bytes (%s) after they were hashed as the uncompressed archive: the alternate payload digest no longer matches" % edits, fcb.span)

    # ---- R2: build -----------------------------------------------------------------------------
    bd = f.one("PackageBuilder::build")
    tbb = TermBuilder(bd)
    hdr = "rpm::builder::PackageBuilder::prepare_data(self)<Ok>.0.1"
    sets = [c for c in bd.calls() if c.decl.endswith("SignatureHeaderBuilder::set_sha256_digest")]
    rep.check(len(sets) == 1, "R2", "build|set_sha256", "build records the header SHA-256", "build calls set_sha256_digest %d times" % len(sets), bd.span)
    for c in sets:
        t = render(tbb.term(c.args[1]))
        rep.check(t == "hex(sha256(buf[ser(%s)]))" % hdr, "R2", "build|sha256-provenance", "RPMSIGTAG_SHA256 <- hex(sha256(serialised header))",
                  "build records %s as header digest" % t[:200], c.loc())
    pm = None
    for bb in bd.reachable():
        for st in bd.stmts(bb):
            if st["k"] == "assign" and st["rv"]["r"] == "agg" and st["rv"].get("adt", "").endswith("PackageMetadata"):
                pm = st
    if rep.anchor(pm is not None, "R2", "PackageMetadata aggregate in build"):
        fields = dict(zip(pm["rv"]["fields"], pm["rv"]["ops"]))
        rep.check(render(tbb.term(fields["header"])) == hdr, "R2", "build|same-header", "the stored header is the hashed header",
                  "build stores %s as header but hashed %s" % (render(tbb.term(fields["header"]))[:120], hdr), bd.span)
        sig = render(tbb.term(fields["signature"]))
        rep.check("set_sha256_digest" in sig and sig.startswith("rpm::headers::signatures::SignatureHeaderBuilder::build("), "R2", "build|sig-from-builder",
                  "the stored signature header is the one built with the digest", "build stores %s as signature header" % sig[:160], bd.span)

    # ---- R2: sign / clear ---------------------------------------------------------------------
    if cfg != "no-default":
        for fn in ("Package::sign_with_timestamp", "Package::clear_signatures"):
            b = f.one(fn)
            t = TermBuilder(b)
            sets = [c for c in b.calls() if c.decl.endswith("SignatureHeaderBuilder::set_sha256_digest")]
            rep.check(len(sets) == 1, "R2", "%s|set_sha256" % fn, "%s records the header SHA-256" % fn, "%s calls set_sha256_digest %d times" % (fn, len(sets)), b.span)
            for c in sets:
                got = render(t.term(c.args[1]))
                rep.check(got == "hex(sha256(buf[ser(self.metadata.header)]))", "R2", "%s|sha256-provenance" % fn,
                          "%s: RPMSIGTAG_SHA256 <- hex(sha256(serialised main header))" % fn, "%s records %s" % (fn, got[:200]), c.loc())
            for c in b.calls():
                if c.decl == "rpm::signature::traits::Signing::sign":
                    got = render(t.term(c.args[1]))
                    rep.check(got == "buf[ser(self.metadata.header)]", "R2", "%s|signed-bytes" % fn, "the signer receives the serialised main header",
                              "the signer receives %s" % got[:200], c.loc())

    # ---- R2: content, size and digest of a file entry are only ever set together (at construction) ----------
    late = []
    for b in f.body_list:
        if b.derived:
            continue
        for bb in b.reachable():
            for st in b.stmts(bb):
                if st["k"] != "assign" or not st["lhs"]["p"]:
                    continue
                names = [p.get("n") for p in st["lhs"]["p"] if isinstance(p, dict) and "n" in p]
                if names and names[-1] in ("content", "sha_checksum", "size") and "PackageFileEntry" in b.local_ty(st["lhs"]["l"]):
                    late.append((b, st, names[-1]))
    for (b, st, nm) in late:
        rep.finding("R2", "%s|late-write|%s" % (fmt_key(b.path), nm),
                    "%s assigns PackageFileEntry.%s after construction: content, size and digest can get out of step (the recorded file digest would describe other bytes)" % (b.path, nm),
                    "%s:%s" % (b.file, st.get("line")))
    if not late:
        rep.ok("R2", "PackageFileEntry.{content,size,sha_checksum} are only set by the aggregate in add_data")

    # ---- R2: add_data ---------------------------------------------------------------------------
    ad = f.one("PackageBuilder::add_data")
    ta = TermBuilder(ad)
    ent = None
    for bb in ad.reachable():
        for st in ad.stmts(bb):
            if st["k"] == "assign" and st["rv"]["r"] == "agg" and st["rv"].get("adt", "").endswith("PackageFileEntry"):
                ent = st
    if rep.anchor(ent is not None, "R2", "PackageFileEntry aggregate in add_data"):
        fields = dict(zip(ent["rv"]["fields"], ent["rv"]["ops"]))
        c_t = render(ta.term(fields["content"]))
        s_t = render(ta.term(fields["sha_checksum"]))
        rep.check(s_t == "hex(sha256(%s))" % c_t, "R2", "add_data|file-digest", "file digest = hex(sha256(content stored in the entry))",
                  "file digest is %s but the stored content is %s" % (s_t[:160], c_t[:80]), ad.span)
        z_t = render(ta.term(fields["size"]))
        rep.check(z_t == "u64(std::vec::Vec::<T, A>::len(%s))" % c_t, "R2", "add_data|size", "size = content.len()",
                  "size is %s" % z_t[:120], ad.span)

    # ---- R4 "after every signing or signature-clearing operation": a failed operation leaves the recorded digests in place -------
    # (C10.R2: the mutators build the new signature header aside and replace the old one only once nothing can fail any more)
    if cfg != "no-default":
        rep.rule("R4", "sign / clear keep the recorded header digest when they fail (C10.R2)")
        rep.include("c10", f, fixture, cfg, tier, "R4", "signature header replaced only after the fallible steps", only_rules={"R2"}, floor=4)
