"""rpm's tag numbers (lib/rpmtag.h) for the tags this crate names - the wire-level meaning of every header entry.

rules/rpmtags.json was generated from the pinned tree and spot-checked against rpmtag.h (NAME 1000 ... SHA256HEADER 273,
SHA1HEADER 269, RSAHEADER 268, DSAHEADER 267, OPENPGP 278, PAYLOADDIGEST 5092, PAYLOADDIGESTALGO 5093, PAYLOADDIGESTALT 5097,
FILEDIGESTALGO 5011, LONGFILESIZES 5008, FILECAPS 5010, DIRINDEXES/BASENAMES/DIRNAMES 1116/1117/1118).  The numbers are fixed
by rpm, not by this crate: a changed number makes the crate read or write a different entry than every other rpm tool
while still agreeing with itself, which no round trip through the crate can show.
"""
import json, os

_T = None


def table():
    global _T
    if _T is None:
        with open(os.path.join(os.path.dirname(os.path.abspath(__file__)), "rpmtags.json")) as fh:
            _T = json.load(fh)
    return _T


def check_tag_numbers(f, rep, rule, names=None):
    """Every variant of IndexTag / IndexSignatureTag that rpm defines has rpm's number; `names` (optional) restricts the
    report to the tags a property depends on and requires them to exist."""
    n = 0
    for enum in ("IndexTag", "IndexSignatureTag"):
        try:
            adt = f.adt("constants::" + enum)
        except Exception:
            rep.finding(rule, "tag-numbers|%s|missing" % enum, "enum constants::%s not found" % enum)
            continue
        want = table()[enum]
        have = {v["name"]: int(v["discr"]) for v in adt["variants"]}
        for name, num in sorted(want.items()):
            if names is not None and name not in names:
                continue
            if name not in have:
                if names is not None:
                    rep.finding(rule, "tag-numbers|%s|absent" % name, "%s::%s no longer exists" % (enum, name))
                continue
            n += 1
            rep.check(have[name] == num, rule, "tag-numbers|%s" % name, "%s = %d (rpmtag.h)" % (name, num),
                      "%s::%s is %d, rpm defines it as %d: the crate reads and writes a different header entry than rpm does" % (enum, name, have[name], num))
    rep.floor(rule, "tag numbers compared with rpmtag.h", n, 300 if names is None else len(names))
