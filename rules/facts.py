"""Build (or reuse) the fact files for /repo's current working tree.

E1 of DESIGN.md: runs the rpmfacts driver through RUSTC_WORKSPACE_WRAPPER under
`cargo +nightly check --offline --lib` for a named feature configuration and returns the
path of the JSON fact file.  Facts are cached by a hash over /repo's sources, manifest,
lock file and the driver binary; a cache hit is only used when the fact file for exactly
that hash exists, so the facts are always those of the current tree.
"""
import fcntl
import hashlib
import json
import os
import shutil
import subprocess
import sys
import time

VERIF = os.path.dirname(os.path.dirname(os.path.abspath(__file__)))
REPO = os.environ.get("RPM_REPO", "/repo")
CACHE = os.path.join(VERIF, ".cache")
DRIVER = os.path.join(VERIF, "driver", "target", "release", "rpmfacts")

CONFIGS = {
    # name: cargo feature arguments
    "default+bzip2": ["--features", "bzip2-compression"],
    "no-default": ["--no-default-features"],
    # note: `--no-default-features --features signature-meta` does not compile on the pinned tree
    # (decode_sig is cfg(signature-pgp) but used under cfg(signature-meta)); it is not analysed.
    "default": [],
    # every codec plus the multi-threaded zstd encoder (the one remaining feature-gated code path); rules see it as "default+bzip2"
    "all-features": ["--features", "bzip2-compression,zstdmt"],
}
RULE_CFG = {"all-features": "default+bzip2"}
QUICK_CONFIGS = ["default+bzip2", "default"]   # every codec arm present + the crate's own default feature set
THOROUGH_CONFIGS = ["default+bzip2", "default", "no-default", "all-features"]


class InfraError(Exception):
    pass


def _sysroot():
    return subprocess.check_output(["rustc", "+nightly", "--print", "sysroot"], text=True).strip()


def tree_hash(repo=REPO):
    h = hashlib.sha256()
    files = []
    for root, dirs, fs in os.walk(os.path.join(repo, "src")):
        dirs.sort()
        for f in sorted(fs):
            files.append(os.path.join(root, f))
    for f in ("Cargo.toml", "Cargo.lock"):
        p = os.path.join(repo, f)
        if os.path.exists(p):
            files.append(p)
    files.append(DRIVER)
    for p in files:
        h.update(p.encode())
        try:
            with open(p, "rb") as fh:
                h.update(fh.read())
        except OSError:
            h.update(b"<missing>")
    return h.hexdigest()[:20]


def ensure_driver():
    if os.path.exists(DRIVER):
        return
    env = dict(os.environ, CARGO_NET_OFFLINE="true")
    r = subprocess.run(
        ["cargo", "build", "--release", "--offline"],
        cwd=os.path.join(VERIF, "driver"), env=env, capture_output=True, text=True)
    if r.returncode != 0 or not os.path.exists(DRIVER):
        raise InfraError("cannot build rpmfacts driver:\n" + r.stderr[-4000:])


def build_facts(config="default+bzip2", repo=REPO, cache=CACHE, quiet=True, scratch=False):
    """Return (path_to_fact_file, info dict). Raises InfraError when the tree does not compile."""
    ensure_driver()
    feats = CONFIGS[config]
    os.makedirs(cache, exist_ok=True)
    # scratch copies (self-tests) share one dependency cache: only the rpm crate is rebuilt per copy
    repo_tag = "main" if os.path.abspath(repo) == "/repo" else ("scratch" if scratch else hashlib.sha256(os.path.abspath(repo).encode()).hexdigest()[:8])
    lock_path = os.path.join(cache, "lock-%s-%s" % (repo_tag, config))
    with open(lock_path, "w") as lock:
        fcntl.flock(lock, fcntl.LOCK_EX)
        th = tree_hash(repo)
        out_dir = os.path.join(cache, "facts", repo_tag, config, th)
        fact = os.path.join(out_dir, "rpm.json")
        info = {"config": config, "tree_hash": th, "cached": True, "build_s": 0.0}
        if os.path.exists(fact):
            return fact, info
        # drop older fact dirs of this config (disk is limited)
        parent = os.path.dirname(out_dir)
        if os.path.isdir(parent):
            for d in os.listdir(parent):
                # scratch copies are analysed by several self-test processes at once: a fact file another process was just handed
                # (the lock is released on return) must survive until it has been read
                if repo_tag == "scratch" and time.time() - os.path.getmtime(os.path.join(parent, d)) < 300:
                    continue
                shutil.rmtree(os.path.join(parent, d), ignore_errors=True)
        os.makedirs(out_dir, exist_ok=True)
        target = os.path.join(cache, "target-%s-%s" % (repo_tag, config))
        # cargo would replay a stale run for an unchanged fingerprint: force the member to rebuild
        fp = os.path.join(target, "debug", ".fingerprint")
        if os.path.isdir(fp):
            for d in os.listdir(fp):
                if d.startswith("rpm-"):
                    shutil.rmtree(os.path.join(fp, d), ignore_errors=True)
        env = dict(os.environ)
        env.update({
            "CARGO_NET_OFFLINE": "true",
            "LD_LIBRARY_PATH": _sysroot() + "/lib" + (":" + env["LD_LIBRARY_PATH"] if env.get("LD_LIBRARY_PATH") else ""),
            "RPMFACTS_OUT": out_dir,
            "RPMFACTS_CRATES": "rpm",
            "RUSTFLAGS": "-Zmir-opt-level=0 -Awarnings --cfg rpm_rs_rpm_verif",
            "RUSTC_WORKSPACE_WRAPPER": DRIVER,
            "CARGO_TARGET_DIR": target,
            "CARGO_INCREMENTAL": "0",
        })
        t0 = time.time()
        r = subprocess.run(
            ["cargo", "+nightly", "check", "--offline", "--lib"] + feats,
            cwd=repo, env=env, capture_output=True, text=True)
        info["build_s"] = round(time.time() - t0, 2)
        info["cached"] = False
        if r.returncode != 0:
            shutil.rmtree(out_dir, ignore_errors=True)
            raise InfraError("cargo check failed for config %s:\n%s" % (config, r.stderr[-6000:]))
        if not os.path.exists(fact):
            shutil.rmtree(out_dir, ignore_errors=True)
            raise InfraError("driver did not write %s (stale cargo cache?)\n%s" % (fact, r.stderr[-3000:]))
        return fact, info


def build_fixture_facts(cache=CACHE):
    """Compile /verif/fixtures/lib.rs with the driver (single rustc invocation, no cargo)."""
    ensure_driver()
    src = os.path.join(VERIF, "fixtures", "lib.rs")
    h = hashlib.sha256()
    for p in (src, DRIVER):
        with open(p, "rb") as fh:
            h.update(fh.read())
    th = h.hexdigest()[:20]
    os.makedirs(cache, exist_ok=True)
    with open(os.path.join(cache, "lock-fixtures"), "w") as lock:
        fcntl.flock(lock, fcntl.LOCK_EX)
        out_dir = os.path.join(cache, "facts", "fixtures", th)
        fact = os.path.join(out_dir, "fixtures.json")
        if os.path.exists(fact):
            return fact
        parent = os.path.dirname(out_dir)
        if os.path.isdir(parent):
            for d in os.listdir(parent):
                shutil.rmtree(os.path.join(parent, d), ignore_errors=True)
        os.makedirs(out_dir, exist_ok=True)
        env = dict(os.environ)
        env.update({
            "LD_LIBRARY_PATH": _sysroot() + "/lib",
            "RPMFACTS_OUT": out_dir,
            "RPMFACTS_CRATES": "fixtures",
        })
        r = subprocess.run(
            [DRIVER, "rustc", "--edition=2021", "--crate-type", "lib", "--crate-name", "fixtures", src,
             "--emit=metadata", "-Zmir-opt-level=0", "-Awarnings", "--out-dir", out_dir],
            env=env, capture_output=True, text=True)
        if r.returncode != 0 or not os.path.exists(fact):
            shutil.rmtree(out_dir, ignore_errors=True)
            raise InfraError("fixtures do not compile:\n" + r.stderr[-4000:])
        return fact


if __name__ == "__main__":
    cfgs = sys.argv[1:] or QUICK_CONFIGS
    for c in cfgs:
        f, i = build_facts(c)
        print(f, json.dumps(i))
