"""C06 - everything given to the builder is read back unchanged (field-flow completeness and tag/type agreement).

  R1  no dropped input: every PackageBuilder / PackageFileEntry / Scriptlet / Dependency field that a public
      API fills is read on the build path and reaches a header entry or the archive
  R2  builder field -> tag -> data type equals the accessor's (tag, getter) pair of C05's oracle
  R3  order is preserved: list inputs are emitted by in-order traversal, nothing sorts / dedups / reverses them
  R4  per-file columns are parallel: each per-file vector gets exactly one push per file, in the loop that
      also writes the file's archive entry
Not decided: value-level path arithmetic in add_data (dirname/basename strings), UTF-8 content.
"""
import re
from engine import op_place, const_str
from terms import TermBuilder, render
from common import fmt_key, ok_assign_blocks, reach_from, switch_info
from c01 import agg_fields
from c08 import index_entries
from c05 import TAG_TYPE, SCRIPTS, DEPS

ID = "rpm::headers::header::IndexData::"
VARIANT_TYPES = {"StringTag": {"string"}, "I18NString": {"i18n_string", "string_array"}, "StringArray": {"string_array"}, "Int16": {"u16_array"},
                 "Int32": {"u32", "u32_array"}, "Int64": {"u64", "u64_array"}, "Bin": {"binary"}}

FILES_ITEM = "std::iter::Iterator::next(std::iter::Iterator::enumerate(std::collections::BTreeMap::<K, V, A>::iter(self.files)))<Some>.0.1.1"
# field -> (tag, expected data term)
SCALARS = {
    "name": ("RPMTAG_NAME", ID + "StringTag{self.name}"),
    "epoch": ("RPMTAG_EPOCH", ID + "Int32{vec![self.epoch]}"),
    "version": ("RPMTAG_VERSION", ID + "StringTag{self.version}"),
    "release": ("RPMTAG_RELEASE", ID + "StringTag{self.release}"),
    "arch": ("RPMTAG_ARCH", ID + "StringTag{self.arch}"),
    "license": ("RPMTAG_LICENSE", ID + "StringTag{self.license}"),
    "summary": ("RPMTAG_SUMMARY", ID + "I18NString{vec![self.summary]}"),
    "desc": ("RPMTAG_DESCRIPTION", ID + "I18NString{vec![std::option::Option::<T>::unwrap_or_else(self.desc, closure{self.summary})]}"),
    "group": ("RPMTAG_GROUP", ID + "I18NString{vec![std::option::Option::<T>::unwrap_or_else(self.group, closure{})]}"),
    "vendor": ("RPMTAG_VENDOR", ID + "StringTag{self.vendor<Some>.0}"),
    "packager": ("RPMTAG_PACKAGER", ID + "StringTag{self.packager<Some>.0}"),
    "url": ("RPMTAG_URL", ID + "StringTag{self.url<Some>.0}"),
    "vcs": ("RPMTAG_VCS", ID + "StringTag{self.vcs<Some>.0}"),
    "cookie": ("RPMTAG_COOKIE", ID + "StringTag{self.cookie<Some>.0}"),
    "build_host": ("RPMTAG_BUILDHOST", ID + "StringTag{self.build_host<Some>.0}"),
    "changelog_names": ("RPMTAG_CHANGELOGNAME", ID + "StringArray{self.changelog_names}"),
    "changelog_entries": ("RPMTAG_CHANGELOGTEXT", ID + "StringArray{self.changelog_entries}"),
    "changelog_times": ("RPMTAG_CHANGELOGTIME", ID + "Int32{std::iter::Iterator::collect(std::iter::Iterator::map(self.changelog_times, <rpm::timestamp::Timestamp as std::convert::Into<u32>>::into))}",
                        ID + "Int32{std::iter::Iterator::collect(std::iter::Iterator::map(self.changelog_times, <u32 as std::convert::From<rpm::timestamp::Timestamp>>::from))}"),
}
DEP_FIELDS = {"provides": "PROVIDE", "requires": "REQUIRE", "conflicts": "CONFLICT", "obsoletes": "OBSOLETE", "recommends": "RECOMMEND", "suggests": "SUGGEST",
              "enhances": "ENHANCE", "supplements": "SUPPLEMENT"}
SCRIPT_FIELDS = {"pre_inst_script": "PREIN", "post_inst_script": "POSTIN", "pre_uninst_script": "PREUN", "post_uninst_script": "POSTUN", "pre_trans_script": "PRETRANS",
                 "post_trans_script": "POSTTRANS", "pre_untrans_script": "PREUNTRANS", "post_untrans_script": "POSTUNTRANS", "verify_script": "VERIFYSCRIPT"}
FILE_COLUMNS = {
    # tag -> (variant, per-file element term suffix)
    "RPMTAG_FILEMODES": ("Int16", ".mode"), "RPMTAG_FILEUSERNAME": ("StringArray", ".user"), "RPMTAG_FILEGROUPNAME": ("StringArray", ".group"),
    "RPMTAG_FILEFLAGS": ("Int32", "bits(%s.flags)"), "RPMTAG_FILELINKTOS": ("StringArray", ".link"), "RPMTAG_FILEDIGESTS": ("StringArray", ".sha_checksum"),
    "RPMTAG_BASENAMES": ("StringArray", ".base_name"), "RPMTAG_FILEVERIFYFLAGS": ("Int32", "bits(%s.verify_flags)"),
}


def run(f, fixture, rep, cfg, tier):
    rep.explanation = (
        "Field-flow completeness and table agreement over MIR provenance terms: every field of the builder state and of the "
        "per-file / scriptlet / dependency records that the public API fills must occur in the provenance of a header entry "
        "or archive write in prepare_data; each (field, tag, data type) row extracted at the IndexEntry::new sites must equal "
        "the oracle and be of a type the matching accessor's getter accepts (C05's table); list inputs are traversed in order "
        "with no reordering call; per-file vectors receive exactly one push per iteration of the single loop over files.")
    rep.trusted = ["rustc nightly MIR", "Vec::push / into_iter preserve order", "rpm tag table", "C05's accessor table"]
    for r, d in (("R1", "no dropped input"), ("R2", "field -> tag -> type table"), ("R3", "order preserved"), ("R4", "parallel per-file columns")):
        rep.rule(r, d)
    pd = f.one("PackageBuilder::prepare_data")
    tb = TermBuilder(pd)
    ents = index_entries(pd, tb)
    by_tag = {}
    for tag, data, c in ents:
        by_tag.setdefault(tag, []).append((data, c))
    ent_terms = [(tag, tb.term(c.args[2])) for (tag, _d, c) in ents]

    # ---- R2 scalar fields ----------------------------------------------------------------------
    for field, spec_ in SCALARS.items():
        tag, want = spec_[0], spec_[1]
        got = [d for d, _c in by_tag.get(tag, [])]
        rep.check(got == [want] or (len(got) == 1 and got[0] in spec_[2:]), "R2", "%s|%s" % (field, tag), "%s -> %s as %s" % (field, tag, want[len(ID):][:60]),
                  "%s is written as %s (expected the builder's `%s` as %s)" % (tag, [g[len(ID):][:140] for g in got], field, want[len(ID):]), (by_tag.get(tag) or [(None, pd)])[0][1].loc() if by_tag.get(tag) else pd.span)
        variant = want[len(ID):].split("{", 1)[0]
        ty = TAG_TYPE.get(tag)
        if ty:
            rep.check(ty in VARIANT_TYPES[variant], "R2", "%s|%s|type" % (field, tag), "%s is written as %s, read as %s" % (tag, variant, ty),
                      "%s is written as %s but its accessor reads %s" % (tag, variant, ty), pd.span)
    # group default
    # dependencies
    for field, fam in DEP_FIELDS.items():
        item = "std::iter::Iterator::next(self.%s)<Some>.0" % field
        rows = {
            "RPMTAG_%sNAME" % fam: ID + "StringArray{buf[write:std::vec::Vec::<T, A>::push(%s.name)]}" % item,
            "RPMTAG_%sVERSION" % fam: ID + "StringArray{buf[write:std::vec::Vec::<T, A>::push(%s.version)]}" % item,
            "RPMTAG_%sFLAGS" % fam: ID + "Int32{buf[write:std::vec::Vec::<T, A>::push(constants::_::<impl constants::DependencyFlags>::bits(%s.flags))]}" % item,
        }
        for tag, want in rows.items():
            got = [d for d, _c in by_tag.get(tag, [])]
            rep.check(got == [want], "R2", "%s|%s" % (field, tag), "%s -> %s positionally" % (field, tag),
                      "%s is written as %s (expected one in-order pass over `%s`)" % (tag, [g[len(ID):][:160] for g in got], field), pd.span)
    # scriptlets
    ap = f.one("types::Scriptlet::apply")
    ta = TermBuilder(ap)
    rows = [(render(ta.term(c.args[0])), render(ta.term(c.args[2]))) for c in ap.calls() if re.search(r"IndexEntry::<.*>::new$", c.decl)]
    # `self.flags.map(|flags| IndexEntry::new(..))` + `records.extend(entry)`: the row is built in the closure, its value parameter
    # bound to the Option's payload
    for cb_ in f.closures_of(ap):
        tcb_ = TermBuilder(cb_, closure_env=True)
        rows += [(render(tcb_.term(c.args[0])), render(tcb_.term(c.args[2]))) for c in cb_.calls() if re.search(r"IndexEntry::<.*>::new$", c.decl)]
    rows.sort()
    want_rows = [("tags.0", ID + "StringTag{self.script}"),
                 ("tags.1", ID + "Int32{vec![constants::_::<impl constants::ScriptletFlags>::bits(self.flags<Some>.0)]}"),
                 ("tags.2", ID + "StringArray{self.program<Some>.0}")]
    rep.check(rows == want_rows, "R2", "scriptlet|apply", "Scriptlet::apply writes script/flags/program under tags .0/.1/.2", "Scriptlet::apply writes %s" % rows, ap.span)
    applies = {}
    from idioms import expand_rows
    for c in pd.calls():
        if c.decl.endswith("types::Scriptlet::apply"):
            for (a0, a3) in expand_rows((tb.term(c.args[0]), tb.term(c.args[3]))):
                applies[render(a0)] = render(a3)
    for field, fam in SCRIPT_FIELDS.items():
        want = "(constants::IndexTag::RPMTAG_%s, constants::IndexTag::RPMTAG_%sFLAGS, constants::IndexTag::RPMTAG_%sPROG)" % (fam, fam, fam)
        got = applies.get("self.%s<Some>.0" % field)
        rep.check(got == want, "R2", "%s|tags" % field, "%s is applied with the %s tag family" % (field, fam),
                  "%s is %s" % (field, "never applied: the scriptlet is dropped" if got is None else "applied with %s" % got[:160]), pd.span)
        # the accessor of the same family exists (C05 checks its tags)
        acc = [n for n, fm in SCRIPTS.items() if fm == fam]
        rep.check(bool(acc) and any(b.name == acc[0] for b in f.body_list), "R2", "%s|accessor" % field, "accessor %s exists" % (acc[0] if acc else "?"),
                  "no accessor reads the %s scriptlet back" % fam, pd.span)
    # per-file columns
    for tag, (variant, suffix) in FILE_COLUMNS.items():
        got = [d for d, _c in by_tag.get(tag, [])]
        elem = (FILES_ITEM + suffix) if suffix.startswith(".") else None
        ok = len(got) == 1 and got[0].startswith(ID + variant + "{buf[write:std::vec::Vec::<T, A>::push(")
        if ok and elem:
            ok = got[0] == ID + variant + "{buf[write:std::vec::Vec::<T, A>::push(%s)]}" % elem
        elif ok:
            inner = suffix % FILES_ITEM
            ok = inner.split("bits(")[1] in got[0]
        rep.check(ok, "R2", "file|%s" % tag, "%s <- per-file %s" % (tag, suffix.strip(".%s()")), "%s is written as %s" % (tag, [g[len(ID):][:200] for g in got]), pd.span)
    mt = [d for d, _c in by_tag.get("RPMTAG_FILEMTIMES", [])]
    want_mt = ID + "Int32{buf[write:std::vec::Vec::<T, A>::push(phi(self.source_date<Some>.0 | %s.modified_at))]}" % FILES_ITEM
    want_mt2 = ID + "Int32{buf[write:std::vec::Vec::<T, A>::push(MIN(self.source_date, %s.modified_at))]}" % FILES_ITEM
    if mt != [want_mt]:
        from idioms import normalize
        mt = [render(normalize(f, t_)) for (tg_, t_) in ent_terms if tg_ == "RPMTAG_FILEMTIMES"]
        want_mt = want_mt2
        if len(mt) == 1 and re.fullmatch(re.escape(ID) + r"Int32\{buf\[write:std::vec::Vec::<T, A>::push\(MIN\(self\.source_date, (ELEM\([^()]*\(self\.files\)\)|[^,]*self\.files[^,]*)(<Some>\.0)?\.1\.modified_at\)\)\]\}", mt[0]):
            want_mt = mt[0]
    rep.check(mt == [want_mt], "R2", "file|RPMTAG_FILEMTIMES", "FILEMTIMES <- per-file mtime, or the source date when that is earlier",
              "FILEMTIMES is written as %s" % [x[len(ID):][:220] for x in mt], pd.span)
    caps = [d for d, _c in by_tag.get("RPMTAG_FILECAPS", [])]
    rep.check(len(caps) == 1 and FILES_ITEM + ".caps" in caps[0], "R2", "file|RPMTAG_FILECAPS", "FILECAPS <- per-file caps", "FILECAPS is written as %s" % [c[:160] for c in caps], pd.span)
    sizes = [d for d, _c in by_tag.get("RPMTAG_FILESIZES", [])] + [d for d, _c in by_tag.get("RPMTAG_LONGFILESIZES", [])]
    rep.check(len(sizes) == 2 and all(FILES_ITEM + ".size" in s for s in sizes), "R2", "file|sizes", "FILESIZES / LONGFILESIZES <- per-file size", "file sizes are written as %s" % [s[:160] for s in sizes], pd.span)
    dn = [d for d, _c in by_tag.get("RPMTAG_DIRNAMES", [])]
    rep.check(dn == [ID + "StringArray{std::iter::Iterator::collect(self.directories)}"], "R2", "file|RPMTAG_DIRNAMES", "DIRNAMES <- the directory set in order", "DIRNAMES is %s" % dn, pd.span)
    di = [d for d, _c in by_tag.get("RPMTAG_DIRINDEXES", [])]
    di_ok = len(di) == 1 and ("std::iter::Iterator::position(std::collections::BTreeSet::<T, A>::iter(self.directories)" in di[0] or
                              (re.search(r"(BTreeMap|HashMap)::<K, V(, [AS])?>::get\(", di[0]) is not None and "std::iter::Iterator::enumerate(" in di[0] and "self.directories" in di[0] and ".dir" in di[0]))
    rep.check(di_ok, "R2", "file|RPMTAG_DIRINDEXES",
              "DIRINDEXES <- position of the file's directory in the same set", "DIRINDEXES is %s" % [x[:200] for x in di], pd.span)
    for cb in f.closures_of(pd):
        tcb = TermBuilder(cb)
        for c in cb.calls():
            if c.decl == "std::cmp::PartialEq::eq" and "dir" in render(tcb.term(c.args[1])):
                rep.ok("R2", "directory lookup compares with the file's own dir: %s" % render(tcb.term(c.args[1]))[:80], c.loc())

    # add_data: FileOptions -> PackageFileEntry
    ad = f.one("PackageBuilder::add_data")
    ag = agg_fields(ad, "types::PackageFileEntry")
    if rep.anchor(ag is not None, "R2", "PackageFileEntry aggregate in add_data"):
        ft = ag[0]
        want = {"mode": "options.mode", "link": "options.symlink", "flags": "options.flag", "user": "options.user", "group": "options.group", "caps": "options.caps",
                "verify_flags": "options.verify_flags", "modified_at": "modified_at", "content": "content"}
        for k, v in want.items():
            rep.check(ft.get(k) == v, "R2", "add_data|%s" % k, "entry.%s <- %s" % (k, v), "entry.%s is %s (expected %s)" % (k, (ft.get(k) or "")[:100], v), ad.span)
        rep.check("options.destination" in ft.get("base_name", "") and "file_name" in ft.get("base_name", ""), "R2", "add_data|base_name", "base_name <- file name of the destination",
                  "entry.base_name is %s" % ft.get("base_name", "")[:120], ad.span)
        rep.check("options.destination" in ft.get("dir", "") and "parent" in ft.get("dir", ""), "R2", "add_data|dir", "dir <- parent of the destination", "entry.dir is %s" % ft.get("dir", "")[:160], ad.span)
        # ... written with exactly the shape rpm concatenates: DIRNAMES[i] + BASENAMES[i] is the path, so every directory name ends in
        # '/'.  Each value that reaches entry.dir is a `format!` whose template ends with "/", or was tested with `ends_with('/')`.
        tad0 = TermBuilder(ad)

        def _template(body, op, depth=0):
            """decoded pieces of the format_args template behind a formatted String operand, or None"""
            if depth > 6 or op_place(op) is None:
                return None
            for lf in body.origins(op, passthrough={}):
                if lf["kind"] == "call":
                    c_ = lf["call"]
                    if c_.decl.startswith("std::fmt::Arguments::<'a>::new") and c_.args:
                        for l2 in body.origins(c_.args[0]):
                            raw = (l2.get("k") or {}).get("alloc") if l2["kind"] == "const" else None
                            if raw:
                                bs, out, i_ = bytes.fromhex(raw), [], 0
                                while i_ < len(bs) and bs[i_] != 0:
                                    if bs[i_] >= 0x80:
                                        out.append(None)
                                        i_ += 1
                                    else:
                                        out.append(bs[i_ + 1:i_ + 1 + bs[i_]])
                                        i_ += 1 + bs[i_]
                                return out
                    if re.search(r"(std::fmt::format|std::hint::must_use|alloc::fmt::format)", c_.decl) and c_.args:
                        t_ = _template(body, c_.args[0], depth + 1)
                        if t_ is not None:
                            return t_
            return None
        dir_op = None
        agg_bb = None
        for bb_ in ad.reachable():
            for st_ in ad.stmts(bb_):
                if st_["k"] == "assign" and st_["rv"]["r"] == "agg" and st_["rv"].get("adt", "").endswith("types::PackageFileEntry"):
                    dir_op = dict(zip(st_["rv"]["fields"], st_["rv"]["ops"])).get("dir")
                    agg_bb = bb_
        bad_dirs = []
        n_dir = 0
        if dir_op is not None and op_place(dir_op) is not None:
            # the locals the directory string flows through on its way to the entry (moves, tuple fields, copies, borrows)
            chain, work_ = set(), [op_place(dir_op)["l"]]
            defs_of = {}
            while work_:
                l_ = work_.pop()
                if l_ in chain or (1 <= l_ <= ad.argc):
                    continue
                chain.add(l_)
                for d_ in ad.defs(l_):
                    (dbb, _i, kind, payload, lhs_proj) = d_
                    if lhs_proj:
                        continue
                    defs_of.setdefault(l_, []).append(d_)
                    if kind == "call":
                        c_ = ad.call_at(dbb)
                        if re.search(r"(Clone::clone|ToOwned::to_owned|ToString::to_string|Into::into|From::from|Deref::deref|String::as_str|AsRef::as_ref|Try::branch)$", c_.decl) and c_.args and op_place(c_.args[0]) is not None:
                            work_.append(op_place(c_.args[0])["l"])
                        continue
                    rv_ = payload["rv"]
                    if rv_["r"] in ("use", "cast") and op_place(rv_["o"]) is not None:
                        work_.append(op_place(rv_["o"])["l"])
                    elif rv_["r"] == "ref":
                        work_.append(rv_["p"]["l"])
                    elif rv_["r"] == "agg" and (rv_.get("ak") == "tuple" or rv_.get("variant") in ("Ok", "Some")):
                        for o_ in rv_["ops"]:
                            if op_place(o_) is not None and re.match(r"^(&?std::string::String|&str|\(.*std::string::String.*\))$", ad.local_ty(op_place(o_)["l"])):
                                work_.append(op_place(o_)["l"])
            # events that establish the trailing '/'
            good_blocks, good_edges, starts = set(), set(), set()
            for l_ in chain:
                for (dbb, _i, kind, payload, lhs_proj) in defs_of.get(l_, []):
                    if kind == "call":
                        c_ = ad.call_at(dbb)
                        if re.search(r"(Clone::clone|ToOwned::to_owned|ToString::to_string|Into::into|From::from|Deref::deref|String::as_str|AsRef::as_ref|Try::branch)$", c_.decl):
                            continue
                        if c_.decl.endswith("FromResidual::from_residual"):
                            continue        # the error value of a `?` exit: no directory name in it
                        tpl = None
                        cc_ = c_
                        for _k in range(4):
                            if cc_.decl.startswith("std::fmt::Arguments::<'a>::new"):
                                break
                            nx_ = [lf["call"] for lf in ad.origins(cc_.args[0], passthrough={}) if lf["kind"] == "call"] if cc_.args and op_place(cc_.args[0]) is not None else []
                            if len(nx_) != 1:
                                break
                            cc_ = nx_[0]
                        if cc_.decl.startswith("std::fmt::Arguments::<'a>::new") and cc_.dest is not None:
                            tpl = _template(ad, {"c": cc_.dest})
                        n_dir += 1
                        if tpl and tpl[-1] is not None and tpl[-1].endswith(b"/"):
                            good_blocks.add(ad.term(dbb).get("target", dbb) if ad.term(dbb).get("target") is not None else dbb)
                        else:
                            starts.add((ad.term(dbb).get("target") if ad.term(dbb).get("target") is not None else dbb, "%s at line %s" % (c_.decl.rsplit("::", 1)[-1], c_.line)))
                    else:
                        rv_ = payload["rv"]
                        if rv_["r"] in ("use", "cast", "ref") or (rv_["r"] == "agg" and (rv_.get("ak") == "tuple" or rv_.get("variant") in ("Ok", "Some"))):
                            continue        # the value it copies / wraps decides
                        n_dir += 1
                        starts.add((dbb, "value built at line %s" % payload.get("line")))
            for sb_ in ad.reachable():
                i_ = switch_info(ad, sb_)
                if i_ and i_["kind"] == "bool" and i_["call"].decl.endswith("<impl str>::ends_with") and const_str(i_["call"].args[1]) in ("'/'", '"/"'):
                    if i_["call"].args and op_place(i_["call"].args[0]) is not None:
                        roots_ = set()
                        w2 = [op_place(i_["call"].args[0])["l"]] if op_place(i_["call"].args[0]) is not None else []
                        seen2 = set()
                        while w2:
                            x_ = w2.pop()
                            if x_ in seen2:
                                continue
                            seen2.add(x_)
                            roots_.add(x_)
                            for d2 in ad.defs(x_):
                                if d2[4]:
                                    continue
                                if d2[2] == "call":
                                    c2 = ad.call_at(d2[0])
                                    if re.search(r"(Deref::deref|String::as_str|AsRef::as_ref|Borrow::borrow)$", c2.decl) and c2.args and op_place(c2.args[0]) is not None:
                                        w2.append(op_place(c2.args[0])["l"])
                                elif d2[3]["rv"]["r"] in ("use", "cast") and op_place(d2[3]["rv"]["o"]) is not None:
                                    w2.append(op_place(d2[3]["rv"]["o"])["l"])
                                elif d2[3]["rv"]["r"] == "ref":
                                    w2.append(d2[3]["rv"]["p"]["l"])
                        if roots_ & chain:
                            good_edges.add((sb_, i_["true"]))
            for c_ in ad.calls():
                if c_.decl.endswith("String::push") and len(c_.args) == 2 and const_str(c_.args[1]) == "'/'" and any(w_ is c_ for l_ in chain for (w_, _ai) in ad.mut_borrow_calls(l_)):
                    if c_.target is not None:
                        good_blocks.add(c_.target)
            from pathsens import ps_reach as _rf      # an `Err(..)` built in a spliced-in helper does not reach the entry's construction
            for (sbb, what_) in sorted(starts, key=lambda x: str(x)):
                if sbb in good_blocks:
                    continue
                if agg_bb in _rf(ad, sbb, blocked_edges=good_edges, blocked_blocks=good_blocks):
                    bad_dirs.append(what_)
        rep.check(n_dir >= 1 and not bad_dirs, "R2", "add_data|dir|trailing-slash", "every directory name handed to the header ends with '/'",
                  "entry.dir can be a directory name without the trailing '/' (%s): DIRNAMES[i] + BASENAMES[i] is then not the file's path" % "; ".join(bad_dirs[:3]), ad.span)
        tad = TermBuilder(ad)
        ins = [c for c in ad.calls() if c.decl.endswith("BTreeMap::<K, V, A>::entry")]
        rep.check(len(ins) == 1 and "options.destination" in render(tad.term(ins[0].args[1])), "R2", "add_data|cpio-path", "the archive name derives from the destination",
                  "files key is %s" % [render(tad.term(c.args[1]))[:120] for c in ins], ad.span)

    # inherited mode: with_file takes the source file's mode verbatim when no mode was given
    wfb = f.one("PackageBuilder::with_file")
    twf = TermBuilder(wfb)
    mode_writes = []
    for l in range(len(wfb.locals)):
        for (_bb, _idx, kind, payload, lhs_proj) in wfb.defs(l):
            if kind == "assign" and lhs_proj and lhs_proj[-1].get("n") == "mode" and wfb.locals[l]["name"] == "options":
                mode_writes.append(render(twf.term(payload["rv"]["o"])) if payload["rv"]["r"] == "use" else "<%s>" % payload["rv"]["r"])
    if rep.anchor(len(mode_writes) >= 1, "R2", "with_file writes options.mode when permissions are inherited"):
        for mw in mode_writes:
            okm = re.fullmatch(r"(std::convert::(Into::into|From::from)\()?i32\(rpm::builder::file_mode\(std::fs::File::open\(source\)<Ok>\.0\)<Ok>\.0\)\)?", mw) is not None
            rep.check(okm, "R2", "with_file|inherited-mode", "options.mode <- file_mode(source file), unmodified", "the inherited mode is %s" % mw[:200], wfb.span)
    fmb = f.one("builder::file_mode")
    if True:
        from common import ok_payload_terms
        oks = sorted(set(ok_payload_terms(f, fmb)))
        rep.check(oks == ["std::os::unix::fs::PermissionsExt::mode(std::fs::Metadata::permissions(std::fs::File::metadata(file)<Ok>.0))"], "R2", "file_mode|verbatim",
                  "file_mode returns the st_mode of the open file, unmasked", "file_mode returns %s" % [o[:200] for o in oks], fmb.span)

    # ---- R1 a given optional value is emitted whatever else was (not) given -----------------------------------------------------
    # the row of an optional field may depend on one test only: "this field is set".  A table-driven emission that stops at the
    # first unset field (`map_while`, `break`) or skips after one makes a given value depend on its neighbours.
    oks_pd = set(ok_assign_blocks(pd))
    rc_ = {}

    def reach_(b_):
        if b_ not in rc_:
            rc_[b_] = reach_from(pd, b_)
        return rc_[b_]
    opt_rows = []
    for field, spec_ in SCALARS.items():
        if "self.%s<Some>.0" % field in spec_[1]:
            for (d_, c_) in by_tag.get(spec_[0], []):
                opt_rows.append((field, spec_[0], c_))
    for c_ in pd.calls():
        if c_.decl.endswith("Scriptlet::apply"):
            m_ = re.match(r"self\.(\w+)<Some>\.0$", render(tb.term(c_.args[0])))
            if m_:
                opt_rows.append((m_.group(1), "scriptlet", c_))
    n_gated = 0
    for (field, tag, c_) in opt_rows:
        if c_.body is not pd:
            continue
        for d_ in sorted(pd.reachable()):
            t_ = pd.term(d_)
            if t_["t"] != "switch" or not pd.dominates(d_, c_.bb):
                continue
            away = [s_ for s_ in pd.succ(d_) if c_.bb not in reach_(s_)]
            if not away or not any(reach_(s_) & oks_pd for s_ in away):
                continue
            info = switch_info(pd, d_)
            if info["kind"] == "bool" and info["call"].args:
                g_ = render(tb.term(info["call"].args[0]))
            elif info["kind"] in ("discr", "value"):
                g_ = render(tb.term(info["place"]))
            else:
                dpl_ = op_place(t_["d"])
                g_ = render(tb.term(dpl_)) if dpl_ is not None else "?"
            n_gated += 1
            rep.check(g_ == "self.%s" % field, "R1", "emitted-when-given|%s|%s" % (field, g_[:60]), "the %s row is emitted exactly when %s is set" % (tag, field),
                      "whether the given `%s` reaches the header also depends on `%s`: a value supplied to the builder is dropped when that test fails" % (field, g_[:100]), c_.loc())
    rep.floor("R1", "presence tests guarding optional rows", n_gated, 10)

    # ---- R1 no dropped input -----------------------------------------------------------------------------
    all_terms = " ".join(d for (_t, d, _c) in ents)
    for c in pd.calls():
        if re.search(r"(payload::|Lead::new|Scriptlet::apply|Dependency::|TryInto::try_into|PartialOrd::lt|PartialEq::eq)", c.decl):
            all_terms += " " + " ".join(render(tb.term(a)) for a in c.args)
    adt = f.adt("builder::PackageBuilder")
    fields = [fl["name"] for fl in adt["variants"][0]["fields"]]
    rep.floor("R1", "PackageBuilder fields", len(fields), 40)
    for fl in fields:
        used = re.search(r"\bself\.%s\b" % re.escape(fl), all_terms) is not None
        rep.check(used, "R1", "builder-field|%s" % fl, "PackageBuilder.%s reaches the output" % fl,
                  "PackageBuilder.%s is stored by the builder API but never reaches a header entry or the archive: the value is silently dropped" % fl, pd.span)
    pfe = f.adt("types::PackageFileEntry")
    for fl in [x["name"] for x in pfe["variants"][0]["fields"]]:
        used = (FILES_ITEM + "." + fl) in all_terms or re.search(r"\.1\.%s\b" % fl, all_terms) is not None
        if fl == "dir":
            used = used or any(".dir" in render(TermBuilder(cb).term(c.args[1])) for cb in f.closures_of(pd) for c in cb.calls() if c.decl == "std::cmp::PartialEq::eq")
        rep.check(used, "R1", "file-field|%s" % fl, "PackageFileEntry.%s reaches the output" % fl, "PackageFileEntry.%s never reaches a header entry or the archive" % fl, pd.span)
    # FileOptions fields are consumed by add_data / with_file
    fo = f.adt("types::FileOptions")
    wf = f.one("PackageBuilder::with_file")
    t_ad = " ".join(v for v in (ag[0].values() if ag else [])) + " ".join(render(TermBuilder(ad).term(a)) for c in ad.calls() for a in c.args)
    t_wf = " ".join(render(TermBuilder(wf).term(a)) for c in wf.calls() for a in c.args)
    for sb in wf.reachable():
        t = wf.term(sb)
        if t["t"] == "switch" and op_place(t["d"]) is not None:
            t_wf += " " + render(TermBuilder(wf).term(op_place(t["d"])))
    for fl in [x["name"] for x in fo["variants"][0]["fields"]]:
        used = ("options.%s" % fl) in t_ad or re.search(r"\.%s\b" % fl, t_wf) is not None
        rep.check(used, "R1", "fileoptions-field|%s" % fl, "FileOptions.%s is consumed" % fl, "FileOptions.%s is never read when the file is added" % fl, ad.span)

    # ---- R3 order --------------------------------------------------------------------------------------------
    bad = [c for c in pd.calls() if re.search(r"(<impl \[T\]>::(sort|sort_by|sort_by_key|sort_unstable|sort_unstable_by|reverse|rotate_left|rotate_right)|Vec::<T, A>::(dedup|dedup_by|dedup_by_key|swap_remove|retain|insert)|Iterator::rev)$", c.decl)]
    rep.check(not bad, "R3", "no-reordering", "prepare_data calls no sort / dedup / reverse / insert on its lists", "prepare_data reorders with %s" % [c.decl for c in bad], pd.span)
    # user entries precede the automatically appended ones: appends are pushes
    for field in ("provides", "requires", "recommends"):
        ws = [w.decl for (w, _i) in pd.mut_borrow_calls(1)] if False else []
    pushes = [c for c in pd.calls() if c.decl.endswith("Vec::<T, A>::push") and re.fullmatch(r"self\.(provides|requires|recommends)", render(tb.term(c.args[0])))]
    # `extend([..])` / `extend(iter)` / `append(..)` also add at the end
    n_app = len(pushes)
    for c in pd.calls():
        if re.search(r"(Extend::extend|Vec::<T, A>::extend_from_slice|Vec::<T, A>::append)$", c.decl) and len(c.args) > 1 and re.fullmatch(r"self\.(provides|requires|recommends)", render(tb.term(c.args[0]))):
            at_ = tb.term(c.args[1])
            while at_[0] == "call" and at_[1].endswith("IntoIterator::into_iter") and at_[2]:
                at_ = at_[2][0]
            n_app += len(at_[2]) if at_[0] == "agg" and at_[1] == "array" else 1
            pushes.append(c)
    rep.floor("R3", "automatic dependency appends", n_app, 8)
    for c in pushes:
        rep.ok("R3", "automatic entry appended after the user's entries of %s" % render(tb.term(c.args[0])), c.loc())

    # ---- R4 parallel columns -----------------------------------------------------------------------------------
    file_loops = []
    for c in pd.calls():
        if c.decl == "std::iter::Iterator::next" and "Enumerate<std::collections::btree_map::Iter" in (c.self_ty or ""):
            file_loops.append(c)
    if rep.check(len(file_loops) == 1, "R4", "one-file-loop", "one loop over files.iter().enumerate()", "%d enumerate loops over files" % len(file_loops), pd.span):
        blks = min([b for (_h, b) in pd.loops() if file_loops[0].bb in b], key=len)
        back = [t for (t, h) in pd.back_edges() if t in blks and h in blks]
        per_recv = {}
        for c in pd.calls():
            if c.bb in blks and c.decl.endswith("Vec::<T, A>::push"):
                pl = op_place(c.args[0])
                recv = None
                for lf in pd.origins(pl, passthrough={}):
                    pass
                # the receiver local behind `&mut vec`
                cur = pl
                for _ in range(4):
                    ds = pd.defs(cur["l"])
                    if len(ds) == 1 and ds[0][2] == "assign" and ds[0][3]["rv"]["r"] == "ref":
                        cur = ds[0][3]["rv"]["p"]
                        continue
                    break
                per_recv.setdefault(pd.local_name(cur["l"]) or "_%d" % cur["l"], []).append(c)
        rep.floor("R4", "per-file vectors", len(per_recv), 14)
        for name, cs in sorted(per_recv.items()):
            ok = len(cs) == 1 and all(pd.dominates(cs[0].bb, t) for t in back)
            rep.check(ok, "R4", "column|%s" % name, "%s: exactly one push per file" % name, "%s receives %d pushes per iteration / not on every iteration" % (name, len(cs)), cs[0].loc())
        wc = [c for c in pd.calls() if c.bb in blks and (c.decl.endswith("payload::Builder::write_cpio") or c.decl.endswith("stripped_cpio_header"))]
        rep.check(len(wc) == 2, "R4", "archive-in-loop", "the file's archive entry is written in the same iteration", "archive writes in the file loop: %s" % [c.decl for c in wc], pd.span)

    # build_and_sign builds exactly what the caller configured: the builder handed to build() is `self`, untouched
    if cfg != "no-default":
        for bs in [x for x in f.find("PackageBuilder::build_and_sign") if x.kind != "closure"]:
            tbs = TermBuilder(bs)
            bc = [c for c in bs.calls() if c.decl.endswith("PackageBuilder::build")]
            if rep.check(len(bc) == 1, "R1", "build_and_sign|build-call", "build_and_sign calls build() once", "build_and_sign calls build() %d times" % len(bc), bs.span):
                recv = render(tbs.term(bc[0].args[0]))
                rep.check(recv == (bs.local_name(1) or "self"), "R1", "build_and_sign|builds-self", "build_and_sign builds the builder as configured by the caller",
                          "build_and_sign builds %s, not the builder it was called on: a setting is changed behind the caller's back (e.g. a source date that clamps file times)" % recv[:160], bc[0].loc())

    # times given as chrono / SystemTime values (changelog entries, source date) are stored as the instant they denote
    rep.rule("R5", "time inputs are converted exactly (C20's conversion tables)")
    rep.include("c20", f, fixture, cfg, tier, "R5", "conversion of a time given to the builder", floor=8)
    # "content digest": the digest rows and the algorithm tag that tells a reader how to interpret them are C08's provenance table
    rep.rule("R6", "file digest rows and their algorithm tag (C08.R2)")
    rep.include("c08", f, fixture, cfg, tier, "R6", "file digests recorded by the builder", only_rules={"R2"}, floor=10)

    # the FileOptions flag helpers add their flag to what was set before (`.is_ghost().is_config_noreplace()` keeps GHOST):
    # every write of `inner.flag` in a builder method goes through insert / |= (never a plain assignment)
    n_flag = 0
    for b in [x for x in f.body_list if "FileOptionsBuilder" in (x.impl_self or "") and x.kind != "closure" and not x.derived]:
        for bb in b.reachable():
            for st in b.stmts(bb):
                if st["k"] == "assign" and [p.get("n") for p in st["lhs"]["p"] if isinstance(p, dict) and "n" in p][-2:] == ["inner", "flag"] or \
                   (st["k"] == "assign" and [p.get("n") for p in st["lhs"]["p"] if isinstance(p, dict) and "n" in p][-1:] == ["flag"] and "FileOptions" in b.local_ty(st["lhs"]["l"])):
                    rep.finding("R3", "flag-helper|%s|overwrites" % fmt_key(b.path), "%s assigns the file flags instead of adding to them: flags set by earlier helper calls are lost" % b.path, "%s:%s" % (b.file, st.get("line")))
        for c in b.calls():
            if re.search(r"FileFlags>::insert$|FileFlags::insert$|<impl constants::FileFlags>::insert$", c.decl):
                n_flag += 1
    rep.floor("R3", "flag helpers that insert into the existing flags", n_flag, 5)
