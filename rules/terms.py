"""Provenance terms: a readable, comparable description of *what a value is made of*, built by
backward tracing through MIR (engine.Body.origins) and a small table of constructors.

Terms are nested tuples:
  ('arg', 'self.metadata.header')      a place rooted at a function argument
  ('const', '"gzip"')
  ('hex', t)                           hex::encode(t)
  ('hash', algo, [t1, t2, ...])        digest of the concatenation of t1, t2, ...
  ('buf', [w1, ...])                   a Vec/buffer and the writers that fill it, in order
  ('ser', t)                           Header::write(t, _)   (serialised header)
  ('call', path, [args])               any other call
  ('proj', t, proj)                    projection of a term
  ('agg', name, [ops])
  ('phi', [t...])                      several possible origins
"""
import re
from engine import op_place, proj_key, PASS_THROUGH

MAX_DEPTH = 14
import os
_KNOWN = None


def known_fns():
    global _KNOWN
    if _KNOWN is None:
        _KNOWN = set()
        try:
            with open(os.path.join(os.path.dirname(os.path.abspath(__file__)), "known_fns.txt")) as fh:
                for line in fh:
                    line = line.strip()
                    if line and not line.startswith("#"):
                        _KNOWN.add(line)
        except OSError:
            pass
    return _KNOWN


def subst_args(t, mapping):
    """Replace ('arg', 'name.rest') leaves of a callee term by the caller's terms."""
    if not isinstance(t, tuple):
        return t
    if t and t[0] == "arg":
        name = t[1]
        head = re.split(r"[.<\[]", name, 1)[0]
        if head in mapping:
            rest = name[len(head):]
            actual = mapping[head]
            if not rest:
                return actual
            if actual[0] == "arg":
                return ("arg", actual[1] + rest)
            # turn the textual rest back into projection keys
            projs = []
            for m in re.finditer(r"\.(\w+)|<(\w+)>|(\[[^\]]*\])", rest):
                if m.group(1) is not None:
                    projs.append("." + m.group(1))
                elif m.group(2) is not None:
                    projs.append("as " + m.group(2))
                else:
                    projs.append(m.group(3))
            return simplify_proj(actual, tuple(projs))
        return t
    out = []
    for x in t:
        if isinstance(x, tuple):
            out.append(subst_args(x, mapping))
        elif isinstance(x, list):
            out.append([subst_args(y, mapping) if isinstance(y, tuple) else y for y in x])
        else:
            out.append(x)
    return tuple(out)


def simplify_proj(t, projs):
    """Apply projections to a term, looking through aggregates and phi alternatives."""
    projs = tuple(p for p in projs if p != "*")
    if not projs:
        return t
    k = t[0]
    if k == "phi":
        alts = []
        for a in t[1]:
            r = simplify_proj(a, projs)
            if r is not None and r not in alts:
                alts.append(r)
        alts = [a for a in alts if a != ("infeasible",)]
        if not alts:
            return ("infeasible",)
        return alts[0] if len(alts) == 1 else ("phi", sorted(alts, key=repr))
    if k == "agg":
        name = t[1]
        p0 = projs[0]
        rest = projs[1:]
        variant = name.rsplit("::", 1)[-1]
        if p0.startswith("as "):
            if p0[3:] != variant:
                return ("infeasible",)
            return simplify_proj(t, rest) if not rest or not rest[0].startswith(".") else _field(t, rest)
        if p0.startswith("."):
            return _field(t, projs)
    if k == "call" and t[1] == "std::ops::FromResidual::from_residual" and projs[0] in ("as Ok", "as Some"):
        return ("infeasible",)
    if k == "proj":
        return ("proj", t[1], tuple(t[2]) + projs)
    return ("proj", t, projs)


def _field(t, projs):
    p0 = projs[0]
    rest = projs[1:]
    idx = p0[1:]
    ops = t[2]
    if idx.isdigit() and int(idx) < len(ops):
        return simplify_proj(ops[int(idx)], rest) if rest else ops[int(idx)]
    return ("proj", t, projs)


def algo_of(type_string):
    s = type_string or ""
    if "md5::Md5Core" in s:
        return "md5"
    if "sha1::Sha1Core" in s:
        return "sha1"
    for n in ("224", "256", "384", "512"):
        if "OidSha" + n in s:
            return "sha" + n
    if "Sha256VarCore" in s:
        return "sha256?"
    if "Sha512VarCore" in s:
        return "sha512?"
    return "?" + s[:40]


def arg_name(body, n, proj):
    base = body.local_name(n) or "_%d" % n
    s = base
    for p in proj:
        if p == "*":
            continue
        if p.startswith("."):
            s += p
        elif p.startswith("as "):
            s += "<" + p[3:] + ">"
        else:
            s += p
    return s


class TermBuilder:
    def __init__(self, body, extra_passthrough=None, closure_env=False):
        self.body = body
        self.pt = dict(PASS_THROUGH)
        if extra_passthrough:
            self.pt.update(extra_passthrough)
        self.memo = {}
        self.env = None         # for closures: capture index -> term in the parent body
        if closure_env and getattr(body, "kind", None) == "closure":
            self.env = self._closure_env()

    def _closure_env(self):
        """Terms (in the parent body) of the values this closure captured, by capture index."""
        b = self.body
        facts = getattr(b, "facts", None)
        parent_path = re.sub(r"::\{closure#\d+\}$", "", b.path)
        parent = facts.bodies.get(parent_path) if facts else None
        if parent is None:
            return None
        # the closure's parent was inlined into exactly one analysed body (a helper extracted from it): the captures and the
        # iterator are then read in that body's copy, where the helper's parameters are the caller's values
        hosts = [h for h, lst in getattr(facts, "inlined", {}).items() if parent_path in lst and h in facts.bodies]
        if len(hosts) == 1:
            hb = facts.bodies[hosts[0]]
            if any(st["k"] == "assign" and st["rv"]["r"] == "agg" and st["rv"].get("ak") == "closure" and st["rv"].get("closure") == b.path
                   for bb in hb.reachable() for st in hb.stmts(bb)):
                parent = hb
        ptb = TermBuilder(parent, closure_env=(getattr(parent, "kind", None) == "closure"))
        for bb in parent.reachable():
            for st in parent.stmts(bb):
                if st["k"] == "assign" and st["rv"]["r"] == "agg" and st["rv"].get("ak") == "closure" and st["rv"].get("closure") == b.path:
                    env = {i: ptb.term(o, 2) for i, o in enumerate(st["rv"]["ops"])}
                    # closure handed to an iterator adaptor: its item argument is an element of the iterator
                    for c in parent.calls():
                        mo = re.search(r"^std::(option::Option|result::Result)::<.*>::(map|and_then|filter|map_or|map_or_else|is_some_and|is_ok_and|inspect|map_err|or_else|unwrap_or_else)$", c.decl)
                        if mo and len(c.args) >= 2:
                            for lf in parent.origins(c.args[-1], passthrough={}):
                                if lf["kind"] == "agg" and lf["stmt"] is st:
                                    if mo.group(2) in ("map_err", "or_else", "unwrap_or_else") and mo.group(1).endswith("Result"):
                                        var = "as Err"
                                    elif mo.group(2) in ("or_else", "unwrap_or_else"):
                                        var = None      # Option::or_else / unwrap_or_else: the closure takes no payload
                                    else:
                                        var = "as Some" if mo.group(1).endswith("Option") else "as Ok"
                                    if var is not None:
                                        env["item"] = simplify_proj(ptb.term(c.args[0], 2), (var, ".0"))
                                        env["item_n"] = 2
                        # only adaptors that hand *every* element to the closure and keep the results apart: `map_while`,
                        # `take_while`, `skip_while`, `scan` .. stop or skip depending on earlier elements, so "the closure's item"
                        # is not "any element of the iterator" there and the parameter stays unbound
                        if re.fullmatch(r"std::iter::Iterator::(map|filter_map|flat_map|for_each|try_for_each|filter|inspect|fold|try_fold|rfold|try_rfold|any|all|find|find_map|"
                                        r"position|rposition|max_by_key|min_by_key|max_by|min_by|partition|is_sorted_by_key|sum|product|count|last|reduce)", c.decl) and len(c.args) >= 2:
                            for lf in parent.origins(c.args[-1], passthrough={}):
                                if lf["kind"] == "agg" and lf["stmt"] is st:
                                    env["item"] = ("call", "std::iter::Iterator::next", (ptb.term(c.args[0], 2),))
                                    # fold-style adaptors hand the accumulator first, the item second
                                    env["item_n"] = 3 if re.search(r"::(fold|try_fold|rfold|try_rfold)$", c.decl) else 2
                    return env
        return None

    # ------------------------------------------------------------------------------------
    def term(self, op, depth=0):
        if depth > MAX_DEPTH:
            return ("deep",)
        pl = op_place(op) if not ("l" in op and "p" in op) else op
        if pl is None:
            k = op.get("k")
            if k:
                return ("const", k.get("ev") or k.get("s"))
            return ("unknown",)
        key = (pl["l"], tuple(proj_key(p) for p in pl["p"]))
        if key in self.memo:
            return self.memo[key]
        self.memo[key] = ("cycle",)
        leaves = self.body.origins(pl, passthrough=self.pt)
        ts = []
        for lf in leaves:
            t = self.leaf_term(lf, depth)
            if t not in ts:
                ts.append(t)
        res = ts[0] if len(ts) == 1 else ("phi", sorted(ts, key=repr))
        self.memo[key] = res
        return res

    def leaf_term(self, lf, depth):
        k = lf["kind"]
        b = self.body
        if k == "arg":
            if self.env is not None and lf["n"] == 1:
                # `_1.N...`: the N-th captured value of the enclosing function
                pr = [p for p in lf["proj"] if p != "*"]
                if pr and pr[0].startswith(".") and pr[0][1:].isdigit() and int(pr[0][1:]) in self.env:
                    base = self.env[int(pr[0][1:])]
                    rest = tuple(pr[1:])
                    return simplify_proj(base, rest) if rest else base
            if self.env is not None and "item" in self.env and lf["n"] == self.env.get("item_n", 2):
                pr = tuple(p for p in lf["proj"] if p != "*")
                return simplify_proj(self.env["item"], pr) if pr else self.env["item"]
            return ("arg", arg_name(b, lf["n"], lf["proj"]))
        if k == "const":
            kk = lf["k"]
            if "fn" in kk:
                return ("fn", kk["fn"]["path"])
            return ("const", kk.get("ev") or kk.get("s"))
        if k == "call":
            t = self.call_term(lf["call"], depth)
            proj = tuple(p for p in lf["proj"] if p != "*")
            if proj and t[0] in ("phi", "agg"):
                return simplify_proj(t, proj)
            return ("proj", t, proj) if proj else t
        if k == "agg":
            rv = lf["stmt"]["rv"]
            name = rv.get("adt", rv["ak"]) + ("::" + rv["variant"] if "variant" in rv else "")
            t = ("agg", name, [self.term(o, depth + 1) for o in rv["ops"]])
            if rv.get("ak") == "closure":
                t = t + (rv.get("closure"),)      # t[3]: path of the closure body
            proj = tuple(p for p in lf["proj"] if p != "*")
            return ("proj", t, proj) if proj else t
        if k == "bin":
            rv = lf["stmt"]["rv"]
            return ("bin", rv["op"], self.term(rv["a"], depth + 1), self.term(rv["b"], depth + 1))
        if k == "un":
            rv = lf["stmt"]["rv"]
            return ("un", rv["op"], self.term(rv["a"], depth + 1))
        if k == "cast":
            rv = lf["stmt"]["rv"]
            return ("cast", rv["ty"], self.term(rv["o"], depth + 1))
        if k == "discr":
            return ("discr", self.term(lf["stmt"]["rv"]["p"], depth + 1))
        if k == "repeat":
            rv = lf["stmt"]["rv"]
            return ("repeat", self.term(rv["o"], depth + 1), rv["n"])
        return ("unknown", lf.get("why", k))

    # ------------------------------------------------------------------------------------
    def writers(self, local, before_bb=None):
        """Calls that receive `&mut local`, ordered by dominance (source order fallback)."""
        ws = self.body.mut_borrow_calls(local)
        ws = [(c, i) for (c, i) in ws if c.bb in self.body.reachable()]
        # order: a dominates b => a first
        def key(ci):
            c = ci[0]
            return (len(self.body.dominators().get(c.bb, ())), c.bb)
        ws.sort(key=key)
        return ws

    def call_term(self, c, depth):
        b = self.body
        d = c.decl
        if d == "hex::encode":
            return ("hex", self.term(c.args[0], depth + 1))
        if d == "digest::Digest::digest":
            return ("hash", algo_of(c.self_ty), [self.term(c.args[0], depth + 1)])
        if d == "digest::Digest::finalize":
            parts = self.hasher_updates(c.args[0], depth)
            return ("hash", algo_of(c.self_ty), parts)
        if d == "std::boxed::box_assume_init_into_vec_unsafe":
            elems = self.vec_macro_elements(c)
            if elems is not None:
                return ("vec", elems)
        if re.search(r"Vec::<.*>::(with_capacity|new)$", c.full) or d in ("std::vec::Vec::<T>::new", "std::vec::Vec::<T>::with_capacity"):
            if c.dest and not c.dest["p"]:
                ws = self.writers(c.dest["l"])
                return ("buf", [self.writer_term(w, i, depth) for (w, i) in ws])
            return ("buf", [])
        inl = self.inline_call(c, depth)
        if inl is not None:
            return inl
        if d in ("std::ops::Fn::call", "std::ops::FnMut::call_mut", "std::ops::FnOnce::call_once") and len(c.args) == 2 and depth <= 6:
            # a local closure called directly (`let get = |tag| hdr.get(tag); get(A)`): its return term with the arguments
            # and the captured values substituted
            facts = getattr(b, "facts", None)
            cls = [lf["stmt"]["rv"]["closure"] for lf in b.origins(c.args[0], passthrough={}) if lf["kind"] == "agg" and lf["stmt"]["rv"].get("ak") == "closure"]
            at = self.term(c.args[1], depth + 1)
            if facts is not None and len(cls) == 1 and cls[0] in facts.bodies and at[0] == "agg" and at[1] == "tuple":
                cb = facts.bodies[cls[0]]
                if len(cb.blocks) <= 60 and cb is not b:
                    sub = TermBuilder(cb, None, closure_env=True)
                    sub.pt = self.pt
                    ret = sub.term({"l": 0, "p": []}, depth + 1)
                    mapping = {}
                    for i, a in enumerate(at[2]):
                        mapping[cb.local_name(i + 2) or "_%d" % (i + 2)] = a
                    return subst_args(ret, mapping)
        return ("call", d, [self.term(a, depth + 1) for a in c.args])

    def inline_call(self, c, depth):
        """Calls to local functions that are not in rules/known_fns.txt (helpers introduced after the rules
        were written) are replaced by the callee's return term with the arguments substituted."""
        facts = getattr(self.body, "facts", None)
        if facts is None or depth > 6:
            return None
        path = c.rpath if (c.rpath and c.rlocal) else (c.decl if c.local and not c.trait else None)
        if path is None or path not in facts.bodies or path in known_fns():
            return None
        callee = facts.bodies[path]
        if len(callee.blocks) > 120 or callee is self.body:
            return None
        if getattr(callee, "kind", None) == "closure":
            return None       # a closure called directly: call_term spreads the argument tuple over its parameters
        sub = TermBuilder(callee, None)
        sub.pt = self.pt
        ret = sub.term({"l": 0, "p": []}, depth + 1)
        mapping = {}
        for i, a in enumerate(c.args):
            name = callee.local_name(i + 1) or "_%d" % (i + 1)
            mapping[name] = self.term(a, depth + 1)
        return subst_args(ret, mapping)

    def vec_macro_elements(self, c):
        """`vec![a, b]` lowers to Box::new_uninit + a store of `[a, b]` through the raw pointer +
        box_assume_init_into_vec_unsafe: recover the element terms."""
        b = self.body
        boxes = [lf["call"] for lf in b.origins(c.args[0], passthrough={}) if lf["kind"] == "call" and "new_uninit" in lf["call"].decl]
        if len(boxes) != 1 or not boxes[0].dest or boxes[0].dest["p"]:
            return None
        bl = boxes[0].dest["l"]
        ptrs = set()
        for (bb, idx, role, payload, pl) in b.uses(bl):
            if role == "cast" and payload.get("k") == "assign" and not payload["lhs"]["p"]:
                ptrs.add(payload["lhs"]["l"])
        elems = None
        for p in ptrs:
            for (bb, idx, kind, payload, lhs_proj) in b.defs(p):
                if kind == "assign" and lhs_proj and proj_key(lhs_proj[0]) == "*":
                    rv = payload["rv"]
                    if rv["r"] == "agg" and rv["ak"] == "array":
                        elems = [self.term(o, 1) for o in rv["ops"]]
        return elems

    def writer_term(self, w, argi, depth):
        if re.search(r"headers::header::Header::<.*>::write$", w.decl) or w.decl.endswith("::Header::<T>::write"):
            return ("ser", self.term(w.args[0], depth + 1))
        others = [self.term(a, depth + 1) for j, a in enumerate(w.args) if j != argi]
        return ("write", w.decl, others)

    def hasher_updates(self, hasher_op, depth):
        """Ordered list of terms fed to a hasher value before it is finalised."""
        b = self.body
        # find the local holding the hasher: trace through moves
        leaves = b.origins(hasher_op)
        parts = []
        for lf in leaves:
            if lf["kind"] == "call" and lf["call"].decl in ("digest::Digest::chain_update", "digest::Update::chain") and len(lf["call"].args) == 2 and depth < 12:
                # builder style: Hasher::new().chain_update(a).chain_update(b) - the receiver's updates, then this one
                cu = lf["call"]
                parts += self.hasher_updates(cu.args[0], depth + 1)
                parts.append(self.term(cu.args[1], depth + 1))
                continue
            if lf["kind"] == "call" and lf["call"].dest and not lf["call"].dest["p"]:
                ctor = lf["call"]
                hl = ctor.dest["l"]
                for (w, i) in self.writers(hl):
                    if w.decl in ("digest::Digest::update", "digest::Update::update") and i == 0:
                        parts.append(self.term(w.args[1], depth + 1))
                    else:
                        parts.append(("write", w.decl, []))
            else:
                parts.append(("unknown-hasher", lf["kind"]))
        return parts


def render(t):
    k = t[0]
    if k == "arg":
        return t[1]
    if k == "const":
        return str(t[1])
    if k == "hex":
        return "hex(%s)" % render(t[1])
    if k == "hash":
        return "%s(%s)" % (t[1], " ++ ".join(render(x) for x in t[2]))
    if k == "buf":
        return "buf[%s]" % ", ".join(render(x) for x in t[1])
    if k == "ser":
        return "ser(%s)" % render(t[1])
    if k == "vec":
        return "vec![%s]" % ", ".join(render(x) for x in t[1])
    if k == "call":
        return "%s(%s)" % (t[1].rsplit("::", 1)[-1] if False else t[1], ", ".join(render(x) for x in t[2]))
    if k == "proj":
        return "%s%s" % (render(t[1]), "".join("<%s>" % p[3:] if p.startswith("as ") else p for p in t[2]))
    if k == "agg":
        return "%s{%s}" % (t[1], ", ".join(render(x) for x in t[2]))
    if k == "phi":
        return "phi(%s)" % " | ".join(render(x) for x in t[1])
    if k == "write":
        return "write:%s(%s)" % (t[1], ", ".join(render(x) for x in t[2]))
    if k in ("bin",):
        return "%s(%s, %s)" % (t[1], render(t[2]), render(t[3]))
    if k in ("un", "cast"):
        return "%s(%s)" % (t[1], render(t[2]))
    if k == "fn":
        return "fn " + t[1]
    return str(t)


def strip_proj(t):
    while t[0] == "proj":
        t = t[1]
    return t
