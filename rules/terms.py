"""Provenance terms: a readable, comparable description of *what a value is made of*, built by
backward tracing through MIR (engine.Body.origins) and a small table of constructors.

Terms are nested tuples:
  ('arg', 'self.metadata.header')      a place rooted at a function argument
  ('const', '"gzip"')
  ('hex', t)                           hex::encode(t)
  ('hash', algo, [t1, t2, ...])        digest of the concatenation of t1, t2, ...
  ('buf', [w1, ...])                   a Vec/buffer and the writers that fill it, in order
  ('ser', t)                           Header::write(t, _)   (serialised header)
  ('call', path, [args])               any other call
  ('proj', t, proj)                    projection of a term
  ('agg', name, [ops])
  ('phi', [t...])                      several possible origins
"""
import re
from engine import op_place, proj_key, PASS_THROUGH

MAX_DEPTH = 14


def algo_of(type_string):
    s = type_string or ""
    if "md5::Md5Core" in s:
        return "md5"
    if "sha1::Sha1Core" in s:
        return "sha1"
    for n in ("224", "256", "384", "512"):
        if "OidSha" + n in s:
            return "sha" + n
    if "Sha256VarCore" in s:
        return "sha256?"
    if "Sha512VarCore" in s:
        return "sha512?"
    return "?" + s[:40]


def arg_name(body, n, proj):
    base = body.local_name(n) or "_%d" % n
    s = base
    for p in proj:
        if p == "*":
            continue
        if p.startswith("."):
            s += p
        elif p.startswith("as "):
            s += "<" + p[3:] + ">"
        else:
            s += p
    return s


class TermBuilder:
    def __init__(self, body, extra_passthrough=None):
        self.body = body
        self.pt = dict(PASS_THROUGH)
        if extra_passthrough:
            self.pt.update(extra_passthrough)
        self.memo = {}

    # ------------------------------------------------------------------------------------
    def term(self, op, depth=0):
        if depth > MAX_DEPTH:
            return ("deep",)
        pl = op_place(op) if not ("l" in op and "p" in op) else op
        if pl is None:
            k = op.get("k")
            if k:
                return ("const", k.get("ev") or k.get("s"))
            return ("unknown",)
        key = (pl["l"], tuple(proj_key(p) for p in pl["p"]))
        if key in self.memo:
            return self.memo[key]
        self.memo[key] = ("cycle",)
        leaves = self.body.origins(pl, passthrough=self.pt)
        ts = []
        for lf in leaves:
            t = self.leaf_term(lf, depth)
            if t not in ts:
                ts.append(t)
        res = ts[0] if len(ts) == 1 else ("phi", sorted(ts, key=repr))
        self.memo[key] = res
        return res

    def leaf_term(self, lf, depth):
        k = lf["kind"]
        b = self.body
        if k == "arg":
            return ("arg", arg_name(b, lf["n"], lf["proj"]))
        if k == "const":
            kk = lf["k"]
            if "fn" in kk:
                return ("fn", kk["fn"]["path"])
            return ("const", kk.get("ev") or kk.get("s"))
        if k == "call":
            t = self.call_term(lf["call"], depth)
            proj = tuple(p for p in lf["proj"] if p != "*")
            return ("proj", t, proj) if proj else t
        if k == "agg":
            rv = lf["stmt"]["rv"]
            name = rv.get("adt", rv["ak"]) + ("::" + rv["variant"] if "variant" in rv else "")
            t = ("agg", name, [self.term(o, depth + 1) for o in rv["ops"]])
            proj = tuple(p for p in lf["proj"] if p != "*")
            return ("proj", t, proj) if proj else t
        if k == "bin":
            rv = lf["stmt"]["rv"]
            return ("bin", rv["op"], self.term(rv["a"], depth + 1), self.term(rv["b"], depth + 1))
        if k == "un":
            rv = lf["stmt"]["rv"]
            return ("un", rv["op"], self.term(rv["a"], depth + 1))
        if k == "cast":
            rv = lf["stmt"]["rv"]
            return ("cast", rv["ty"], self.term(rv["o"], depth + 1))
        if k == "discr":
            return ("discr", self.term(lf["stmt"]["rv"]["p"], depth + 1))
        if k == "repeat":
            rv = lf["stmt"]["rv"]
            return ("repeat", self.term(rv["o"], depth + 1), rv["n"])
        return ("unknown", lf.get("why", k))

    # ------------------------------------------------------------------------------------
    def writers(self, local, before_bb=None):
        """Calls that receive `&mut local`, ordered by dominance (source order fallback)."""
        ws = self.body.mut_borrow_calls(local)
        ws = [(c, i) for (c, i) in ws if c.bb in self.body.reachable()]
        # order: a dominates b => a first
        def key(ci):
            c = ci[0]
            return (len(self.body.dominators().get(c.bb, ())), c.bb)
        ws.sort(key=key)
        return ws

    def call_term(self, c, depth):
        b = self.body
        d = c.decl
        if d == "hex::encode":
            return ("hex", self.term(c.args[0], depth + 1))
        if d == "digest::Digest::digest":
            return ("hash", algo_of(c.self_ty), [self.term(c.args[0], depth + 1)])
        if d == "digest::Digest::finalize":
            parts = self.hasher_updates(c.args[0], depth)
            return ("hash", algo_of(c.self_ty), parts)
        if d == "std::boxed::box_assume_init_into_vec_unsafe":
            elems = self.vec_macro_elements(c)
            if elems is not None:
                return ("vec", elems)
        if re.search(r"Vec::<.*>::(with_capacity|new)$", c.full) or d in ("std::vec::Vec::<T>::new", "std::vec::Vec::<T>::with_capacity"):
            if c.dest and not c.dest["p"]:
                ws = self.writers(c.dest["l"])
                return ("buf", [self.writer_term(w, i, depth) for (w, i) in ws])
            return ("buf", [])
        return ("call", d if not c.impl_self else c.full.split("::<")[0] if False else d, [self.term(a, depth + 1) for a in c.args])

    def vec_macro_elements(self, c):
        """`vec![a, b]` lowers to Box::new_uninit + a store of `[a, b]` through the raw pointer +
        box_assume_init_into_vec_unsafe: recover the element terms."""
        b = self.body
        boxes = [lf["call"] for lf in b.origins(c.args[0], passthrough={}) if lf["kind"] == "call" and "new_uninit" in lf["call"].decl]
        if len(boxes) != 1 or not boxes[0].dest or boxes[0].dest["p"]:
            return None
        bl = boxes[0].dest["l"]
        ptrs = set()
        for (bb, idx, role, payload, pl) in b.uses(bl):
            if role == "cast" and payload.get("k") == "assign" and not payload["lhs"]["p"]:
                ptrs.add(payload["lhs"]["l"])
        elems = None
        for p in ptrs:
            for (bb, idx, kind, payload, lhs_proj) in b.defs(p):
                if kind == "assign" and lhs_proj and proj_key(lhs_proj[0]) == "*":
                    rv = payload["rv"]
                    if rv["r"] == "agg" and rv["ak"] == "array":
                        elems = [self.term(o, 1) for o in rv["ops"]]
        return elems

    def writer_term(self, w, argi, depth):
        if re.search(r"headers::header::Header::<.*>::write$", w.decl) or w.decl.endswith("::Header::<T>::write"):
            return ("ser", self.term(w.args[0], depth + 1))
        others = [self.term(a, depth + 1) for j, a in enumerate(w.args) if j != argi]
        return ("write", w.decl, others)

    def hasher_updates(self, hasher_op, depth):
        """Ordered list of terms fed to a hasher value before it is finalised."""
        b = self.body
        # find the local holding the hasher: trace through moves
        leaves = b.origins(hasher_op)
        parts = []
        for lf in leaves:
            if lf["kind"] == "call" and lf["call"].dest and not lf["call"].dest["p"]:
                ctor = lf["call"]
                hl = ctor.dest["l"]
                for (w, i) in self.writers(hl):
                    if w.decl in ("digest::Digest::update", "digest::Update::update") and i == 0:
                        parts.append(self.term(w.args[1], depth + 1))
                    else:
                        parts.append(("write", w.decl, []))
            else:
                parts.append(("unknown-hasher", lf["kind"]))
        return parts


def render(t):
    k = t[0]
    if k == "arg":
        return t[1]
    if k == "const":
        return str(t[1])
    if k == "hex":
        return "hex(%s)" % render(t[1])
    if k == "hash":
        return "%s(%s)" % (t[1], " ++ ".join(render(x) for x in t[2]))
    if k == "buf":
        return "buf[%s]" % ", ".join(render(x) for x in t[1])
    if k == "ser":
        return "ser(%s)" % render(t[1])
    if k == "vec":
        return "vec![%s]" % ", ".join(render(x) for x in t[1])
    if k == "call":
        return "%s(%s)" % (t[1].rsplit("::", 1)[-1] if False else t[1], ", ".join(render(x) for x in t[2]))
    if k == "proj":
        return "%s%s" % (render(t[1]), "".join("<%s>" % p[3:] if p.startswith("as ") else p for p in t[2]))
    if k == "agg":
        return "%s{%s}" % (t[1], ", ".join(render(x) for x in t[2]))
    if k == "phi":
        return "phi(%s)" % " | ".join(render(x) for x in t[1])
    if k == "write":
        return "write:%s(%s)" % (t[1], ", ".join(render(x) for x in t[2]))
    if k in ("bin",):
        return "%s(%s, %s)" % (t[1], render(t[2]), render(t[3]))
    if k in ("un", "cast"):
        return "%s(%s)" % (t[1], render(t[2]))
    if k == "fn":
        return "fn " + t[1]
    return str(t)


def strip_proj(t):
    while t[0] == "proj":
        t = t[1]
    return t
