"""Wire sequences: what a parser consumes and what a writer emits, in order, with static widths."""
import re
from engine import op_place, proj_key, const_int
from terms import TermBuilder, render

NOM_WIDTH = {"be_u8": 1, "be_i8": 1, "be_u16": 2, "be_i16": 2, "be_u32": 4, "be_i32": 4, "be_u64": 8, "be_i64": 8,
             "le_u8": 1, "le_u16": 2, "le_u32": 4, "le_u64": 8}


def _dom_order(body, calls):
    return sorted(calls, key=lambda c: (len(body.dominators().get(c.bb, ())), c.bb))


def consumption(body):
    """[(width, decoder, Call)] for nom decoders applied in a `let (rest, x) = dec(input)?` chain."""
    out = []
    for c in body.calls():
        m = re.match(r"^nom::number::complete::(\w+)$", c.decl)
        if m and m.group(1) in NOM_WIDTH:
            out.append((NOM_WIDTH[m.group(1)], m.group(1), c))
            continue
        if c.decl in ("std::ops::FnMut::call_mut", "std::ops::FnOnce::call_once", "std::ops::Fn::call") and c.self_ty and "nom::bytes::complete::take<" in c.self_ty:
            w = None
            for lf in body.origins(c.args[0]):
                if lf["kind"] == "call" and lf["call"].decl == "nom::bytes::complete::take":
                    w = const_int(lf["call"].args[0])
            out.append((w if w is not None else "var", "take", c))
    order = {id(c): i for i, c in enumerate(_dom_order(body, [x[2] for x in out]))}
    out.sort(key=lambda x: order[id(x[2])])
    return out


def consumption_is_chained(body, seq):
    """Each decoder reads where the previous one stopped (input = previous `rest`), the first reads the argument."""
    tb = TermBuilder(body)
    prev = None
    for (w, d, c) in seq:
        arg = c.args[0] if d != "take" else None
        if d == "take":
            # call_mut(&mut closure, (input,))
            t = render(tb.term(c.args[1]))
        else:
            t = render(tb.term(arg))
        if prev is None:
            ok = bool(re.match(r"^(tuple\{)?\w+\}?$", t))
        else:
            ok = prev in t and "<Ok>.0.0" in t
        if not ok:
            return False, "decoder %s at line %s reads %s" % (d, c.line, t[:120])
        prev = ("nom::number::complete::%s" % d) if d != "take" else "call_mut"
    return True, "chained"


def buffer_width(body, op):
    """Static byte width of a `&[u8]` argument built from an array reference, else None."""
    pl = op_place(op)
    if pl is None:
        k = op.get("k", {})
        m = re.match(r"^&\[u8; (\d+)\]$", k.get("ty", ""))
        return int(m.group(1)) if m else None
    seen = set()
    cur = pl
    for _ in range(16):
        if cur["p"]:
            # the payload of an Option built from one value (`Some(x)` of an unrolled `for x in [..]`): that value
            pk = [proj_key(p) for p in cur["p"]]
            ds0 = body.defs(cur["l"])
            if pk == ["as Some", ".0"] and len(ds0) == 1 and ds0[0][2] == "assign" and ds0[0][3]["rv"]["r"] == "agg" and ds0[0][3]["rv"].get("variant") == "Some" \
                    and ds0[0][3]["rv"]["ops"] and op_place(ds0[0][3]["rv"]["ops"][0]) is not None:
                cur = op_place(ds0[0][3]["rv"]["ops"][0])
                continue
            break
        l = cur["l"]
        if l in seen:
            break
        seen.add(l)
        ty = body.local_ty(l)
        m = re.match(r"^&(mut )?\[u8; (\d+)\]$", ty)
        if m:
            return int(m.group(2))
        ds = body.defs(l)
        if len(ds) != 1 or ds[0][2] != "assign":
            break
        rv = ds[0][3]["rv"]
        if rv["r"] in ("use", "cast") and op_place(rv["o"]) is not None:
            cur = op_place(rv["o"])
            continue
        if rv["r"] == "ref":
            pp = rv["p"]
            # &*x  or &local
            if [proj_key(p) for p in pp["p"]] in ([], ["*"]):
                if not pp["p"]:
                    ty2 = body.local_ty(pp["l"])
                    m = re.match(r"^\[u8; (\d+)\]$", ty2)
                    if m:
                        return int(m.group(1))
                cur = {"l": pp["l"], "p": []}
                continue
            # &(*self).field : use the field type from the ADT table
            fld = [p for p in pp["p"] if isinstance(p, dict) and "n" in p]
            if fld:
                return ("field", fld[-1]["n"])
        break
    return None


def _const_of(body, op):
    v = const_int(op)
    if v is not None:
        return v
    for lf in body.origins(op, passthrough={}):
        if lf["kind"] == "const" and "bits" in lf["k"]:
            return int(lf["k"]["bits"])
    return None


def assembled_pieces(body, tb, op):
    """A record assembled in a zeroed stack array and written with one write_all:
         let mut raw = [0u8; N]; raw[a..b].copy_from_slice(&x); raw[i] = y; out.write_all(&raw)
    -> [(width, rendered term)] covering 0..N in order (untouched ranges are zero bytes), or None when `op` is not such a buffer
    or is modified in any other way."""
    arr = None
    cur = op_place(op)
    for _ in range(10):
        if cur is None or cur["p"]:
            return None
        ty = body.local_ty(cur["l"])
        if re.match(r"^\[u8; \d+\]$", ty):
            arr = cur["l"]
            break
        ds = [d for d in body.defs(cur["l"]) if not d[4]]
        if len(ds) != 1 or ds[0][2] != "assign":
            return None
        rv = ds[0][3]["rv"]
        if rv["r"] in ("use", "cast") and op_place(rv["o"]) is not None:
            cur = op_place(rv["o"])
        elif rv["r"] == "ref" and [proj_key(p) for p in rv["p"]["p"]] in ([], ["*"]):
            cur = {"l": rv["p"]["l"], "p": []}
        else:
            return None
    if arr is None or 1 <= arr <= body.argc:
        return None
    whole = [d for d in body.defs(arr) if not d[4]]
    if len(whole) != 1 or whole[0][2] != "assign" or whole[0][3]["rv"]["r"] != "repeat" or const_int(whole[0][3]["rv"]["o"]) != 0:
        return None
    try:
        n = int(str(whole[0][3]["rv"]["n"]).split("_")[0])
    except ValueError:
        return None
    pieces = []
    touched = 0
    for (c, _i) in body.mut_borrow_calls(arr):
        if not re.search(r"ops::IndexMut::index_mut$", c.decl):
            return None
        touched += 1
        lo, hi = None, None
        for lf in body.origins(c.args[1], passthrough={}):
            if lf["kind"] == "agg":
                rv = lf["stmt"]["rv"]
                adt = rv.get("adt", "")
                vals = dict(zip(rv.get("fields", []), rv["ops"]))
                if adt.endswith("ops::Range"):
                    lo, hi = _const_of(body, vals["start"]), _const_of(body, vals["end"])
                elif adt.endswith("ops::RangeTo"):
                    lo, hi = 0, _const_of(body, vals["end"])
                elif adt.endswith("ops::RangeFrom"):
                    lo, hi = _const_of(body, vals["start"]), n
                elif adt.endswith("ops::RangeFull"):
                    lo, hi = 0, n
            elif lf["kind"] == "const" and "RangeFull" in lf["k"].get("ty", ""):
                lo, hi = 0, n
        if lo is None or hi is None or not (0 <= lo < hi <= n):
            return None
        users = [body.call_at(u[0]) for u in body.uses(c.dest["l"]) if isinstance(u[2], tuple)] if c.dest and not c.dest["p"] else []
        # the sub-slice may be reborrowed before it reaches copy_from_slice
        cfs = [x for x in body.calls() if re.search(r"<impl \[T\]>::(copy_from_slice|clone_from_slice)$", x.decl) and
               any(l2["kind"] == "call" and l2["call"] is c for l2 in body.origins(x.args[0], passthrough={}))]
        if len(cfs) != 1:
            return None
        pieces.append((lo, hi, render(tb.term(cfs[0].args[1]))))
    # direct element stores raw[i] = v
    for (bb, idx, kind, payload, lhs_proj) in body.defs(arr):
        if kind != "assign" or not lhs_proj:
            continue
        pr = payload["lhs"]["p"]
        if len(pr) != 1 or not isinstance(pr[0], dict):
            return None
        if "i" in pr[0]:
            i = _const_of(body, {"c": {"l": pr[0]["i"], "p": []}})
        elif "ci" in pr[0] and not pr[0].get("fe"):
            i = pr[0]["ci"]
        else:
            return None
        if i is None or payload["rv"]["r"] != "use":
            return None
        pieces.append((i, i + 1, render(tb.term(payload["rv"]["o"]))))
    pieces.sort()
    out = []
    pos = 0
    for (lo, hi, t) in pieces:
        if lo < pos:
            return None         # overlapping stores: order-dependent, not handled
        if lo > pos:
            out.append((lo - pos, str(("repeat", ("const", "0_u8"), str(lo - pos)))))
        out.append((hi - lo, t))
        pos = hi
    if pos < n:
        out.append((n - pos, str(("repeat", ("const", "0_u8"), str(n - pos)))))
    return out if pieces else None


def emission(body, facts=None):
    """[(width|'var', term, Call)] for write_all calls, in dominance order."""
    tb = TermBuilder(body)
    out = []
    for c in body.calls():
        if c.decl != "std::io::Write::write_all":
            continue
        asm = assembled_pieces(body, tb, c.args[1])
        if asm is not None:
            for (w_, t_) in asm:
                out.append((w_, t_, c))
            continue
        w = buffer_width(body, c.args[1])
        t = render(tb.term(c.args[1]))
        if isinstance(w, tuple) and facts is not None:
            # field of self: look the array length up in the ADT definition
            w2 = None
            for a in facts.adts.values():
                for v in a["variants"]:
                    for fl in v["fields"]:
                        if fl["name"] == w[1] and a["path"].rsplit("::", 1)[-1] in (body.impl_self or ""):
                            m = re.match(r"^\[u8; (\d+)\]$", fl["ty"])
                            if m:
                                w2 = int(m.group(1))
            w = w2 if w2 is not None else "var"
        elif isinstance(w, tuple) or w is None:
            w = "var"
        out.append((w, t, c))
    order = {id(c): i for i, c in enumerate(_dom_order(body, [x[2] for x in out]))}
    out.sort(key=lambda x: order[id(x[2])])
    return out
