"""Panic / abort / allocation site audit (C04, C12.R4, C15.R5, C17, C19.R6).

Every panic-capable or allocation construct of a set of bodies is enumerated (rules/panics.py) and
must be discharged by one of the *sound local arguments* below, or by a checked allow-list entry;
anything else is a finding.

Automatic discharges
  D1 interval   : an interval analysis over the MIR operands (constants, integer types, widening
                  casts, +,-,*,/,%,min,max, lengths, refined by dominating comparison guards)
                  shows the arithmetic cannot overflow / the divisor is non-zero / the index is
                  in range / the allocation is bounded by a small constant or by an in-memory length
  D2 index      : RangeFull; index = min(len(base), ..); loop variable of 0..len(base);
                  slices produced by nom's take(N) have length N
  D3 infeasible : the predicate-abstraction explorer (rules/pathsens.py) reaches no abstract state
                  at the site's block (e.g. `unreachable!()` after exhaustive `?`s)
"""
import re
from engine import op_place, proj_key, const_int, const_signed, place_key
from panics import enumerate_sites
from common import switch_info, fmt_key
from pathsens import PathExplorer

INT_RX = re.compile(r"^(u|i)(8|16|32|64|128|size)$")
BIG = 1 << 200
ALLOC_CONST_LIMIT = 1 << 20      # a constant-bounded allocation up to 1 MiB is "not out of proportion"


def ty_range(ty):
    m = INT_RX.match(ty or "")
    if not m:
        return None
    w = 64 if m.group(2) == "size" else int(m.group(2))
    if m.group(1) == "u":
        return (0, (1 << w) - 1)
    return (-(1 << (w - 1)), (1 << (w - 1)) - 1)


class Ival:
    """Closed integer interval plus 'len' flag (value is bounded by the length of an in-memory object)."""
    __slots__ = ("lo", "hi", "len")

    def __init__(self, lo, hi, len_=False):
        self.lo, self.hi, self.len = lo, hi, len_

    def __repr__(self):
        return "[%s, %s]%s" % (self.lo if self.lo > -BIG else "-inf", self.hi if self.hi < BIG else "+inf", "len" if self.len else "")


LEN_MAX = (1 << 63) - 1


class Intervals:
    def __init__(self, body):
        self.body = body
        self.depth = 0

    # -- public -------------------------------------------------------------------------
    def of_operand(self, op, at_bb, seen=None):
        if seen is None:
            seen = set()
        if "k" in op:
            v = const_signed(op)
            if v is not None:
                return Ival(v, v)
            return None
        pl = op_place(op)
        return self.of_place(pl, at_bb, seen)

    def of_place(self, pl, at_bb, seen):
        b = self.body
        base = self.eval_place(pl, at_bb, seen)
        tr = self.place_ty_range(pl)
        if base is None:
            if tr is None:
                g = self.guard_bounds(pl, at_bb)
                return g
            base = Ival(tr[0], tr[1])
        elif tr is not None:
            base = Ival(max(base.lo, tr[0]), min(base.hi, tr[1]), base.len)
        # refine with dominating guards on the same value
        g = self.guard_bounds(pl, at_bb)
        if g is not None:
            base = Ival(max(base.lo, g.lo), min(base.hi, g.hi), base.len or g.len)
        return base

    def place_ty_range(self, pl):
        b = self.body
        if not pl["p"]:
            return ty_range(b.local_ty(pl["l"]))
        return None

    # -- evaluation -----------------------------------------------------------------------
    def eval_place(self, pl, at_bb, seen):
        b = self.body
        key = place_key(pl)
        if key in seen or len(seen) > 60:
            return None
        seen = seen | {key}
        l = pl["l"]
        proj = [proj_key(p) for p in pl["p"]]
        ds = b.defs(l)
        # the value parameter of a closure handed to Option::map / map_or / and_then ... on the result of position()/rposition():
        # an index into an in-memory sequence
        if not proj and getattr(b, "kind", None) == "closure" and l == 2 and not ds:
            facts = getattr(b, "facts", None)
            parent = facts.bodies.get(re.sub(r"::\{closure#\d+\}$", "", b.path)) if facts else None
            if parent is not None:
                for c in parent.calls():
                    if re.search(r"std::option::Option::<T>::(map|map_or|map_or_else|and_then|filter|is_some_and|inspect)$", c.decl) and c.args:
                        uses_me = any(lf["kind"] == "agg" and lf["stmt"]["rv"].get("closure") == b.path for a in c.args[1:] for lf in parent.origins(a, passthrough={}))
                        if uses_me and any(lf["kind"] == "call" and re.search(r"Iterator::(position|rposition)$", lf["call"].decl) for lf in parent.origins(c.args[0], passthrough={})):
                            return Ival(0, LEN_MAX - 1, True)
        if proj == ["as Some", ".0"]:
            whole = [d for d in ds if not d[4]]
            if len(whole) == 1 and whole[0][2] == "call":
                c = b.call_at(whole[0][0])
                if re.search(r"^std::iter::(Iterator::position|Iterator::rposition|DoubleEndedIterator::rposition|ExactSizeIterator::rposition)$", c.decl):
                    return Ival(0, LEN_MAX - 1, True)       # an index into an in-memory sequence
                if c.decl == "std::iter::Iterator::next":
                    for l2 in b.origins(c.args[0]):
                        if l2["kind"] == "agg" and l2["stmt"]["rv"].get("adt", "") == "std::ops::Range":
                            rv = l2["stmt"]["rv"]
                            st = self.of_operand(rv["ops"][0], l2["bb"], seen)
                            en = self.of_operand(rv["ops"][1], l2["bb"], seen)
                            if st is not None and en is not None:
                                return Ival(st.lo, en.hi - 1, en.len)
            return None
        if proj and not (len(proj) == 1 and proj[0] in (".0",)):
            return None  # field of a struct / deref: only the type range is known
        whole = [d for d in ds if not d[4]]
        if not whole or len(whole) > 6 or (1 <= l <= b.argc) or len(whole) != len(ds):
            return None
        if len(whole) > 1:
            # assigned on several paths (match arms, if / else): the hull of the alternatives
            lo, hi, ln = BIG, -BIG, True
            for d_ in whole:
                v_ = self._eval_def(d_, proj, at_bb, seen)
                if v_ is None:
                    return None
                lo, hi, ln = min(lo, v_.lo), max(hi, v_.hi), ln and v_.len
            return Ival(lo, hi, ln)
        return self._eval_def(whole[0], proj, at_bb, seen)

    def _eval_def(self, d_, proj, at_bb, seen):
        b = self.body
        (bb, idx, kind, payload, lhs_proj) = d_
        if kind == "call":
            return self.eval_call(b.call_at(bb), proj, at_bb, seen)
        rv = payload["rv"]
        r = rv["r"]
        if proj == [".0"]:
            # (value, overflow flag) tuple of a checked operation
            if r == "bin" and rv["op"].endswith("WithOverflow"):
                return self.arith(rv["op"].replace("WithOverflow", ""), rv["a"], rv["b"], bb, seen)
            return None
        if r == "use":
            return self.of_operand(rv["o"], bb, seen)
        if r == "cast" and rv["ck"] == "IntToInt":
            src = self.of_operand(rv["o"], bb, seen)
            tr = ty_range(rv["ty"])
            if src is None or tr is None:
                return None
            if src.lo >= tr[0] and src.hi <= tr[1]:
                return src
            return Ival(tr[0], tr[1], False)
        if r == "bin":
            return self.arith(rv["op"], rv["a"], rv["b"], bb, seen)
        if r == "un" and rv["op"] == "PtrMetadata":
            n = self.known_len(rv["a"], bb)
            if n is not None:
                return Ival(n, n, True)
            return Ival(0, LEN_MAX, True)
        return None

    def arith(self, op, a, b_, at_bb, seen):
        x = self.of_operand(a, at_bb, seen)
        y = self.of_operand(b_, at_bb, seen)
        if x is None or y is None:
            return None
        op = op.replace("Unchecked", "")
        if op == "Add":
            # an in-memory length plus a small constant is still "about the size of an in-memory object"
            small = lambda v: 0 <= v.lo and v.hi <= 4096
            return Ival(x.lo + y.lo, x.hi + y.hi, (x.len and small(y)) or (y.len and small(x)))
        if op == "Sub":
            return Ival(x.lo - y.hi, x.hi - y.lo, x.len and y.lo >= 0)
        if op == "Mul":
            c = [x.lo * y.lo, x.lo * y.hi, x.hi * y.lo, x.hi * y.hi]
            return Ival(min(c), max(c))
        if op == "Rem":
            if y.lo > 0 and x.lo >= 0:
                return Ival(0, min(x.hi, y.hi - 1), x.len)
            return None
        if op == "Div":
            if y.lo > 0 and x.lo >= 0:
                return Ival(x.lo // y.hi, x.hi // y.lo, x.len)
            return None
        if op == "BitAnd":
            if x.lo >= 0 and y.lo >= 0:
                return Ival(0, min(x.hi, y.hi), x.len or y.len)
            return None
        if op == "Shr":
            if x.lo >= 0 and y.lo >= 0:
                return Ival(0, x.hi >> y.lo, x.len)
            return None
        return None

    def eval_call(self, c, proj, at_bb, seen):
        d = c.decl
        r = c.rpath or ""
        if proj:
            return None
        if re.search(r"(Vec::<T, A>::len|<impl \[T\]>::len|<impl str>::len|String::len|VecDeque::<T, A>::len|BTreeMap::<K, V, A>::len|BTreeSet::<T, A>::len)$", d):
            n = self.known_len(c.args[0], c.bb)
            if n is not None:
                return Ival(n, n, True)
            return Ival(0, LEN_MAX, True)
        if d in ("std::cmp::Ord::min", "std::cmp::min"):
            x = self.of_operand(c.args[0], c.bb, seen)
            y = self.of_operand(c.args[1], c.bb, seen)
            if x and y:
                return Ival(min(x.lo, y.lo), min(x.hi, y.hi), x.len or y.len)
            if x or y:
                z = x or y
                return Ival(-BIG, z.hi, z.len)
            return None
        if d in ("std::cmp::Ord::max", "std::cmp::max"):
            x = self.of_operand(c.args[0], c.bb, seen)
            y = self.of_operand(c.args[1], c.bb, seen)
            if x and y:
                return Ival(max(x.lo, y.lo), max(x.hi, y.hi), x.len and y.len)
            if x or y:
                z = x or y
                return Ival(z.lo, BIG)
            return None
        if d in ("std::convert::From::from", "std::convert::Into::into") and len(c.args) == 1:
            return self.of_operand(c.args[0], c.bb, seen)
        if d == "std::mem::size_of":
            return Ival(0, 1 << 16)
        # small local callee: interval of its return value (arguments unconstrained)
        tgt = None
        facts = self.body.facts
        if c.rpath and c.rlocal and c.rpath in facts.bodies:
            tgt = facts.bodies[c.rpath]
        elif c.local and c.decl in facts.bodies and not c.trait:
            tgt = facts.bodies[c.decl]
        if tgt is not None and len(tgt.blocks) <= 40 and self.depth < 3 and ty_range(tgt.local_ty(0)):
            sub = Intervals(tgt)
            sub.depth = self.depth + 1
            lo, hi, ln = BIG, -BIG, True
            rbs = tgt.return_blocks()
            if not rbs:
                return None
            for rb in rbs:
                v = sub.of_place({"l": 0, "p": []}, rb, set())
                if v is None:
                    return None
                lo, hi, ln = min(lo, v.lo), max(hi, v.hi), ln and v.len
            return Ival(lo, hi, ln)
        return None

    def known_len(self, op, at_bb):
        """Length of a slice value when statically known: arrays, nom take(N) results."""
        b = self.body
        pl = op_place(op)
        if pl is None:
            return None
        ty = b.local_ty(pl["l"]) if not pl["p"] else None
        if ty:
            m = re.match(r"^&?(mut )?\[.*; (\d+)\]$", ty)
            if m:
                return int(m.group(2))
        # a reference to a fixed-size array field: &self.magic
        if not pl["p"]:
            ds = [d for d in b.defs(pl["l"]) if not d[4]]
            for _ in range(4):
                if len(ds) == 1 and ds[0][2] == "assign" and ds[0][3]["rv"]["r"] in ("use", "cast") and op_place(ds[0][3]["rv"]["o"]) is not None and not op_place(ds[0][3]["rv"]["o"])["p"]:
                    src_l = op_place(ds[0][3]["rv"]["o"])["l"]
                    m = re.match(r"^&?(mut )?\[.*; (\d+)\]$", b.local_ty(src_l))
                    if m:
                        return int(m.group(2))
                    ds = [d for d in b.defs(src_l) if not d[4]]
                else:
                    break
            if len(ds) == 1 and ds[0][2] == "assign" and ds[0][3]["rv"]["r"] == "ref":
                rp = ds[0][3]["rv"]["p"]
                flds = [p for p in rp["p"] if isinstance(p, dict) and "n" in p]
                facts = getattr(b, "facts", None)
                if flds and facts is not None and isinstance(rp["p"][-1], dict) and "n" in rp["p"][-1]:
                    base_ty = b.local_ty(rp["l"])
                    for a in facts.adts.values():
                        short = a["path"].rsplit("::", 1)[-1]
                        if re.search(r"(^|::|&|&mut )%s(<|$)" % re.escape(short), base_ty) and len(flds) == 1:
                            for v in a["variants"]:
                                for fl in v["fields"]:
                                    if fl["name"] == flds[-1]["n"]:
                                        m = re.match(r"^\[.*; (\d+)\]$", fl["ty"])
                                        if m:
                                            return int(m.group(1))
        # a constant sub-range of a fixed-size array: arr[a..b], arr[..b], arr[a..]
        for lf in b.origins(pl, passthrough={}):
            if lf["kind"] == "call" and re.search(r"ops::Index(Mut)?::index(_mut)?$", lf["call"].decl) and not [p for p in lf["proj"] if p != "*"] and len(lf["call"].args) == 2:
                ic = lf["call"]
                base_n = self.known_len(ic.args[0], ic.bb) if at_bb is not None else None
                for l2 in b.origins(ic.args[1], passthrough={}):
                    if l2["kind"] == "agg":
                        rv = l2["stmt"]["rv"]
                        vals = dict(zip(rv.get("fields", []), rv["ops"]))
                        adt = rv.get("adt", "")
                        lo = const_int(vals["start"]) if "start" in vals else 0
                        hi = const_int(vals["end"]) if "end" in vals else base_n
                        if adt.startswith("std::ops::Range") and lo is not None and hi is not None and 0 <= lo <= hi and (base_n is None or hi <= base_n) and "Inclusive" not in adt:
                            return hi - lo
        for lf in b.origins(pl):
            if lf["kind"] == "call":
                c = lf["call"]
                # a call that returns a fixed-size array (to_be_bytes ...), viewed as a slice
                if c.dest is not None and not c.dest["p"] and not [p for p in lf["proj"] if p != "*"]:
                    m = re.match(r"^\[.*; (\d+)\]$", b.local_ty(c.dest["l"]))
                    if m:
                        return int(m.group(1))
                if c.decl in ("std::ops::FnMut::call_mut", "std::ops::FnOnce::call_once", "std::ops::Fn::call") and c.self_ty and "nom::bytes::complete::take<" in c.self_ty:
                    # the matched slice is field .1 of the Ok payload
                    if tuple(p for p in lf["proj"] if p != "*")[-1:] == (".1",):
                        for l2 in b.origins(c.args[0]):
                            if l2["kind"] == "call" and l2["call"].decl == "nom::bytes::complete::take":
                                n = const_int(l2["call"].args[0])
                                if n is not None:
                                    return n
            if lf["kind"] == "const":
                ty = lf["k"].get("ty", "")
                m = re.match(r"^&?\[.*; (\d+)\]$", ty)
                if m:
                    return int(m.group(1))
            if lf["kind"] == "repeat":
                try:
                    return int(lf["stmt"]["rv"]["n"].split("_")[0])
                except Exception:
                    pass
        return None

    # -- guards -----------------------------------------------------------------------------
    def root(self, pl):
        """Resolve a place through plain copies to (root place key, rendered)."""
        b = self.body
        cur = pl
        for _ in range(10):
            if cur["p"]:
                # (*_k).f where _k is a plain reborrow / copy of another reference (e.g. the receiver of a spliced-in helper):
                # the same place as (*_j).f
                if cur["p"][0] == "*":
                    dsr = [d for d in b.defs(cur["l"]) if not d[4]]
                    if len(dsr) == 1 and dsr[0][2] == "assign" and not (1 <= cur["l"] <= b.argc):
                        rvr = dsr[0][3]["rv"]
                        if rvr["r"] == "ref" and rvr["p"]["p"] == ["*"]:
                            cur = {"l": rvr["p"]["l"], "p": cur["p"]}
                            continue
                        if rvr["r"] == "use" and op_place(rvr["o"]) is not None and not op_place(rvr["o"])["p"]:
                            cur = {"l": op_place(rvr["o"])["l"], "p": cur["p"]}
                            continue
                return place_key(cur)
            l = cur["l"]
            ds = b.defs(l)
            if len(ds) != 1 or ds[0][2] != "assign" or ds[0][4] or (1 <= l <= b.argc):
                return place_key(cur)
            rv = ds[0][3]["rv"]
            if rv["r"] == "use" and op_place(rv["o"]) is not None:
                cur = op_place(rv["o"])
                continue
            if rv["r"] == "cast" and rv["ck"] == "IntToInt" and op_place(rv["o"]) is not None:
                # widening casts keep the value
                src = op_place(rv["o"])
                st, dt = (b.local_ty(src["l"]) if not src["p"] else None), rv["ty"]
                rs, rd = ty_range(st) if st else None, ty_range(dt)
                if rs and rd and rs[0] >= rd[0] and rs[1] <= rd[1]:
                    cur = src
                    continue
            return place_key(cur)
        return place_key(cur)

    def guard_bounds(self, pl, at_bb):
        b = self.body
        me = self.root(pl)
        lo, hi, ln = -BIG, BIG, False
        found = False
        for sb in b.reachable():
            info = switch_info(b, sb)
            if not info or info["kind"] != "cmp":
                continue
            rv = info["stmt"]["rv"]
            op = rv["op"]
            if op not in ("Lt", "Le", "Gt", "Ge", "Eq", "Ne"):
                continue
            for (edge_t, truth) in ((info["true"], True), (info["false"], False)):
                if edge_t is None or not (b.dominates(edge_t, at_bb) and b.pred(edge_t) == [sb]):
                    continue
                pa, pb = op_place(rv["a"]), op_place(rv["b"])
                if pa is not None and self.root(pa) == me and not self.written_between(me, sb, at_bb):
                    other = self.of_operand(rv["b"], sb, set())
                    rel = op
                elif pb is not None and self.root(pb) == me and not self.written_between(me, sb, at_bb):
                    other = self.of_operand(rv["a"], sb, set())
                    rel = {"Lt": "Gt", "Le": "Ge", "Gt": "Lt", "Ge": "Le", "Eq": "Eq", "Ne": "Ne"}[op]
                else:
                    continue
                if other is None:
                    continue
                if not truth:
                    rel = {"Lt": "Ge", "Le": "Gt", "Gt": "Le", "Ge": "Lt", "Eq": "Ne", "Ne": "Eq"}[rel]
                # me REL other
                if rel == "Lt":
                    hi = min(hi, other.hi - 1)
                    ln = ln or other.len
                    found = True
                elif rel == "Le":
                    hi = min(hi, other.hi)
                    ln = ln or other.len
                    found = True
                elif rel == "Gt":
                    lo = max(lo, other.lo + 1)
                    found = True
                elif rel == "Ge":
                    lo = max(lo, other.lo)
                    found = True
                elif rel == "Eq":
                    lo, hi = max(lo, other.lo), min(hi, other.hi)
                    ln = ln or other.len
                    found = True
                elif rel == "Ne" and other.lo == other.hi:
                    if lo == -BIG and other.lo == 0:
                        lo = 1 if True else lo
                        found = True
        if not found:
            return None
        return Ival(lo, hi, ln)

    def written_between(self, rootkey, guard_bb, site_bb):
        """Is the guarded place (re)assigned on some path from the guard to the site?"""
        b = self.body
        l, proj = rootkey
        for (bb, idx, kind, payload, lhs_proj) in b.defs(l):
            lp = tuple(proj_key(p) for p in lhs_proj)
            if lp != proj[:len(lp)] and proj != lp[:len(proj)]:
                continue
            if bb == guard_bb:
                continue
            if b.can_reach(guard_bb, bb) and (bb == site_bb or b.can_reach(bb, site_bb)) and bb != site_bb:
                return True
        return False


# ---------------------------------------------------------------------------------------
def type_fits(iv, ty):
    tr = ty_range(ty)
    return iv is not None and tr is not None and iv.lo >= tr[0] and iv.hi <= tr[1]


class Auditor:
    def __init__(self, facts, rep, pid, rule, allow):
        self.f = facts
        self.rep = rep
        self.pid = pid
        self.rule = rule
        self.allow = allow      # key -> (reason, precondition callable(facts, site) -> (bool, why))
        self.used_allow = set()
        self.stats = {"sites": 0, "interval": 0, "index": 0, "infeasible": 0, "allow": 0, "findings": 0}
        self._reach = {}

    def key(self, s):
        return "%s|%s|%s|#%d" % (fmt_key(s.body.path), s.kind, s.what, s.ordinal)

    def abstract_reachable(self, body):
        if body.path not in self._reach:
            if len(body.blocks) > 700:
                self._reach[body.path] = None   # too large for the explorer; no infeasibility argument is attempted
                return None
            try:
                ex = PathExplorer(body)
                ex.run()
                self._reach[body.path] = {n[0] for n in ex.parent if n[0] is not None}
            except Exception:
                self._reach[body.path] = None
        return self._reach[body.path]

    def audit_body(self, body):
        sites = enumerate_sites(body)
        iv = Intervals(body)
        for s in sites:
            self.stats["sites"] += 1
            how = self.discharge(body, s, iv)
            k = self.key(s)
            if how:
                self.stats[how[0]] += 1
                self.rep.ok(self.rule, "%s: %s %s discharged (%s)" % (fmt_key(body.path), s.kind, s.what, how[1]), s.loc())
                continue
            ka = k if k in self.allow else re.sub(r"#\d+$", "#*", k)      # `...|#*`: every site of that kind in that body whose precondition holds
            if ka in self.allow:
                reason, pre = self.allow[ka]
                self.used_allow.add(ka)
                ok, why = pre(self.f, s) if pre else (True, "no precondition")
                if ok:
                    self.stats["allow"] += 1
                    self.rep.ok(self.rule, "%s: %s %s reviewed: %s [precondition holds: %s]" % (fmt_key(body.path), s.kind, s.what, reason, why), s.loc())
                    continue
                self.rep.finding(self.rule, k, "%s: reviewed site %s %s no longer satisfies its precondition (%s): %s" % (body.path, s.kind, s.what, why, reason), s.loc())
                self.stats["findings"] += 1
                continue
            self.stats["findings"] += 1
            self.rep.finding(self.rule, k, "%s: %s `%s`%s can panic / abort / allocate out of proportion and no bound, guard or reviewed reason covers it" % (
                body.path, s.kind, s.what, (" (in %s!)" % s.macro() if s.macro() else "")), s.loc())

    # -------------------------------------------------------------------------------------
    def discharge(self, body, s, iv):
        try:
            r = self._discharge(body, s, iv)
        except RecursionError:
            r = None
        if r:
            return r
        reach = self.abstract_reachable(body)
        if reach is not None and s.bb not in reach:
            return ("infeasible", "no abstract state reaches the block: branch conditions tested earlier exclude it")
        return None

    def _discharge(self, body, s, iv):
        t = s.term
        if s.kind == "assert":
            k = s.what
            ops = s.operands
            if k.startswith("Overflow("):
                op = k[len("Overflow("):-1]
                res = iv.arith(op, ops[0], ops[1], s.bb, set())
                # result type = type of the operands
                pl = op_place(ops[0]) or op_place(ops[1])
                ty = None
                if pl is not None and not pl["p"]:
                    ty = body.local_ty(pl["l"])
                elif "k" in ops[0]:
                    ty = ops[0]["k"]["ty"]
                if ty is None and "k" in ops[1]:
                    ty = ops[1]["k"]["ty"]
                if res is not None and ty and type_fits(res, ty):
                    return ("interval", "%s of %s cannot leave %s: result in %r" % (op, "operands", ty, res))
                # counters bounded by an in-memory length
                x = iv.of_operand(ops[0], s.bb)
                y = iv.of_operand(ops[1], s.bb)
                if op == "Add" and x is not None and y is not None and x.len and y.lo >= 0 and y.hi <= 16 and ty in ("usize", "u64"):
                    return ("interval", "counter bounded by an in-memory length plus a small constant")
                return None
            if k in ("DivisionByZero", "RemainderByZero"):
                # the assert's operand is the dividend; the divisor is the operand compared with 0 in the condition
                d = None
                cpl = op_place(t["cond"])
                if cpl is not None and not cpl["p"]:
                    cds = body.defs(cpl["l"])
                    if len(cds) == 1 and cds[0][2] == "assign" and cds[0][3]["rv"]["r"] == "bin" and cds[0][3]["rv"]["op"] == "Eq":
                        crv = cds[0][3]["rv"]
                        if const_int(crv["b"]) == 0:
                            d = iv.of_operand(crv["a"], s.bb)
                        elif const_int(crv["a"]) == 0:
                            d = iv.of_operand(crv["b"], s.bb)
                if d is not None and (d.lo > 0 or d.hi < 0):
                    return ("interval", "divisor in %r is never zero" % d)
                return None
            if k == "BoundsCheck":
                ln = iv.of_operand(ops[0], s.bb)
                ix = iv.of_operand(ops[1], s.bb)
                if ln is not None and ix is not None and ix.lo >= 0 and ix.hi < ln.lo:
                    return ("interval", "index in %r, length at least %d" % (ix, ln.lo))
                # loop variable over 0..len(base)
                if self.index_iterates_len(body, ops[1], ops[0], iv, s.bb):
                    return ("index", "index iterates 0..len of the indexed value")
                # index = position of an element found by iterating the indexed value (possibly zipped with another one)
                from terms import TermBuilder, render
                tb_ = TermBuilder(body)
                it_ = render(tb_.term(ops[1]))
                mpos = re.match(r"^std::iter::Iterator::(position|rposition)\((.*), closure\{.*\}\)<Some>\.0$", it_)
                if mpos:
                    lroots2 = set()
                    for l3 in body.origins(ops[0], passthrough={}):
                        if l3["kind"] == "un" and l3["stmt"]["rv"]["op"] == "PtrMetadata":
                            lroots2.add(render(tb_.term(l3["stmt"]["rv"]["a"])))
                        elif l3["kind"] == "const":
                            lroots2.add("const-len")
                    inner_ = mpos.group(2)
                    ln_c = iv.of_operand(ops[0], s.bb)
                    if any(r_ != "const-len" and r_.lstrip("*&") in inner_ for r_ in lroots2):
                        return ("index", "index is the position of an element of the indexed value")
                    if ln_c is not None and ln_c.lo == ln_c.hi:
                        # fixed-size array: the iterator runs over a value of the same static length (zip stops at the shorter one)
                        import re as _re
                        if _re.search(r"b\"(\\x[0-9a-f]{2}|.){%d}\"" % ln_c.lo, inner_) or "take(%d_usize)" % ln_c.lo in inner_:
                            return ("index", "index is a position within an iterator of the array's static length %d" % ln_c.lo)
                lroots = set()
                for l3 in body.origins(ops[0], passthrough={}):
                    if l3["kind"] == "un" and l3["stmt"]["rv"]["op"] == "PtrMetadata":
                        lroots |= self.base_roots(body, l3["stmt"]["rv"]["a"])
                if lroots and self.guarded_by_len(body, ops[1], None, iv, s.bb, roots=lroots):
                    return ("index", "index is compared against the length of the indexed value on every path to the access")
                return None
            return None
        c = s.call
        # str positions: slicing / splitting a string at the position str::find (rfind, char_indices ...) returned for that same
        # string is in range and on a character boundary
        if c is not None and len(c.args) > 1 and ((s.kind == "index" and "str" in (c.self_ty or "")) or re.search(r"<impl str>::split_at(_mut)?$", c.decl)):
            from terms import TermBuilder, render
            tb_ = TermBuilder(body)
            base_t = render(tb_.term(c.args[0]))
            idx_t = render(tb_.term(c.args[1]))
            m_ = re.findall(r"core::str::<impl str>::(?:find|rfind)\(", idx_t)
            if m_ and ("core::str::<impl str>::find(%s," % base_t in idx_t or "core::str::<impl str>::rfind(%s," % base_t in idx_t) \
                    and not re.search(r"\b(Add|Sub|Mul|AddWithOverflow|SubWithOverflow)\(", idx_t):
                return ("index", "position returned by str::find on the same string: in range and on a char boundary")
        if s.kind == "index":
            idx = c.args[1] if len(c.args) > 1 else None
            if idx is None:
                return None
            ity = body.local_ty(op_place(idx)["l"]) if op_place(idx) is not None and not op_place(idx)["p"] else (idx.get("k", {}).get("ty", ""))
            if ity.startswith("std::ops::RangeFull"):
                return ("index", "RangeFull never panics")
            # RangeTo / Range whose end is min(len(base), ..)
            ends = self.range_ends(body, idx)
            # a str may only be cut on a character boundary: being in range is not enough (`&s[..s.len().min(64)]` panics inside
            # a multi-byte character), so for str only positions known to be boundaries count (handled above: str::find results)
            is_str = re.search(r"(^|[^\w])(str|String)$", (c.self_ty or "").replace("&", "").strip()) is not None or (c.self_ty or "") in ("str", "std::string::String")
            if is_str:
                ends = None
            if ends is not None:
                base_len = self.len_of_arg(body, c.args[0], iv, c.bb)
                okk = True
                for (which, e) in ends:
                    v = iv.of_operand(e, c.bb)
                    if v is None:
                        okk = False
                        break
                    if base_len is not None and v.hi <= base_len.lo and v.lo >= 0:
                        continue
                    if self.is_min_with_len(body, e, c.args[0]):
                        continue
                    okk = False
                if okk and ends:
                    return ("index", "range end bounded by the length of the sliced value")
            # usize index with interval below known length
            if ity == "usize":
                v = iv.of_operand(idx, c.bb)
                base_len = self.len_of_arg(body, c.args[0], iv, c.bb)
                if v is not None and base_len is not None and v.lo >= 0 and v.hi < base_len.lo:
                    return ("interval", "index in %r below length %d" % (v, base_len.lo))
                if v is not None and self.guarded_by_len(body, idx, c.args[0], iv, c.bb):
                    return ("index", "index is compared against the length of the indexed value on every path to the access")
            return None
        if s.kind == "alloc":
            if not s.operands:
                return None
            v = iv.of_operand(s.operands[0], s.bb)
            if v is not None and v.hi <= ALLOC_CONST_LIMIT:
                return ("interval", "allocation bounded by constant %d" % v.hi)
            if v is not None and v.len:
                return ("interval", "allocation bounded by the length of an in-memory object")
            return None
        if s.kind == "slice-precondition" and (c.decl.endswith("copy_from_slice") or c.decl.endswith("clone_from_slice")):
            a = iv.known_len(c.args[0], c.bb)
            b_ = iv.known_len(c.args[1], c.bb)
            if a is not None and a == b_:
                return ("index", "both slices have static length %d" % a)
            # both operands are `x[..n]` with the very same n
            ends = []
            for arg in c.args[:2]:
                e = None
                for lf in body.origins(arg, passthrough={}):
                    if lf["kind"] == "call" and re.search(r"ops::Index(Mut)?::index(_mut)?$", lf["call"].decl):
                        re_ = self.range_ends(body, lf["call"].args[1])
                        if re_ and len(re_) == 1 and re_[0][0] == "end":
                            pl = op_place(re_[0][1])
                            e = iv.root(pl) if pl is not None else None
                ends.append(e)
            if len(ends) == 2 and ends[0] is not None and ends[0] == ends[1]:
                return ("index", "both slices are cut to the same length")
            return None
        if s.kind == "vec-precondition" and re.search(r"::(remove|swap_remove)$", c.decl) and len(c.args) > 1:
            k_ = const_int(c.args[1])
            if k_ is not None:
                from terms import TermBuilder, render
                from common import switch_info
                tb_ = TermBuilder(body)
                base_t = render(tb_.term(c.args[0]))
                for sb in body.reachable():
                    info = switch_info(body, sb)
                    if not info or info["kind"] != "cmp":
                        continue
                    rv_ = info["stmt"]["rv"]
                    a_, b_ = render(tb_.term(rv_["a"])), render(tb_.term(rv_["b"]))
                    cst = const_int(rv_["b"]) if const_int(rv_["b"]) is not None else const_int(rv_["a"])
                    lens = [x for x in (a_, b_) if x == "std::vec::Vec::<T, A>::len(%s)" % base_t]
                    if cst is None or not lens:
                        continue
                    op_ = rv_["op"]
                    holds_edge = info["true"] if op_ == "Eq" else info["false"] if op_ == "Ne" else None
                    if holds_edge is not None and cst > k_ and body.dominates(holds_edge, c.bb) and body.pred(holds_edge) == [sb]:
                        return ("index", "remove(%d) is only reached when the vector's length was tested to be %d" % (k_, cst))
            return None
        if s.kind == "unwrap" and c is not None and c.decl.endswith("Result::<T, E>::unwrap") and c.args:
            # `taken.try_into().unwrap()` into `[u8; N]` where `taken` is what nom's `take(N)` cut off: a slice of exactly N bytes
            for lf in body.origins(c.args[0], passthrough={}):
                if lf["kind"] == "call" and lf["call"].decl == "std::convert::TryInto::try_into" and len(lf["call"].gargs or []) == 2:
                    m_ = re.fullmatch(r"\[u8; (\d+)\]", lf["call"].gargs[1])
                    if m_ and lf["call"].gargs[0] == "&[u8]":
                        from terms import TermBuilder, render
                        t_ = render(TermBuilder(body).term(lf["call"].args[0]))
                        m2 = re.match(r"std::ops::FnMut::call_mut\(nom::bytes::complete::take\((\d+)_usize\), .*\)<Ok>\.0\.1$", t_)
                        if m2 and m2.group(1) == m_.group(1):
                            return ("index", "the slice was cut off by take(%s): it converts into [u8; %s]" % (m2.group(1), m_.group(1)))
        if s.kind == "bufread-consume":
            # consume(n) is within its contract when n is (bounded by) the length of the slice fill_buf just returned
            from terms import TermBuilder, render
            t_ = render(TermBuilder(body).term(c.args[1])) if len(c.args) > 1 else ""
            if re.fullmatch(r"(core::slice::<impl \[T\]>::len\(std::io::BufRead::fill_buf\(.*\)(<Ok>\.0)?\)|0_usize)", t_) or \
                    re.match(r"(std::cmp::min|std::cmp::Ord::min|MIN)\(.*core::slice::<impl \[T\]>::len\(std::io::BufRead::fill_buf\(", t_):
                return ("index", "consume() is given (at most) the length of the buffer fill_buf returned")
            return None
        if s.kind == "iter-arith":
            ga = c.gargs or []
            acc = ga[1] if len(ga) > 1 else ""
            if re.fullmatch(r"f(32|64)", acc) or not re.fullmatch(r"[ui](8|16|32|64|128|size)", acc):
                return ("interval", "accumulation over %s does not trap" % (acc or "a non-integer type"))
            # sum of n in-memory items of at most 32 bits each, widened to 64 bits or more, stays below 2^64
            m = re.fullmatch(r"std::iter::(?:Map|Copied|Cloned)<(?:std::iter::(?:Copied|Cloned)<)?std::slice::Iter<'_, [ui](8|16|32)>>?(?:, \{closure@([^}]*)\})?>", c.self_ty or "")
            if m and c.decl.endswith("::sum") and re.fullmatch(r"[ui](64|128)", acc):
                if m.group(2) is None:
                    return None
                where = ":".join(m.group(2).split(":")[:2])
                cands = [cb for cb in self.f.closures_of(body) if cb.span == where]
                pure = 0
                for cb in cands:
                    if len([1 for bb_ in cb.reachable() if cb.term(bb_)["t"] == "call"]) == 0:
                        casts = [st for bb_ in cb.reachable() for st in cb.blocks[bb_]["stmts"] if st.get("k") == "assign" and st["rv"]["r"] not in ("use", "ref")]
                        if len(casts) == 1 and casts[0]["rv"]["r"] == "cast":
                            pure += 1
                if cands and pure == len(cands):
                    return ("interval", "sum of widened %s-bit items of an in-memory slice stays below 2^64" % m.group(1))
            return None
        if s.kind == "vec-precondition" and c.decl.endswith("::drain") and len(c.args) > 1:
            pl = op_place(c.args[1])
            ity = body.local_ty(pl["l"]) if pl is not None and not pl["p"] else c.args[1].get("k", {}).get("ty", "")
            if ity.startswith("std::ops::RangeFull"):
                return ("index", "drain(..) over the full range never panics")
            return None
        return None

    # helpers -------------------------------------------------------------------------------
    def range_ends(self, body, idx_op):
        pl = op_place(idx_op)
        if pl is None:
            return None
        for lf in body.origins(pl, passthrough={}):
            if lf["kind"] == "agg":
                rv = lf["stmt"]["rv"]
                if rv.get("adt", "").startswith("std::ops::Range"):
                    names = rv["fields"]
                    return [(n, o) for n, o in zip(names, rv["ops"])]
        return None

    def len_of_arg(self, body, base_op, iv, bb):
        n = iv.known_len(base_op, bb)
        if n is not None:
            return Ival(n, n, True)
        return None

    def base_roots(self, body, op):
        out = set()
        for lf in body.origins(op):
            if lf["kind"] == "arg":
                out.add(("arg", lf["n"], tuple(p for p in lf["proj"] if p != "*")))
            elif lf["kind"] == "call":
                out.add(("call", lf["call"].bb, tuple(p for p in lf["proj"] if p != "*")))
            elif lf["kind"] in ("agg", "repeat"):
                out.add((lf["kind"], lf["bb"]))
        return out

    def is_min_with_len(self, body, e_op, base_op):
        """e = min(len(base), x), possibly through integer casts on either level."""
        roots = self.base_roots(body, base_op)
        work = [(e_op, False)]
        n = 0
        while work and n < 40:
            n += 1
            o, under_min = work.pop()
            if op_place(o) is None:
                continue
            for lf in body.origins(op_place(o), passthrough={}):
                if lf["kind"] == "cast":
                    work.append((lf["stmt"]["rv"]["o"], under_min))
                elif lf["kind"] == "call" and lf["call"].decl in ("std::cmp::Ord::min", "std::cmp::min"):
                    for a in lf["call"].args:
                        work.append((a, True))
                elif under_min and lf["kind"] == "call" and re.search(r"::len$", lf["call"].decl):
                    if self.base_roots(body, lf["call"].args[0]) & roots:
                        return True
                elif under_min and lf["kind"] == "un" and lf["stmt"]["rv"]["op"] == "PtrMetadata":
                    if self.base_roots(body, lf["stmt"]["rv"]["a"]) & roots:
                        return True
        return False

    def index_iterates_len(self, body, idx_op, len_op, iv, bb):
        """idx comes from Range{0, len(X)}::next and len_op is the length of the same X."""
        pl = op_place(idx_op)
        if pl is None:
            return False
        for lf in body.origins(pl):
            if lf["kind"] == "call" and lf["call"].decl == "std::iter::Iterator::next":
                for l2 in body.origins(lf["call"].args[0]):
                    if l2["kind"] == "agg" and l2["stmt"]["rv"].get("adt", "").startswith("std::ops::Range"):
                        rv = l2["stmt"]["rv"]
                        start = iv.of_operand(rv["ops"][0], l2["bb"])
                        end = iv.of_operand(rv["ops"][1], l2["bb"])
                        ln = iv.of_operand(len_op, bb)
                        if start is not None and start.lo >= 0 and end is not None and ln is not None and end.hi <= ln.lo:
                            return True
                        # same base?  (the end may be the minimum of several lengths: it bounds an index into each of them)
                        eroots = set()
                        work_ = [rv["ops"][1]]
                        n_ = 0
                        while work_ and n_ < 24:
                            n_ += 1
                            o_ = work_.pop()
                            if op_place(o_) is None:
                                continue
                            for l3 in body.origins(o_, passthrough={}):
                                if l3["kind"] == "call" and re.search(r"::len$", l3["call"].decl):
                                    eroots |= self.base_roots(body, l3["call"].args[0])
                                elif l3["kind"] == "un" and l3["stmt"]["rv"]["op"] == "PtrMetadata":
                                    eroots |= self.base_roots(body, l3["stmt"]["rv"]["a"])
                                elif l3["kind"] == "call" and l3["call"].decl in ("std::cmp::Ord::min", "std::cmp::min"):
                                    work_ += list(l3["call"].args)
                                elif l3["kind"] == "cast":
                                    work_.append(l3["stmt"]["rv"]["o"])
                        lroots = set()
                        for l3 in body.origins(len_op, passthrough={}):
                            if l3["kind"] == "un" and l3["stmt"]["rv"]["op"] == "PtrMetadata":
                                lroots |= self.base_roots(body, l3["stmt"]["rv"]["a"])
                        if start is not None and start.lo >= 0 and eroots and eroots & lroots:
                            return True
        return False

    def guarded_by_len(self, body, idx_op, base_op, iv, bb, roots=None):
        """A dominating comparison bounds the index by len(base)."""
        pl = op_place(idx_op)
        if pl is None:
            return False
        me = iv.root(pl)
        if roots is None:
            roots = self.base_roots(body, base_op)
        for sb in body.reachable():
            info = switch_info(body, sb)
            if not info or info["kind"] != "cmp":
                continue
            rv = info["stmt"]["rv"]
            for (edge_t, truth) in ((info["true"], True), (info["false"], False)):
                if edge_t is None or not (body.dominates(edge_t, bb) and body.pred(edge_t) == [sb]):
                    continue
                pa, pb = op_place(rv["a"]), op_place(rv["b"])
                op = rv["op"]
                if pa is not None and iv.root(pa) == me:
                    other, rel = rv["b"], op
                elif pb is not None and iv.root(pb) == me:
                    other, rel = rv["a"], {"Lt": "Gt", "Le": "Ge", "Gt": "Lt", "Ge": "Le"}.get(op, op)
                else:
                    continue
                if not truth:
                    rel = {"Lt": "Ge", "Le": "Gt", "Gt": "Le", "Ge": "Lt"}.get(rel, rel)
                if rel != "Lt":
                    continue
                if iv.written_between(me, sb, bb):
                    continue
                for l3 in body.origins(other, passthrough={}):
                    if l3["kind"] == "call" and re.search(r"::len$", l3["call"].decl) and self.base_roots(body, l3["call"].args[0]) & roots:
                        return True
                    if l3["kind"] == "un" and l3["stmt"]["rv"]["op"] == "PtrMetadata" and self.base_roots(body, l3["stmt"]["rv"]["a"]) & roots:
                        return True
        return False

    def finish(self):
        for k in self.allow:
            if k not in self.used_allow:
                self.rep.notes.append("allow-list entry not matched on this tree/configuration: %s" % k)
        for n, v in self.stats.items():
            self.rep.count("audit_" + n, v)
