"""C20 - timestamp conversion is exact inside the 32-bit range and an error outside.

Both TryFrom impls are evaluated completely by the abstract interpreter (E3) with symbolic models of
the std / chrono calls they make (trusted table below): every path yields a (range of instants,
result) pair, and the set of pairs must be exactly
      instant < epoch         -> Err(Underflow)
      0 <= secs <= u32::MAX    -> Ok(Timestamp(secs as 32 bits))
      secs > u32::MAX          -> Err(Overflow)
Any panic-capable construct, unknown call or narrowing cast makes the body leave the domain or
produces a row that is not in the table - both are reported.
"""
from absint import Interp, BV, Enum, Ref, Tup, Opaque, LeaveDomain, cast_int, Pred
from engine import AnchorLost
from common import result_consumed, fmt_key
import re

LEVEL = "proof"
U32MAX = (1 << 32) - 1


def _res(variant, payload):
    return Enum("std::result::Result", variant, {"0": payload})


def ext_duration_since(it, fn, args, dty, sg, cons, excl, depth):
    st, epoch = args
    desc = epoch.desc if isinstance(epoch, Opaque) else repr(epoch)
    if not (re.search(r"tv_sec: 0_i64", desc) and re.search(r"\(0_u32", desc)) and "UNIX_EPOCH" not in desc:
        raise LeaveDomain("duration_since is taken relative to %s, not UNIX_EPOCH" % desc[:80])
    dur = Enum("std::time::Duration", "Duration", {"secs": BV.var("secs", 64, False), "nanos": BV.var("ns", 32, False)})
    return [
        (sg, cons + [("st", "BeforeEpoch", 0, True)], excl, _res("Err", Opaque("SystemTimeError"))),
        (sg, cons + [("st", "BeforeEpoch", 0, False)], excl, _res("Ok", dur)),
    ]


def ext_as_secs(it, fn, args, dty, sg, cons, excl, depth):
    d = args[0].v if isinstance(args[0], Ref) else args[0]
    if isinstance(d, Enum) and "secs" in d.fields:
        return [(sg, cons, excl, d.fields["secs"])]
    raise LeaveDomain("as_secs on %r" % (d,))


def ext_try_into(it, fn, args, dty, sg, cons, excl, depth):
    g = fn.get("gargs", [])
    if len(g) != 2:
        return None
    src, dst = g
    if fn["path"] == "std::convert::TryFrom::try_from":
        dst, src = g
    INT = {"u8": (8, False), "u16": (16, False), "u32": (32, False), "u64": (64, False), "usize": (64, False), "u128": (128, False),
           "i8": (8, True), "i16": (16, True), "i32": (32, True), "i64": (64, True), "isize": (64, True), "i128": (128, True)}
    if src not in INT or dst not in INT:
        return None
    (sw, ss), (dw, ds) = INT[src], INT[dst]
    a = args[0]
    if dst != "u32" and isinstance(a, BV) and dw >= sw and dw <= 64:
        if ss and not ds:
            # signed -> unsigned of at least the same width: succeeds exactly for non-negative values
            name = a.whole_var()
            if name is None:
                raise LeaveDomain("sign check on a value that is not the whole seconds count: %r" % (a,))
            return [
                (sg, cons + [(name, "Ge", 0, True)], excl, _res("Ok", cast_int(a, dw, False))),
                (sg, cons + [(name, "Ge", 0, False)], excl, _res("Err", Opaque("TryFromIntError"))),
            ]
        if ss == ds or (not ss and ds and dw > sw):
            return [(sg, cons, excl, _res("Ok", cast_int(a, dw, ds)))]      # widening: always succeeds
    if dst != "u32" or src not in ("u64", "i64", "u128", "i128", "usize", "isize"):
        return None
    if not isinstance(a, BV):
        raise LeaveDomain("try_into on %r" % (a,))
    name = a.whole_var()
    if name is None:
        raise LeaveDomain("checked narrowing of a value that is not the whole seconds count: %r" % (a,))
    return [
        (sg, cons + [(name, "InU32", 0, True)], excl, _res("Ok", cast_int(a, 32, False))),
        (sg, cons + [(name, "InU32", 0, False)], excl, _res("Err", Opaque("TryFromIntError"))),
    ]


def ext_with_timezone(it, fn, args, dty, sg, cons, excl, depth):
    return [(sg, cons, excl, Opaque("datetime"))]


def ext_timestamp(it, fn, args, dty, sg, cons, excl, depth):
    return [(sg, cons, excl, BV.var("t", 64, True))]


EXTERNS = {
    "std::time::SystemTime::duration_since": ext_duration_since,
    "std::time::Duration::as_secs": ext_as_secs,
    "std::convert::TryInto::try_into": ext_try_into,
    "std::convert::TryFrom::try_from": ext_try_into,
    "chrono::DateTime::<Tz>::with_timezone": ext_with_timezone,
    "chrono::DateTime::<Tz>::timestamp": ext_timestamp,
}


def interval(constraints, var, signed_lo):
    """Fold the path constraints on `var` into a closed interval (lo, hi); None if infeasible."""
    lo, hi = signed_lo, (1 << 64) - 1 if signed_lo == 0 else (1 << 63) - 1
    later = []
    for (v, op, c, holds) in constraints:
        if v != var:
            continue
        if op == "InU32":
            later.append(holds)
            continue
        if not holds:
            op = {"Gt": "Le", "Ge": "Lt", "Lt": "Ge", "Le": "Gt"}.get(op, "?" + op)
        if op == "Gt":
            lo = max(lo, c + 1)
        elif op == "Ge":
            lo = max(lo, c)
        elif op == "Lt":
            hi = min(hi, c - 1)
        elif op == "Le":
            hi = min(hi, c)
        else:
            raise LeaveDomain("branch on %s %s %s" % (v, op, c))
    for holds in later:
        if holds:
            lo, hi = max(lo, 0), min(hi, U32MAX)
        else:
            if lo >= 0:
                lo = max(lo, U32MAX + 1)
            elif hi <= U32MAX:
                hi = min(hi, -1)
            else:
                raise LeaveDomain("range check on an unconstrained signed value splits the line in two")
    if lo > hi:
        return None
    return (lo, hi)


def classify(v):
    """-> ('ok', bits) | ('err', variant) | ('?', repr)"""
    if isinstance(v, Enum) and v.adt.endswith("Result"):
        p = v.fields.get("0")
        if v.variant == "Ok" and isinstance(p, Enum) and p.adt.endswith("Timestamp"):
            return ("ok", p.fields.get("0"))
        if v.variant == "Err" and isinstance(p, Enum) and p.adt.endswith("TimestampError"):
            return ("err", p.variant)
    return ("?", repr(v))


def find_try_from(f, src_rx):
    bs = [b for b in f.body_list if b.impl_trait == "std::convert::TryFrom" and b.name == "try_from"
          and (b.impl_self or "").endswith("::Timestamp") and re.search(src_rx, b.impl_trait_full or "")]
    if len(bs) != 1:
        raise AnchorLost("impl TryFrom<%s> for Timestamp: found %d" % (src_rx, len(bs)))
    return bs[0]


def run(f, fixture, rep, cfg, tier):
    rep.explanation = (
        "Complete abstract evaluation of <Timestamp as TryFrom<SystemTime>> and <Timestamp as TryFrom<chrono::DateTime<Tz>>> "
        "(all closures inlined; Result combinators, `?`, duration_since, as_secs, timestamp and checked integer narrowing "
        "modelled symbolically). The (instant range -> result) table derived from all paths must equal the required one.")
    rep.trusted = ["rustc nightly MIR", "models of std::time / chrono / Result combinators in rules/c20.py and rules/absint.py",
                   "exactness of std/chrono arithmetic behind duration_since, as_secs, timestamp"]
    rep.rule("R1", "SystemTime: before epoch -> Underflow; whole seconds, checked u64->u32; beyond -> Overflow")
    rep.rule("R2", "chrono: t < 0 -> Underflow; 0..=u32::MAX -> Ok(t); beyond -> Overflow")
    rep.rule("R3", "no panic-capable construct on either conversion (the body would leave the domain)")
    rep.rule("R4", "Timestamp ordering/equality are the derived impls over its single u32")
    rep.rule("R5", "file mtime conversion at the use site is `?`-propagated")

    # ---- R1 ---------------------------------------------------------------------------
    b1 = find_try_from(f, r"TryFrom<std::time::SystemTime>")
    it = Interp(f, externs=EXTERNS)
    try:
        outs = it.evaluate(b1, [Opaque("st")])
        rows = []
        for o in outs:
            before = [h for (v, op, c, h) in o.constraints if op == "BeforeEpoch"]
            iv = interval(o.constraints, "secs", 0)
            if iv is None:
                continue
            rows.append((before[0] if before else None, iv, classify(o.value)))
        rep.count("systemtime_paths", len(rows))
        want_bits = BV(32, False, [("x", "secs", i) for i in range(32)])
        seen = set()
        for (before, iv, cls) in rows:
            if before is True:
                seen.add("under")
                rep.check(cls == ("err", "Underflow"), "R1", "systemtime|before-epoch", "instants before the epoch -> Err(Underflow)",
                          "instants before the epoch yield %s" % (cls,), b1.span)
            elif before is False and iv == (0, U32MAX):
                seen.add("ok")
                rep.check(cls[0] == "ok" and cls[1] == want_bits, "R1", "systemtime|in-range", "0..=u32::MAX whole seconds -> Ok(Timestamp(secs))",
                          "in-range instants yield %s" % (cls,), b1.span)
            elif before is False and iv == (U32MAX + 1, (1 << 64) - 1):
                seen.add("over")
                rep.check(cls == ("err", "Overflow"), "R1", "systemtime|beyond", "secs > u32::MAX -> Err(Overflow)",
                          "instants past 2106 yield %s" % (cls,), b1.span)
            else:
                rep.finding("R1", "systemtime|row|%s|%s" % (before, cls[0]), "unexpected row: before_epoch=%s secs in %s -> %s" % (before, iv, cls), b1.span)
        rep.check(seen == {"under", "ok", "over"}, "R1", "systemtime|complete", "the three rows are all present",
                  "rows present: %s (expected under, ok, over)" % sorted(seen), b1.span)
    except LeaveDomain as e:
        rep.finding("R3", "systemtime|left-domain", "TryFrom<SystemTime> left the abstract domain: %s" % e, b1.span)

    # ---- R2 ---------------------------------------------------------------------------
    if cfg in ("default+bzip2", "default"):
        b2 = find_try_from(f, r"TryFrom<chrono::DateTime<")
        it2 = Interp(f, externs=EXTERNS)
        try:
            outs = it2.evaluate(b2, [Opaque("dt")])
            want_bits = BV(32, False, [("x", "t", i) for i in range(32)])
            seen = set()
            n = 0
            for o in outs:
                iv = interval(o.constraints, "t", -(1 << 63))
                if iv is None:
                    continue
                n += 1
                cls = classify(o.value)
                if iv == (-(1 << 63), -1):
                    seen.add("under")
                    rep.check(cls == ("err", "Underflow"), "R2", "chrono|negative", "t < 0 -> Err(Underflow)", "t < 0 yields %s" % (cls,), b2.span)
                elif iv == (0, U32MAX):
                    seen.add("ok")
                    rep.check(cls[0] == "ok" and cls[1] == want_bits, "R2", "chrono|in-range", "0..=u32::MAX -> Ok(Timestamp(t))",
                              "in-range yields %s" % (cls,), b2.span)
                elif iv == (U32MAX + 1, (1 << 63) - 1):
                    seen.add("over")
                    rep.check(cls == ("err", "Overflow"), "R2", "chrono|beyond", "t > u32::MAX -> Err(Overflow)", "t > u32::MAX yields %s" % (cls,), b2.span)
                else:
                    rep.finding("R2", "chrono|row|%s" % cls[0], "unexpected row: t in %s -> %s" % (iv, cls), b2.span)
            rep.count("chrono_paths", n)
            rep.check(seen == {"under", "ok", "over"}, "R2", "chrono|complete", "the three rows are all present",
                      "rows present: %s" % sorted(seen), b2.span)
        except LeaveDomain as e:
            rep.finding("R3", "chrono|left-domain", "TryFrom<DateTime> left the abstract domain: %s" % e, b2.span)
        rep.notes.append("inlined: %s" % sorted(fmt_key(p) for p in (it.inlined | it2.inlined)))

    # ---- R4 derived ordering -------------------------------------------------------------
    adt = f.adt("timestamp::Timestamp")
    fields = adt["variants"][0]["fields"]
    rep.check(len(fields) == 1 and fields[0]["ty"] == "u32", "R4", "timestamp|repr", "Timestamp is a single u32",
              "Timestamp's fields are %s" % [(x["name"], x["ty"]) for x in fields])
    for tr in ("std::cmp::PartialOrd", "std::cmp::Ord", "std::cmp::PartialEq", "std::cmp::Eq"):
        imps = [i for i in f.impls if i["self_ty"].endswith("timestamp::Timestamp") and i["trait"] == tr]
        rep.check(len(imps) == 1 and imps[0]["derived"], "R4", "timestamp|" + tr,
                  "%s for Timestamp is the derived impl" % tr,
                  "%s for Timestamp is %s" % (tr, "missing" if not imps else "hand-written (ordering may not follow the seconds value)"))

    # ---- R5 use site -----------------------------------------------------------------------
    wf = f.one("PackageBuilder::with_file")
    convs = [c for c in wf.calls() if c.decl in ("std::convert::TryInto::try_into", "std::convert::TryFrom::try_from")
             and any("Timestamp" in g for g in c.gargs) and any("SystemTime" in g for g in c.gargs)]
    rep.check(len(convs) >= 1, "R5", "with_file|conversion", "with_file converts the file mtime with the checked conversion",
              "with_file no longer converts SystemTime -> Timestamp through TryInto/TryFrom", wf.span)
    for c in convs:
        users = [u for u in wf.uses(c.dest["l"]) if isinstance(u[2], tuple)]
        via_q = any(wf.call_at(u[0]).decl == "std::ops::Try::branch" for u in users)
        rep.check(via_q, "R5", "with_file|propagated", "the conversion result is propagated with `?`",
                  "the conversion result is not `?`-propagated (unwrap/expect/ignored): a pre-1970 or post-2106 mtime would panic or be lost", c.loc())
