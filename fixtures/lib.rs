//! Positive controls: tiny bodies that exhibit the constructs the zero-expected rules look
//! for.  Compiled with the rpmfacts driver on every run; each rule asserts that it *does*
//! match its control here, so a rule that silently stopped matching cannot pass forever.
#![allow(dead_code, unused_must_use, unused_variables, clippy::all)]
use std::io::{self, Read, Write};

pub struct Sink<W>(pub W);

// C14.R1 control: a bare `write` whose count is dropped
pub fn c14_bare_write(out: &mut impl Write, b: &[u8]) -> io::Result<()> {
    out.write(b)?;
    Ok(())
}

// C14.R1 negative control: a hand-written retry loop is accepted
pub fn c14_retry_loop(out: &mut impl Write, mut b: &[u8]) -> io::Result<()> {
    while !b.is_empty() {
        let n = out.write(b)?;
        b = &b[n..];
    }
    Ok(())
}

// C14.R3 control: an io::Result that is dropped
pub fn c14_dropped_result(out: &mut impl Write, b: &[u8]) -> io::Result<()> {
    let _ = out.write_all(b);
    Ok(())
}

// C14.R3 control: verdict thrown away through .ok()
pub fn c14_ok_dropped(out: &mut impl Write, b: &[u8]) -> io::Result<()> {
    out.write_all(b).ok();
    Ok(())
}

// C14.R4 control: adapter claims the whole buffer after a possibly partial inner write
impl<W: Write> Write for Sink<W> {
    fn write(&mut self, buf: &[u8]) -> io::Result<usize> {
        self.0.write(buf)?;
        Ok(buf.len())
    }
    fn flush(&mut self) -> io::Result<()> {
        self.0.flush()
    }
}

// C14.R5 control: short read accepted
pub fn c14_bare_read(input: &mut impl Read) -> io::Result<[u8; 4]> {
    let mut b = [0u8; 4];
    input.read(&mut b)?;
    Ok(b)
}

// C08.R1 control: hashing adapter that accounts the whole buffer before a possibly short write
pub struct HashBefore<W> {
    pub writer: W,
    pub hasher: Vec<u8>,
}
pub trait MiniDigest {
    fn update(&mut self, data: impl AsRef<[u8]>);
}
impl MiniDigest for Vec<u8> {
    fn update(&mut self, data: impl AsRef<[u8]>) {
        self.extend_from_slice(data.as_ref());
    }
}
impl<W: Write> Write for HashBefore<W> {
    fn write(&mut self, buf: &[u8]) -> io::Result<usize> {
        self.hasher.update(buf);
        self.writer.write(buf)
    }
    fn flush(&mut self) -> io::Result<()> {
        self.writer.flush()
    }
}

// ---- C04 / C17 audit controls ------------------------------------------------------------
pub fn c04_unguarded_index(data: &[u8], i: usize) -> u8 {
    data[i]
}
pub fn c04_unchecked_add(a: u32, b: u32) -> u32 {
    a + b
}
pub fn c04_alloc_from_input(n: u32) -> Vec<u8> {
    vec![0u8; n as usize]
}
pub fn c04_unwrap(x: Option<u8>) -> u8 {
    x.unwrap()
}
pub fn c04_guarded_index(data: &[u8], i: usize) -> u8 {
    if i < data.len() {
        data[i]
    } else {
        0
    }
}
pub fn c04_bounded_alloc(n: u32) -> Vec<u8> {
    if n > 4096 {
        return Vec::new();
    }
    vec![0u8; n as usize]
}
pub fn c04_exhaustive_question_marks(a: Result<u8, ()>, b: Result<u8, ()>) -> Result<u8, ()> {
    match (a, b) {
        (Ok(x), Ok(y)) => Ok(x ^ y),
        (a, b) => {
            a?;
            b?;
            unreachable!()
        }
    }
}

// C11.R1 control: iteration over a hash set reaches the output
pub fn c11_hash_iteration(names: &[String]) -> Vec<String> {
    let mut set = std::collections::HashSet::new();
    for n in names {
        set.insert(n.clone());
    }
    let mut out = Vec::new();
    for n in &set {
        out.push(n.clone());
    }
    out
}
