// rpmfacts: a rustc_private driver that dumps, for the crate being compiled, a JSON fact
// file describing every local MIR body (statements, terminators, resolved callees,
// constants), ADT definitions, impls, evaluated const items and the format_args!
// templates of the expanded AST.  It is injected with RUSTC_WORKSPACE_WRAPPER, so it sees
// exactly the program cargo builds.  Nothing here decides a property; the rule engine
// (../rules) does.
#![feature(rustc_private)]
#![allow(clippy::all)]

extern crate rustc_abi;
extern crate rustc_ast;
extern crate rustc_driver;
extern crate rustc_hir;
extern crate rustc_interface;
extern crate rustc_middle;
extern crate rustc_session;
extern crate rustc_span;

use rustc_driver::Compilation;
use rustc_hir::def::DefKind;
use rustc_hir::def_id::{DefId, LocalDefId, LOCAL_CRATE};
use rustc_middle::mir::{
    self, AggregateKind, AssertKind, BorrowKind, Body, Const, Operand, Place, PlaceElem, Rvalue,
    StatementKind, TerminatorKind, UnwindAction,
};
use rustc_middle::ty::print::PrintTraitRefExt;
use rustc_middle::ty::{self, GenericArgsRef, Instance, Ty, TyCtxt, TypeVisitableExt, TypingEnv};
use rustc_span::{ExpnKind, Span};
use std::fmt::Write as _;

// ------------------------------------------------------------------------------------
// minimal JSON writer
// ------------------------------------------------------------------------------------
fn jstr(out: &mut String, s: &str) {
    out.push('"');
    for c in s.chars() {
        match c {
            '"' => out.push_str("\\\""),
            '\\' => out.push_str("\\\\"),
            '\n' => out.push_str("\\n"),
            '\r' => out.push_str("\\r"),
            '\t' => out.push_str("\\t"),
            c if (c as u32) < 0x20 => {
                let _ = write!(out, "\\u{:04x}", c as u32);
            }
            c => out.push(c),
        }
    }
    out.push('"');
}

fn js(s: &str) -> String {
    let mut o = String::new();
    jstr(&mut o, s);
    o
}

fn jlist(items: &[String]) -> String {
    let mut o = String::from("[");
    for (i, it) in items.iter().enumerate() {
        if i > 0 {
            o.push(',');
        }
        o.push_str(it);
    }
    o.push(']');
    o
}

fn jopt(s: Option<String>) -> String {
    s.unwrap_or_else(|| "null".to_string())
}

// ------------------------------------------------------------------------------------
struct Cx<'tcx> {
    tcx: TyCtxt<'tcx>,
}

impl<'tcx> Cx<'tcx> {
    fn span_loc(&self, sp: Span) -> (String, usize, usize) {
        let sm = self.tcx.sess.source_map();
        let sp = sp.source_callsite();
        let lo = sm.lookup_char_pos(sp.lo());
        let name = format!("{}", lo.file.name.prefer_local_unconditionally());
        (name, lo.line, lo.col.0 + 1)
    }

    fn span_str(&self, sp: Span) -> String {
        let (f, l, _) = self.span_loc(sp);
        format!("{}:{}", f, l)
    }

    // list of macro / desugaring names this span was produced by (innermost first)
    fn expansion(&self, sp: Span) -> Vec<String> {
        let mut v = Vec::new();
        if !sp.from_expansion() {
            return v;
        }
        let mut cur = sp;
        let mut guard = 0;
        while cur.from_expansion() && guard < 32 {
            let data = cur.ctxt().outer_expn_data();
            match data.kind {
                ExpnKind::Macro(_, name) => v.push(name.to_string()),
                ExpnKind::Desugaring(k) => v.push(format!("desugar:{:?}", k)),
                ExpnKind::AstPass(k) => v.push(format!("astpass:{:?}", k)),
                ExpnKind::Root => {}
            }
            cur = data.call_site;
            guard += 1;
        }
        v
    }

    fn exp_json(&self, sp: Span) -> String {
        let v = self.expansion(sp);
        jlist(&v.iter().map(|s| js(s)).collect::<Vec<_>>())
    }

    fn ty_str(&self, t: Ty<'tcx>) -> String {
        format!("{}", t)
    }

    fn def_path(&self, d: DefId) -> String {
        self.tcx.def_path_str(d)
    }

    fn place(&self, body: &Body<'tcx>, p: &Place<'tcx>) -> String {
        let mut o = String::new();
        let _ = write!(o, "{{\"l\":{},\"p\":[", p.local.as_usize());
        let mut pty = mir::PlaceTy::from_ty(body.local_decls[p.local].ty);
        for (i, elem) in p.projection.iter().enumerate() {
            if i > 0 {
                o.push(',');
            }
            match elem {
                PlaceElem::Deref => o.push_str("\"*\""),
                PlaceElem::Field(f, _) => {
                    let name = self.field_name(pty, f.as_usize());
                    let _ = write!(o, "{{\"f\":{},\"n\":{}}}", f.as_usize(), js(&name));
                }
                PlaceElem::Index(l) => {
                    let _ = write!(o, "{{\"i\":{}}}", l.as_usize());
                }
                PlaceElem::ConstantIndex { offset, min_length, from_end } => {
                    let _ = write!(
                        o,
                        "{{\"ci\":{},\"ml\":{},\"fe\":{}}}",
                        offset, min_length, from_end
                    );
                }
                PlaceElem::Subslice { from, to, from_end } => {
                    let _ = write!(o, "{{\"ss\":[{},{}],\"fe\":{}}}", from, to, from_end);
                }
                PlaceElem::Downcast(name, idx) => {
                    let n = name.map(|s| s.to_string()).unwrap_or_else(|| format!("#{}", idx.as_usize()));
                    let _ = write!(o, "{{\"d\":{}}}", js(&n));
                }
                PlaceElem::OpaqueCast(_) => o.push_str("\"opaque\""),
                PlaceElem::UnwrapUnsafeBinder(_) => o.push_str("\"unbind\""),
            }
            pty = pty.projection_ty(self.tcx, elem);
        }
        o.push_str("]}");
        o
    }

    fn field_name(&self, pty: mir::PlaceTy<'tcx>, idx: usize) -> String {
        match pty.ty.kind() {
            ty::Adt(adt, _) => {
                let variant = match pty.variant_index {
                    Some(v) => adt.variant(v),
                    None => {
                        if adt.is_enum() {
                            return format!("{}", idx);
                        }
                        adt.non_enum_variant()
                    }
                };
                variant
                    .fields
                    .iter()
                    .nth(idx)
                    .map(|f| f.name.to_string())
                    .unwrap_or_else(|| format!("{}", idx))
            }
            _ => format!("{}", idx),
        }
    }

    fn konst(&self, body_def: DefId, c: &mir::ConstOperand<'tcx>) -> String {
        let tcx = self.tcx;
        let ty = c.const_.ty();
        let mut o = String::new();
        let _ = write!(o, "{{\"ty\":{},\"s\":{}", js(&self.ty_str(ty)), js(&format!("{}", c.const_)));
        // function item?
        if let ty::FnDef(def_id, args) = ty.kind() {
            let _ = write!(o, ",\"fn\":{}", self.callee(body_def, *def_id, args));
        } else if let ty::Closure(def_id, _) = ty.kind() {
            let _ = write!(o, ",\"closure\":{}", js(&self.def_path(*def_id)));
        } else {
            let env = TypingEnv::post_analysis(tcx, body_def);
            let needs_eval = matches!(c.const_, Const::Unevaluated(..) | Const::Ty(..));
            if let Some(i) = c.const_.try_eval_scalar_int(tcx, env) {
                let size = i.size();
                let bits = i.to_bits(size);
                let _ = write!(o, ",\"bits\":{},\"size\":{}", js(&bits.to_string()), size.bytes());
                if needs_eval {
                    let v = Const::Val(mir::ConstValue::Scalar(rustc_middle::mir::interpret::Scalar::Int(i)), ty);
                    let _ = write!(o, ",\"ev\":{}", js(&format!("{}", v)));
                }
            } else if needs_eval && !c.const_.has_non_region_param_hack() {
                if let Ok(val) = c.const_.eval(tcx, env, c.span) {
                    let v = Const::Val(val, ty);
                    let _ = write!(o, ",\"ev\":{}", js(&format!("{}", v)));
                }
            }
            // small constant allocations behind references (e.g. a promoted `1..=9`): raw bytes
            if let Ok(val) = c.const_.eval(tcx, env, c.span) {
                let aid = match val {
                    mir::ConstValue::Scalar(rustc_middle::mir::interpret::Scalar::Ptr(p, _)) => Some(p.provenance.alloc_id()),
                    mir::ConstValue::Indirect { alloc_id, .. } => Some(alloc_id),
                    _ => None,
                };
                if let Some(aid) = aid {
                    if let rustc_middle::mir::interpret::GlobalAlloc::Memory(a) = tcx.global_alloc(aid) {
                        let inner = a.inner();
                        let n = inner.len();
                        if n <= 64 {
                            let bytes = inner.inspect_with_uninit_and_ptr_outside_interpreter(0..n);
                            let hex: String = bytes.iter().map(|b| format!("{:02x}", b)).collect();
                            let _ = write!(o, ",\"alloc\":{}", js(&hex));
                            // follow the first pointer (e.g. `&&str` -> `&str` -> bytes), up to 3 levels
                            let mut chain: Vec<String> = Vec::new();
                            let mut cur = a;
                            for _ in 0..3 {
                                let ci = cur.inner();
                                let next = ci.provenance().ptrs().iter().next().map(|(_, p)| p.alloc_id());
                                match next.and_then(|id| self.alloc_of(id)) {
                                    Some(t) => {
                                        let ti = t.inner();
                                        let m = ti.len().min(256);
                                        let b2 = ti.inspect_with_uninit_and_ptr_outside_interpreter(0..m);
                                        chain.push(js(&b2.iter().map(|b| format!("{:02x}", b)).collect::<String>()));
                                        cur = t;
                                    }
                                    None => break,
                                }
                            }
                            if !chain.is_empty() {
                                let _ = write!(o, ",\"alloc_chain\":{}", jlist(&chain));
                            }
                        }
                    }
                }
            }
            if let Const::Unevaluated(uv, _) = c.const_ {
                let _ = write!(o, ",\"item\":{}", js(&self.def_path(uv.def)));
                if uv.promoted.is_some() {
                    o.push_str(",\"promoted\":true");
                }
            }
        }
        o.push('}');
        o
    }

    fn callee(&self, body_def: DefId, def_id: DefId, args: GenericArgsRef<'tcx>) -> String {
        let tcx = self.tcx;
        let mut o = String::new();
        let _ = write!(
            o,
            "{{\"path\":{},\"full\":{},\"local\":{}",
            js(&self.def_path(def_id)),
            js(&tcx.def_path_str_with_args(def_id, args)),
            def_id.is_local()
        );
        let gargs: Vec<String> = args.iter().map(|a| js(&format!("{}", a))).collect();
        let _ = write!(o, ",\"gargs\":{}", jlist(&gargs));
        if let Some(tr) = tcx.trait_of_assoc(def_id) {
            let _ = write!(o, ",\"trait\":{}", js(&self.def_path(tr)));
            if args.len() > 0 {
                if let Some(t) = args.get(0).and_then(|a| a.as_type()) {
                    let _ = write!(o, ",\"self_ty\":{}", js(&self.ty_str(t)));
                }
            }
        } else if let Some(imp) = tcx.inherent_impl_of_assoc(def_id) {
            let self_ty = tcx.type_of(imp).instantiate_identity().skip_norm_wip();
            let _ = write!(o, ",\"impl_self\":{}", js(&self.ty_str(self_ty)));
        }
        // try to resolve to a concrete instance
        let env = TypingEnv::post_analysis(tcx, body_def);
        if let Ok(Some(inst)) = Instance::try_resolve(tcx, env, def_id, args) {
            let rdef = inst.def_id();
            let kind = match inst.def {
                ty::InstanceKind::Item(_) => "item",
                ty::InstanceKind::Virtual(..) => "virtual",
                ty::InstanceKind::Intrinsic(_) => "intrinsic",
                ty::InstanceKind::ClosureOnceShim { .. } => "closure_once",
                ty::InstanceKind::FnPtrShim(..) => "fnptr",
                ty::InstanceKind::DropGlue(..) => "drop",
                ty::InstanceKind::CloneShim(..) => "clone_shim",
                ty::InstanceKind::ReifyShim(..) => "reify",
                _ => "other",
            };
            let _ = write!(
                o,
                ",\"r\":{{\"path\":{},\"full\":{},\"local\":{},\"kind\":{}}}",
                js(&self.def_path(rdef)),
                js(&tcx.def_path_str_with_args(rdef, inst.args)),
                rdef.is_local(),
                js(kind)
            );
        }
        o.push('}');
        o
    }

    fn operand(&self, body_def: DefId, body: &Body<'tcx>, op: &Operand<'tcx>) -> String {
        match op {
            Operand::Copy(p) => format!("{{\"c\":{}}}", self.place(body, p)),
            Operand::Move(p) => format!("{{\"m\":{}}}", self.place(body, p)),
            Operand::Constant(c) => format!("{{\"k\":{}}}", self.konst(body_def, c)),
            #[allow(unreachable_patterns)]
            other => format!("{{\"x\":{}}}", js(&format!("{:?}", other))),
        }
    }

    fn rvalue(&self, body_def: DefId, body: &Body<'tcx>, rv: &Rvalue<'tcx>) -> String {
        let opj = |o: &Operand<'tcx>| self.operand(body_def, body, o);
        match rv {
            Rvalue::Use(o, ..) => format!("{{\"r\":\"use\",\"o\":{}}}", opj(o)),
            Rvalue::Repeat(o, n) => {
                format!("{{\"r\":\"repeat\",\"o\":{},\"n\":{}}}", opj(o), js(&format!("{}", n)))
            }
            Rvalue::Ref(_, bk, p) => {
                let m = matches!(bk, BorrowKind::Mut { .. });
                format!("{{\"r\":\"ref\",\"mut\":{},\"p\":{}}}", m, self.place(body, p))
            }
            Rvalue::RawPtr(k, p) => format!(
                "{{\"r\":\"rawptr\",\"kind\":{},\"p\":{}}}",
                js(&format!("{:?}", k)),
                self.place(body, p)
            ),
            Rvalue::Cast(ck, o, t) => format!(
                "{{\"r\":\"cast\",\"ck\":{},\"o\":{},\"ty\":{}}}",
                js(&format!("{:?}", ck)),
                opj(o),
                js(&self.ty_str(*t))
            ),
            Rvalue::BinaryOp(op, ab) => format!(
                "{{\"r\":\"bin\",\"op\":{},\"a\":{},\"b\":{}}}",
                js(&format!("{:?}", op)),
                opj(&ab.0),
                opj(&ab.1)
            ),
            Rvalue::UnaryOp(op, a) => {
                format!("{{\"r\":\"un\",\"op\":{},\"a\":{}}}", js(&format!("{:?}", op)), opj(a))
            }
            Rvalue::Discriminant(p) => {
                // all discriminant values of the enum being inspected (lets rules know when a
                // switch's `otherwise` edge is dead)
                let pty = p.ty(&body.local_decls, self.tcx).ty;
                let mut vals: Vec<String> = Vec::new();
                let mut vnames: Vec<String> = Vec::new();
                let mut ety = String::new();
                if let ty::Adt(adt, _) = pty.kind() {
                    if adt.is_enum() {
                        ety = self.def_path(adt.did());
                        for (vidx, v) in adt.variants().iter_enumerated() {
                            vals.push(js(&format!("{}", adt.discriminant_for_variant(self.tcx, vidx).val)));
                            vnames.push(js(&v.name.to_string()));
                        }
                    }
                }
                format!(
                    "{{\"r\":\"discr\",\"p\":{},\"enum\":{},\"vals\":{},\"vnames\":{}}}",
                    self.place(body, p),
                    js(&ety),
                    jlist(&vals),
                    jlist(&vnames)
                )
            }
            Rvalue::CopyForDeref(p) => format!("{{\"r\":\"use\",\"o\":{{\"c\":{}}},\"cfd\":true}}", self.place(body, p)),
            Rvalue::Aggregate(kind, ops) => {
                let ops_j: Vec<String> = ops.iter().map(|o| opj(o)).collect();
                let mut o = String::from("{\"r\":\"agg\"");
                match &**kind {
                    AggregateKind::Array(t) => {
                        let _ = write!(o, ",\"ak\":\"array\",\"ety\":{}", js(&self.ty_str(*t)));
                    }
                    AggregateKind::Tuple => o.push_str(",\"ak\":\"tuple\""),
                    AggregateKind::Adt(did, vidx, _args, _, _) => {
                        let adt = self.tcx.adt_def(*did);
                        let variant = adt.variant(*vidx);
                        let fields: Vec<String> =
                            variant.fields.iter().map(|f| js(&f.name.to_string())).collect();
                        let _ = write!(
                            o,
                            ",\"ak\":\"adt\",\"adt\":{},\"variant\":{},\"vidx\":{},\"fields\":{}",
                            js(&self.def_path(*did)),
                            js(&variant.name.to_string()),
                            vidx.as_usize(),
                            jlist(&fields)
                        );
                    }
                    AggregateKind::Closure(did, _) => {
                        let _ = write!(o, ",\"ak\":\"closure\",\"closure\":{}", js(&self.def_path(*did)));
                    }
                    AggregateKind::RawPtr(..) => o.push_str(",\"ak\":\"rawptr\""),
                    _ => o.push_str(",\"ak\":\"other\""),
                }
                let _ = write!(o, ",\"ops\":{}}}", jlist(&ops_j));
                o
            }
            other => format!("{{\"r\":\"other\",\"s\":{}}}", js(&format!("{:?}", other))),
        }
    }

    fn unwind(&self, u: &UnwindAction) -> String {
        match u {
            UnwindAction::Cleanup(bb) => format!("{}", bb.as_usize()),
            _ => "null".to_string(),
        }
    }

    fn body(&self, did: LocalDefId) -> Option<String> {
        let tcx = self.tcx;
        let def_id = did.to_def_id();
        let kind = tcx.def_kind(def_id);
        let kind_s = match kind {
            DefKind::Fn => "fn",
            DefKind::AssocFn => "assoc",
            DefKind::Closure => "closure",
            _ => return None,
        };
        if !tcx.is_mir_available(def_id) {
            return None;
        }
        let body: &Body<'tcx> = tcx.optimized_mir(def_id);
        let mut o = String::new();
        let _ = write!(
            o,
            "{{\"path\":{},\"kind\":{},\"span\":{},\"argc\":{}",
            js(&self.def_path(def_id)),
            js(kind_s),
            js(&self.span_str(body.span)),
            body.arg_count
        );
        // visibility (only for fn / assoc fn; closures and anon consts ICE)
        if matches!(kind, DefKind::Fn | DefKind::AssocFn) {
            let vis = tcx.visibility(def_id);
            let v = if vis.is_public() { "pub".to_string() } else { format!("{:?}", vis) };
            let _ = write!(o, ",\"vis\":{}", js(&v));
        }
        // parent impl / trait info
        let mut derived = false;
        if kind == DefKind::AssocFn {
            let parent = tcx.parent(def_id);
            match tcx.def_kind(parent) {
                DefKind::Impl { of_trait } => {
                    let self_ty = tcx.type_of(parent).instantiate_identity().skip_norm_wip();
                    let _ = write!(o, ",\"impl_self\":{}", js(&self.ty_str(self_ty)));
                    if of_trait {
                        let tr = tcx.impl_trait_ref(parent).instantiate_identity().skip_norm_wip();
                        let _ = write!(
                            o,
                            ",\"impl_trait\":{},\"impl_trait_full\":{}",
                            js(&self.def_path(tr.def_id)),
                            js(&format!("{}", tr.print_only_trait_path()))
                        );
                    }
                    derived = tcx.is_automatically_derived(parent);
                }
                DefKind::Trait => {
                    let _ = write!(o, ",\"in_trait\":{}", js(&self.def_path(parent)));
                }
                _ => {}
            }
        }
        if kind == DefKind::Closure {
            let parent = tcx.typeck_root_def_id(def_id);
            let _ = write!(o, ",\"closure_of\":{}", js(&self.def_path(parent)));
        }
        let _ = write!(o, ",\"derived\":{}", derived);
        // names of all generic parameters in argument order (parents first): lets the rule engine substitute the
        // concrete arguments of a call site when it inlines a generic helper
        if kind != DefKind::Closure {
            let mut gen_names: Vec<String> = Vec::new();
            let mut chain: Vec<&ty::Generics> = Vec::new();
            let mut g = tcx.generics_of(def_id);
            loop {
                chain.push(g);
                match g.parent {
                    Some(p) => g = tcx.generics_of(p),
                    None => break,
                }
            }
            for g in chain.iter().rev() {
                for p in &g.own_params {
                    gen_names.push(js(&p.name.to_string()));
                }
            }
            let _ = write!(o, ",\"generics\":{}", jlist(&gen_names));
        }
        let fn_name = tcx.opt_item_name(def_id).map(|s| s.to_string());
        if let Some(n) = fn_name {
            let _ = write!(o, ",\"name\":{}", js(&n));
        }
        // locals
        let mut names: Vec<Option<String>> = vec![None; body.local_decls.len()];
        let mut vdi: Vec<String> = Vec::new();
        for info in &body.var_debug_info {
            if let mir::VarDebugInfoContents::Place(p) = &info.value {
                if p.projection.is_empty() {
                    names[p.local.as_usize()] = Some(info.name.to_string());
                }
                vdi.push(format!(
                    "{{\"name\":{},\"place\":{}}}",
                    js(&info.name.to_string()),
                    self.place(body, p)
                ));
            }
        }
        let locals: Vec<String> = body
            .local_decls
            .iter_enumerated()
            .map(|(l, d)| {
                format!(
                    "{{\"ty\":{},\"name\":{},\"user\":{}}}",
                    js(&self.ty_str(d.ty)),
                    jopt(names[l.as_usize()].as_ref().map(|s| js(s))),
                    names[l.as_usize()].is_some()
                )
            })
            .collect();
        let _ = write!(o, ",\"locals\":{},\"vdi\":{}", jlist(&locals), jlist(&vdi));
        // blocks
        let mut blocks: Vec<String> = Vec::new();
        for (_bb, data) in body.basic_blocks.iter_enumerated() {
            let mut stmts: Vec<String> = Vec::new();
            for st in &data.statements {
                let sp = st.source_info.span;
                match &st.kind {
                    StatementKind::Assign(b) => {
                        let (lhs, rv) = &**b;
                        let (_, line, _) = self.span_loc(sp);
                        stmts.push(format!(
                            "{{\"k\":\"assign\",\"lhs\":{},\"rv\":{},\"line\":{},\"exp\":{}}}",
                            self.place(body, lhs),
                            self.rvalue(def_id, body, rv),
                            line,
                            self.exp_json(sp)
                        ));
                    }
                    StatementKind::SetDiscriminant { place, variant_index } => {
                        stmts.push(format!(
                            "{{\"k\":\"setdiscr\",\"lhs\":{},\"vidx\":{}}}",
                            self.place(body, place),
                            variant_index.as_usize()
                        ));
                    }
                    StatementKind::Intrinsic(i) => {
                        stmts.push(format!("{{\"k\":\"intrinsic\",\"s\":{}}}", js(&format!("{:?}", i))));
                    }
                    _ => {}
                }
            }
            let term = data.terminator();
            let sp = term.source_info.span;
            let (_, line, col) = self.span_loc(sp);
            let common = format!("\"line\":{},\"col\":{},\"exp\":{}", line, col, self.exp_json(sp));
            let t = match &term.kind {
                TerminatorKind::Goto { target } => {
                    format!("{{\"t\":\"goto\",\"target\":{},{}}}", target.as_usize(), common)
                }
                TerminatorKind::SwitchInt { discr, targets } => {
                    let tv: Vec<String> = targets
                        .iter()
                        .map(|(v, bb)| format!("[{},{}]", js(&v.to_string()), bb.as_usize()))
                        .collect();
                    format!(
                        "{{\"t\":\"switch\",\"d\":{},\"targets\":{},\"otherwise\":{},{}}}",
                        self.operand(def_id, body, discr),
                        jlist(&tv),
                        targets.otherwise().as_usize(),
                        common
                    )
                }
                TerminatorKind::Return => format!("{{\"t\":\"return\",{}}}", common),
                TerminatorKind::Unreachable => format!("{{\"t\":\"unreachable\",{}}}", common),
                TerminatorKind::UnwindResume => format!("{{\"t\":\"resume\",{}}}", common),
                TerminatorKind::UnwindTerminate(_) => format!("{{\"t\":\"terminate\",{}}}", common),
                TerminatorKind::Drop { place, target, unwind, .. } => format!(
                    "{{\"t\":\"drop\",\"p\":{},\"target\":{},\"unwind\":{},{}}}",
                    self.place(body, place),
                    target.as_usize(),
                    self.unwind(unwind),
                    common
                ),
                TerminatorKind::Call { func, args, destination, target, unwind, fn_span, .. } => {
                    let args_j: Vec<String> =
                        args.iter().map(|a| self.operand(def_id, body, &a.node)).collect();
                    let (_, fline, _) = self.span_loc(*fn_span);
                    format!(
                        "{{\"t\":\"call\",\"func\":{},\"args\":{},\"dest\":{},\"target\":{},\"unwind\":{},\"fn_line\":{},{}}}",
                        self.operand(def_id, body, func),
                        jlist(&args_j),
                        self.place(body, destination),
                        target.map(|t| t.as_usize().to_string()).unwrap_or_else(|| "null".into()),
                        self.unwind(unwind),
                        fline,
                        common
                    )
                }
                TerminatorKind::TailCall { func, args, .. } => {
                    let args_j: Vec<String> =
                        args.iter().map(|a| self.operand(def_id, body, &a.node)).collect();
                    format!(
                        "{{\"t\":\"tailcall\",\"func\":{},\"args\":{},{}}}",
                        self.operand(def_id, body, func),
                        jlist(&args_j),
                        common
                    )
                }
                TerminatorKind::Assert { cond, expected, msg, target, unwind } => {
                    let (k, ops): (String, Vec<String>) = match &**msg {
                        AssertKind::BoundsCheck { len, index } => (
                            "BoundsCheck".into(),
                            vec![self.operand(def_id, body, len), self.operand(def_id, body, index)],
                        ),
                        AssertKind::Overflow(op, a, b) => (
                            format!("Overflow({:?})", op),
                            vec![self.operand(def_id, body, a), self.operand(def_id, body, b)],
                        ),
                        AssertKind::OverflowNeg(a) => {
                            ("OverflowNeg".into(), vec![self.operand(def_id, body, a)])
                        }
                        AssertKind::DivisionByZero(a) => {
                            ("DivisionByZero".into(), vec![self.operand(def_id, body, a)])
                        }
                        AssertKind::RemainderByZero(a) => {
                            ("RemainderByZero".into(), vec![self.operand(def_id, body, a)])
                        }
                        other => (format!("{:?}", other), vec![]),
                    };
                    format!(
                        "{{\"t\":\"assert\",\"cond\":{},\"expected\":{},\"kind\":{},\"ops\":{},\"target\":{},\"unwind\":{},{}}}",
                        self.operand(def_id, body, cond),
                        expected,
                        js(&k),
                        jlist(&ops),
                        target.as_usize(),
                        self.unwind(unwind),
                        common
                    )
                }
                TerminatorKind::FalseEdge { real_target, .. } => {
                    format!("{{\"t\":\"goto\",\"target\":{},{}}}", real_target.as_usize(), common)
                }
                TerminatorKind::FalseUnwind { real_target, .. } => {
                    format!("{{\"t\":\"goto\",\"target\":{},{}}}", real_target.as_usize(), common)
                }
                other => format!("{{\"t\":\"other\",\"s\":{},{}}}", js(&format!("{:?}", other)), common),
            };
            blocks.push(format!(
                "{{\"cleanup\":{},\"stmts\":{},\"term\":{}}}",
                data.is_cleanup,
                jlist(&stmts),
                t
            ));
        }
        let _ = write!(o, ",\"blocks\":{}}}", jlist(&blocks));
        Some(o)
    }

    fn alloc_of(&self, id: rustc_middle::mir::interpret::AllocId) -> Option<rustc_middle::mir::interpret::ConstAllocation<'tcx>> {
        match self.tcx.global_alloc(id) {
            rustc_middle::mir::interpret::GlobalAlloc::Memory(a) => Some(a),
            rustc_middle::mir::interpret::GlobalAlloc::Static(did) => self.tcx.eval_static_initializer(did).ok(),
            _ => None,
        }
    }

    /// Decode a constant of type `&[&str; N]` (or `[&str; N]`) into its strings.
    fn decode_str_table(&self, v: mir::ConstValue) -> Option<Vec<String>> {
        use rustc_middle::mir::interpret::Scalar;
        let mut aid = match v {
            mir::ConstValue::Scalar(Scalar::Ptr(p, _)) => p.provenance.alloc_id(),
            mir::ConstValue::Indirect { alloc_id, .. } => alloc_id,
            _ => return None,
        };
        // follow one level of indirection if the allocation is a single thin pointer
        for _ in 0..2 {
            let a = self.alloc_of(aid)?;
            let inner = a.inner();
            if inner.len() == 8 {
                let ptrs = inner.provenance().ptrs();
                if let Some((_, prov)) = ptrs.iter().next() {
                    aid = prov.alloc_id();
                    continue;
                }
            }
            break;
        }
        let a = self.alloc_of(aid)?;
        let inner = a.inner();
        let n = inner.len();
        if n % 16 != 0 {
            return None;
        }
        let raw = inner.inspect_with_uninit_and_ptr_outside_interpreter(0..n);
        let mut out = Vec::new();
        for (off, prov) in inner.provenance().ptrs().iter() {
            let o = off.bytes() as usize;
            if o % 16 != 0 || o + 16 > n {
                return None;
            }
            let mut lenb = [0u8; 8];
            lenb.copy_from_slice(&raw[o + 8..o + 16]);
            let len = u64::from_le_bytes(lenb) as usize;
            let mut offb = [0u8; 8];
            offb.copy_from_slice(&raw[o..o + 8]);
            let start = u64::from_le_bytes(offb) as usize;
            let t = self.alloc_of(prov.alloc_id())?;
            let ti = t.inner();
            if start + len > ti.len() {
                return None;
            }
            let bytes = ti.inspect_with_uninit_and_ptr_outside_interpreter(start..start + len);
            out.push(String::from_utf8_lossy(bytes).to_string());
        }
        if out.len() * 16 != n {
            return None;
        }
        Some(out)
    }

    fn adts_and_consts(&self) -> (Vec<String>, Vec<String>, Vec<String>) {
        let tcx = self.tcx;
        let mut adts = Vec::new();
        let mut consts = Vec::new();
        let mut impls = Vec::new();
        for id in tcx.hir_crate_items(()).definitions() {
            let def_id = id.to_def_id();
            match tcx.def_kind(def_id) {
                DefKind::Struct | DefKind::Enum | DefKind::Union => {
                    let adt = tcx.adt_def(def_id);
                    let kind = if adt.is_enum() {
                        "enum"
                    } else if adt.is_union() {
                        "union"
                    } else {
                        "struct"
                    };
                    let mut variants = Vec::new();
                    for (vidx, v) in adt.variants().iter_enumerated() {
                        let discr = if adt.is_enum() {
                            format!("{}", adt.discriminant_for_variant(tcx, vidx).val)
                        } else {
                            "0".into()
                        };
                        let fields: Vec<String> = v
                            .fields
                            .iter()
                            .map(|f| {
                                let fty = tcx.type_of(f.did).instantiate_identity().skip_norm_wip();
                                let vis = if f.vis.is_public() {
                                    "pub".to_string()
                                } else {
                                    format!("{:?}", f.vis)
                                };
                                format!(
                                    "{{\"name\":{},\"ty\":{},\"vis\":{}}}",
                                    js(&f.name.to_string()),
                                    js(&self.ty_str(fty)),
                                    js(&vis)
                                )
                            })
                            .collect();
                        variants.push(format!(
                            "{{\"name\":{},\"discr\":{},\"fields\":{}}}",
                            js(&v.name.to_string()),
                            js(&discr),
                            jlist(&fields)
                        ));
                    }
                    let vis = tcx.visibility(def_id);
                    let v = if vis.is_public() { "pub".to_string() } else { format!("{:?}", vis) };
                    adts.push(format!(
                        "{{\"path\":{},\"kind\":{},\"vis\":{},\"variants\":{}}}",
                        js(&self.def_path(def_id)),
                        js(kind),
                        js(&v),
                        jlist(&variants)
                    ));
                }
                DefKind::Const { .. } | DefKind::AssocConst { .. } => {
                    let ty = tcx.type_of(def_id).instantiate_identity().skip_norm_wip();
                    let generics = tcx.generics_of(def_id);
                    // an array length written as an expression (`[u8; Self::N as usize]`) is an unevaluated constant in the
                    // declared type: the value printer needs it evaluated
                    let nty = tcx
                        .try_normalize_erasing_regions(TypingEnv::post_analysis(tcx, def_id), rustc_middle::ty::Unnormalized::new_wip(ty))
                        .unwrap_or(ty);
                    let pty = if ty.has_aliases() { nty } else { ty };
                    let mut val = None;
                    if generics.count() == 0 && generics.parent_count == 0 && !pty.has_aliases() {
                        if let Ok(v) = tcx.const_eval_poly(def_id) {
                            val = Some(format!("{}", Const::Val(v, pty)));
                        }
                    }
                    // tables of string literals (`&[&str; N]`): decode the strings
                    let mut strs: Option<Vec<String>> = None;
                    let tys = self.ty_str(ty);
                    if generics.count() == 0 && generics.parent_count == 0 && tys.contains("[&'static str;") {
                        if let Ok(v) = tcx.const_eval_poly(def_id) {
                            strs = self.decode_str_table(v);
                        }
                    }
                    consts.push(format!(
                        "{{\"path\":{},\"ty\":{},\"value\":{},\"strs\":{},\"span\":{}}}",
                        js(&self.def_path(def_id)),
                        js(&tys),
                        jopt(val.map(|v| js(&v))),
                        jopt(strs.map(|v| jlist(&v.iter().map(|x| js(x)).collect::<Vec<_>>()))),
                        js(&self.span_str(tcx.def_span(def_id)))
                    ));
                }
                DefKind::Impl { of_trait } => {
                    let self_ty = tcx.type_of(def_id).instantiate_identity().skip_norm_wip();
                    let tr = if of_trait {
                        let t = tcx.impl_trait_ref(def_id).instantiate_identity().skip_norm_wip();
                        Some(js(&format!("{}", t.print_only_trait_path())))
                    } else {
                        None
                    };
                    let items: Vec<String> = tcx
                        .associated_item_def_ids(def_id)
                        .iter()
                        .map(|d| js(&self.def_path(*d)))
                        .collect();
                    impls.push(format!(
                        "{{\"self_ty\":{},\"trait\":{},\"derived\":{},\"items\":{},\"span\":{}}}",
                        js(&self.ty_str(self_ty)),
                        jopt(tr),
                        tcx.is_automatically_derived(def_id),
                        jlist(&items),
                        js(&self.span_str(tcx.def_span(def_id)))
                    ));
                }
                _ => {}
            }
        }
        (adts, consts, impls)
    }
}

// helper trait: "has a non-region generic parameter" without depending on TypeVisitableExt import details
trait HasParamHack {
    fn has_non_region_param_hack(&self) -> bool;
}
impl<'tcx> HasParamHack for Const<'tcx> {
    fn has_non_region_param_hack(&self) -> bool {
        use rustc_middle::ty::TypeVisitableExt;
        self.has_non_region_param()
    }
}

// ------------------------------------------------------------------------------------
// AST pass: format_args! templates
// ------------------------------------------------------------------------------------
struct FmtVisitor<'a, 'tcx> {
    cx: &'a Cx<'tcx>,
    out: Vec<String>,
}

impl<'a, 'tcx, 'ast> rustc_ast::visit::Visitor<'ast> for FmtVisitor<'a, 'tcx> {
    fn visit_expr(&mut self, e: &'ast rustc_ast::Expr) {
        if let rustc_ast::ExprKind::FormatArgs(fa) = &e.kind {
            let (file, line, col) = self.cx.span_loc(fa.span);
            let mut pieces = Vec::new();
            for p in &fa.template {
                match p {
                    rustc_ast::FormatArgsPiece::Literal(s) => {
                        pieces.push(format!("{{\"lit\":{}}}", js(s.as_str())));
                    }
                    rustc_ast::FormatArgsPiece::Placeholder(ph) => {
                        let idx = match ph.argument.index {
                            Ok(i) => i as i64,
                            Err(_) => -1,
                        };
                        pieces.push(format!(
                            "{{\"arg\":{},\"trait\":{},\"opts\":{}}}",
                            idx,
                            js(&format!("{:?}", ph.format_trait)),
                            js(&format!("{:?}", ph.format_options))
                        ));
                    }
                }
            }
            let nargs = fa.arguments.all_args().len();
            let exp = self.cx.exp_json(fa.span);
            self.out.push(format!(
                "{{\"file\":{},\"line\":{},\"col\":{},\"pieces\":{},\"nargs\":{},\"exp\":{}}}",
                js(&file),
                line,
                col,
                jlist(&pieces),
                nargs,
                exp
            ));
        }
        rustc_ast::visit::walk_expr(self, e);
    }
}

// ------------------------------------------------------------------------------------
struct Facts {
    fmt: Vec<String>,
}

impl rustc_driver::Callbacks for Facts {
    fn after_expansion<'tcx>(
        &mut self,
        _compiler: &rustc_interface::interface::Compiler,
        tcx: TyCtxt<'tcx>,
    ) -> Compilation {
        if std::env::var("RPMFACTS_OUT").is_err() {
            return Compilation::Continue;
        }
        let cx = Cx { tcx };
        let resolver_and_krate = tcx.resolver_for_lowering().borrow();
        let krate = &*resolver_and_krate.1;
        let mut v = FmtVisitor { cx: &cx, out: Vec::new() };
        rustc_ast::visit::walk_crate(&mut v, krate);
        self.fmt = v.out;
        Compilation::Continue
    }

    fn after_analysis<'tcx>(
        &mut self,
        _compiler: &rustc_interface::interface::Compiler,
        tcx: TyCtxt<'tcx>,
    ) -> Compilation {
        let out_dir = match std::env::var("RPMFACTS_OUT") {
            Ok(d) => d,
            Err(_) => return Compilation::Continue,
        };
        let crate_name = tcx.crate_name(LOCAL_CRATE).to_string();
        if let Ok(only) = std::env::var("RPMFACTS_CRATES") {
            if !only.split(',').any(|c| c == crate_name) {
                return Compilation::Continue;
            }
        }
        if tcx.dcx().has_errors().is_some() {
            return Compilation::Continue;
        }
        let cx = Cx { tcx };
        let mut bodies = Vec::new();
        for did in tcx.hir_body_owners() {
            if let Some(b) = cx.body(did) {
                bodies.push(b);
            }
        }
        let (adts, consts, impls) = cx.adts_and_consts();
        let mut o = String::new();
        let _ = write!(
            o,
            "{{\"crate\":{},\"nbodies\":{},\"consts\":{},\"adts\":{},\"impls\":{},\"fmt\":{},\"bodies\":{}}}",
            js(&crate_name),
            bodies.len(),
            jlist(&consts),
            jlist(&adts),
            jlist(&impls),
            jlist(&self.fmt),
            jlist(&bodies)
        );
        let path = format!("{}/{}.json", out_dir, crate_name);
        let tmp = format!("{}.tmp{}", path, std::process::id());
        std::fs::write(&tmp, o).expect("rpmfacts: cannot write fact file");
        std::fs::rename(&tmp, &path).expect("rpmfacts: cannot rename fact file");
        Compilation::Continue
    }
}

fn main() {
    // invoked as: rpmfacts <path-to-rustc> <rustc args...>
    let mut args: Vec<String> = std::env::args().collect();
    if args.len() >= 2 {
        args.remove(1); // drop the rustc path; args[0] stays as the program name
    }
    let mut cb = Facts { fmt: Vec::new() };
    rustc_driver::run_compiler(&args, &mut cb);
}
