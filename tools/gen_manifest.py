#!/usr/bin/env python3
"""Regenerate MANIFEST.json from the table below (single source of truth for claims)."""
import json, os
HERE = os.path.dirname(os.path.dirname(os.path.abspath(__file__)))

TRUST = ("Trusted: rustc nightly's MIR construction and callee resolution for /repo as built by cargo with the "
         "analysed feature sets; the pass-through summary table (rules/engine.py) and the oracle tables under rules/; "
         "behaviour of std and third-party crates behind the call sites. The check decides the structural clauses "
         "listed, which are necessary conditions of the property, not the whole behavioural statement.")

CLAIMS = {
 "C14": dict(cat="other", design="DESIGN.md §2 C14",
   text="Static write/read-discipline audit over the MIR of the serialisation and parse cones: no dropped io::Write::write count (write_all or retry loop only), every Result propagated, in-crate Write/Read adapters forward the inner count, input consumed only via read_exact/read_to_end; an adapter's own counters advance after and by the inner count; the Result of every emission call is propagated on the spot (no `and`/fold over emission results), so a failed write ends the emission. Universal over all sinks/sources because it speaks about every call site on the cone; it does not compute the bytes.",
   technique="MIR call-site audit on call-graph cones (who-may-call + result-discipline dataflow)"),
 "C18": dict(cat="proof", design="DESIGN.md §2 C18",
   text="Complete abstract evaluation (bit-vector domain over 16/32 symbolic input bits, equality-switch refinement, interval predicates) of every FileMode conversion body in MIR; each obligation is discharged for all 65 536 words and all i32 values at once because every path of every body is enumerated in the abstract domain. A body that leaves the domain is reported, never passed.",
   technique="abstract interpretation of MIR over a symbolic bit-vector domain (complete path enumeration)",
   note="Trusted: rustc nightly MIR construction; soundness of rules/absint.py's bit-vector domain; POSIX S_IF* constants. No runtime execution of /repo code."),
 "C20": dict(cat="proof", design="DESIGN.md §2 C20",
   text="Complete abstract evaluation of both TryFrom impls for Timestamp (closures inlined, Result combinators / duration_since / as_secs / chrono timestamp / checked narrowing modelled symbolically): the derived (instant range -> result) table must equal {before epoch -> Underflow, 0..=u32::MAX -> Ok(secs), beyond -> Overflow}; plus derived-ordering and use-site propagation checks. Any panic-capable construct or unmodelled call leaves the domain and is reported.",
   technique="abstract interpretation of MIR with symbolic interval predicates; impl-table check",
   note="Trusted: rustc nightly MIR; the std/chrono call models in rules/c20.py (duration_since, as_secs, timestamp, TryInto<u32>) and the Result plumbing models in rules/absint.py; exactness of std/chrono arithmetic."),
 "C02": dict(cat="other", design="DESIGN.md §2 C02",
   text="Path-sensitive reachability over verify_signature's MIR with a finite predicate abstraction (discriminant/is_ok/is_empty facts, first-iteration lemma): no abstract state returns Ok(()) without a Verifying::verify call and a propagated verify_digests; each verify call's verdict is binding and its signature/data arguments have the provenance the coverage table requires (header, header++payload for the legacy PGP tag); the pgp verifier's Ok returns are dominated by pgp::Signature::verify's Ok. Universal over all signature-header shapes and verifier verdict patterns; cryptographic soundness and the 'any modification is rejected' consequence are not decided.",
   technique="path-sensitive dataflow on MIR (predicate abstraction) + provenance terms + dominance"),
 "C03": dict(cat="other", design="DESIGN.md §2 C03",
   text="Every PartialEq comparison in verify_digests is classified by the tag getter feeding its declared side and a provenance term of the recomputed side (algorithm, hashed byte ranges in order); polarity, the mismatch edge's error, must-pass-through of the equal edge when the tag is present, the algorithm arm table and the closed set of error exits are decided on the CFG. Decides the structure of the iff for all packages; digest values are not computed.",
   technique="provenance terms + CFG must-pass-through / edge-removal reachability + arm tables"),
 "C08": dict(cat="other", design="DESIGN.md §2 C08",
   text="Provenance terms for every digest-carrying value on the build/sign/clear paths are compared with the oracle table (header SHA-256 of the very header stored, payload digest of the returned payload, alternate digest of the hashing writer around the compressor, file digest of the stored content); who-may-write rules ensure all archive bytes (entries and trailer) pass the hashing writer and nothing else writes into the compressor; the hashing io::Write adapter must hash exactly buf[..n] for the n the inner writer accepted and return that n. Decides provenance and ordering for all configurations, not digest values.",
   technique="provenance terms + who-may-write (mutable-borrow audit) + adapter dataflow rule"),
 "C10": dict(cat="other", design="DESIGN.md §2 C10",
   text="Effect footprint of sign/sign_with_timestamp/clear_signatures (every assignment and mutable borrow rooted at self) is exactly {metadata.signature}; the new signature header's provenance is SignatureHeaderBuilder::new() plus digest (plus the fresh signature) with nothing of the old header; the OpenPGP-algorithm -> legacy tag arm table and the issuer-count guard's operand provenance in signature_key_ids (both branches) are checked. These make header/payload immutable under any history and forbid stale signatures; which key verifies is a runtime/crypto question and is not decided.",
   technique="effect-footprint analysis + provenance terms + arm-table extraction"),
 "C04": dict(cat="other", design="DESIGN.md §2 C04",
   text="Complete audit of every panic-/abort-capable or allocating MIR construct (Assert terminators incl. overflow and bounds checks, unwrap/expect/panic/indexing/slice-precondition calls, allocation calls) on the call-graph cone of the read-side API. Each site must be discharged by an interval/guard argument, by infeasibility under a predicate abstraction, or by a reviewed allow-list entry whose precondition is re-checked mechanically; any other site - in particular any new one - is a violation. Also: loops over a decoded count must fail or consume input each iteration. Universal over all inputs because it covers every site; panics inside dependencies are trusted.",
   technique="call-graph cone + panic-site enumeration + interval/guard dataflow + predicate-abstraction infeasibility + checked allow-list"),
 "C17": dict(cat="other", design="DESIGN.md §2 C17",
   text="Same site audit as C04 over the cone of all public builder-side entry points, plus an abstract evaluation of Compressor::try_from per CompressionWithLevel variant with a symbolic level showing every path to flate2/liblzma/bzip2 constructors implies their accepted level range, plus result-discipline rules for Path decomposition in add_data and the capability error mapping. Three genuine panics (try_into().unwrap() on caller-supplied timestamps) are recorded as known findings.",
   technique="panic-site audit (as C04) + abstract interpretation with interval predicates for external partial functions"),
 "C12": dict(cat="other", design="DESIGN.md §2 C12",
   text="Taint-to-sink audit of Package::extract over MIR: every filesystem-modifying call on its cone is enumerated; the provenance term of its path argument must be the target itself or the Ok payload of the containment function applied to (target, package path); the containment function's Component arm table (.. and prefix -> error, only Normal names pushed), its who-may-write set and its symlink refusal (conditional on nothing but is-symlink and not-last) are checked; follow-capable calls on the final path must be dominated by symlink removal; panic-site audit of the cone; per-file-type arm table against the oracle. Universal over hostile packages because it covers every sink; filesystem races are out of scope.",
   technique="taint-to-sink provenance audit + sanitiser arm table + dominance + panic-site audit"),
 "C11": dict(cat="other", design="DESIGN.md §2 C11",
   text="Determinism-source audit over the MIR call-graph cone of PackageBuilder::build/build_and_sign: no iteration or Debug-formatting of a HashMap/HashSet (type-resolved from callee receiver types), a closed table of ambient inputs (only Timestamp::now at the two clamped sites), and for build time, per-file mtime and signature time the min(source_date, value) pattern with branch polarity plus consumer provenance being the clamped local. Universal over all runs/processes because it removes every seed- or clock-dependent source from the path; determinism inside compressors and pgp is trusted (with the zstdmt feature the CPU count may only become the zstd worker count, on which the frames do not depend).",
   technique="type-resolved call-site audit on the build cone + clamp-pattern dataflow with polarity"),
 "C15": dict(cat="other", design="DESIGN.md §2 C15",
   text="Formatter/parser table agreement: CompressionType's Display (variant, literal) rows are looked up in FromStr's (literal, variant) rows; separators of the Evr/Nevra format templates (from the expanded AST) are compared with the characters the parsers split on; boundaries whose left part may contain the separator must be searched from the right (the left split of the NEVRA name is a recorded known finding); the normalised form's epoch operand is \"0\" exactly on the is_empty branch; panic-site audit of the parsing functions. Structural necessary conditions of the round trip, not the value-level equality.",
   technique="arm-table extraction + AST format-template join + provenance of split receivers + panic-site audit"),
 "C19": dict(cat="other", design="DESIGN.md §2 C19",
   text="Loop-invariance rule (every rejecting branch in the per-clause loop must be data-dependent on the clause), validation-dominates-construction with verbatim storage for every FileCaps construction, operator/flag character switch tables and the capability-name constant (decoded from the compiled constant) against the oracle, error mapping, and a panic-site audit of the validator. The accept/reject verdict of the suffix validator is decided by abstract evaluation of its MIR on a symbolic text of up to four characters (every path's constraints compared with the grammar for every class assignment they allow; falls back to the structural switch tables when the body leaves the domain). Decides the structural clauses for all strings and the suffix verdict for all texts up to four characters; exact language equality of the whole grammar is not decided.",
   technique="loop-invariant-guard dataflow + dominance + switch-table / constant-table extraction"),
 "C01": dict(cat="other", design="DESIGN.md §2 C01",
   text="Sibling agreement between every parser and its writer over MIR: decoder chains (static widths) and write_all operands are compared slot by slot with each other and with the rpm format oracle; every consumed slot is stored in the field the writer replays, or replaced by a constant after a guard over all its bytes, or is a permitted difference; write_index emits only raw index fields; type-code tables compose to the identity; the store is the untouched remainder; one padding function, tabulated over all 8 residues by abstract evaluation. These are the structural necessary conditions of the byte-for-byte round trip for every accepted input.",
   technique="sibling wire-sequence extraction + provenance terms + arm tables + residue tabulation (abstract interpretation)"),
 "C16": dict(cat="proof", design="DESIGN.md §2 C16",
   text="Structural proof that the reported offsets equal the byte counts PackageMetadata::write emits before each segment: static widths of every write_all operand summed per writer and matched with the coefficients of the size()/offset linear forms extracted from MIR; every Header construction/mutation site keeps num_entries == index_entries.len() and data_section_size == store.len(); writer and offsets call the same padding function; composition order equals offset order. All obligations are discharged on every run or the check fails.",
   technique="width summation + linear-form extraction + who-may-write size invariant + dominance",
   note="Trusted: rustc nightly MIR; Write::write_all contract; Vec::len/push semantics; absence of u32 overflow for parsed headers (established by Header::parse's checked arithmetic, re-checked by C04's allow-list precondition)."),
 "C05": dict(cat="other", design="DESIGN.md §2 C05",
   text="Table extraction over MIR against oracle tables: per-type arm table of the store decoder (decoder, width, count, NUL terminator), the variant sets each typed getter accepts, the (tag, getter) pairs of every public accessor through the helper functions and constant tag triples (rpm tag table), and the field-by-field provenance of Dependency / Scriptlet / ChangelogEntry / FileEntry values through zip positions; each string-list loop must step over the terminator. Decides that every accessor reads the right tag with the right type and position for every header.",
   technique="arm-table / switch-table extraction + provenance terms through zip positions + oracle join"),
 "C06": dict(cat="other", design="DESIGN.md §2 C06",
   text="Field-flow completeness and table agreement: every field of the builder state and of per-file / scriptlet / dependency records must occur in the provenance of a header entry or archive write; each (field, tag, data type) row at the IndexEntry::new sites must equal the oracle and be of a type the matching accessor's getter accepts; no reordering call on list inputs; exactly one push per per-file vector per file in the single file loop. The row of an optional field (vendor ... cookie, scriptlets) may be gated by one test only, that this field is set; every path to a file entry establishes the trailing '/' of its directory name (format template, ends_with test or push). Other value-level path arithmetic is not decided.",
   technique="field def/use over provenance terms + table join with C05's accessor table + loop dominance"),
 "C07": dict(cat="other", design="DESIGN.md §2 C07",
   text="The metadata handed out with each archive entry must be selected through the entry's own identity (cpio name predicate or stripped file index); the newc header writer's field sequence and the reader's decoder sequence are compared positionally with each other and with the format oracle incl. all paddings; stripped-entry agreement; size source and read limit; single unconditional trailer with a shared constant; per-compression-type codec table (encoder, decoder, finish, header string, parser key).",
   technique="provenance terms + sibling sequence extraction + arm tables"),
 "C09": dict(cat="other", design="DESIGN.md §2 C09",
   text="Layout-algorithm and constant-table rules: every emitted header comes from from_entries; the tag sort dominates the layout loop and its comparator orders by tag; no tag is emitted twice on one path; per-type alignment / terminator / count arm tables; region tag provenance and placement; lead constants; rpmlib() requirement rows with their guarding conditions; cpio entry name/mode/size provenance - all against oracle tables from rpm's format documentation. Numeric non-overlap of offsets is not re-derived beyond the per-type table.",
   technique="dominance + arm-table extraction + provenance terms + oracle tables"),
}

NA = {
 "C13": "Equality of compare_version_string with rpmvercmp and order axioms over all string pairs/triples is algorithmic equivalence over runtime values; no pairing, footprint, table or finite-domain argument decides it and a shape rule would fire on behaviour-preserving rewrites. Needs enumeration or a solver (other technique families).",
}
PENDING = "rule module not yet built in this round (static design exists in DESIGN.md §3); not claimed until its check runs"

def main():
    props = [json.loads(l) for l in open(os.path.join(HERE, "properties.jsonl"))]
    checks = []
    na = []
    for p in props:
        pid = p["id"]
        if pid in CLAIMS:
            c = CLAIMS[pid]
            checks.append({
                "property_id": pid,
                "quick_cmd": "./check %s --tier quick" % pid,
                "thorough_cmd": "./check %s --tier thorough" % pid,
                "evidence_file": "/verif/evidence/%s.json" % pid,
                "replay_cmd_template": "./check %s --replay {path}" % pid,
                "engine": "rpmfacts+rules",
                "level_claimed": {"category": c["cat"], "text": c["text"], "design_ref": c["design"]},
                "level_note": c.get("note", TRUST),
                "technique": c["technique"],
            })
        else:
            na.append({"property_id": pid, "reason": NA.get(pid, PENDING)})
    m = {
        "version": 1,
        "setup_cmd": "cd /verif/driver && CARGO_NET_OFFLINE=true cargo build --release --offline && cd /verif && python3 rules/facts.py default+bzip2 default",
        "hooks": {
            "guard": "rpm_rs_rpm_verif",
            "enable": "RUSTFLAGS=--cfg rpm_rs_rpm_verif (set by rules/facts.py when it runs the driver; no source in /repo is guarded by it - the analysis needs no instrumentation)",
            "baseline_off_cmd": "cd /repo && cargo test --workspace --no-fail-fast --offline",
            "source_commits": [],
            "add_only": True,
        },
        "engines": [
            {"name": "rpmfacts", "path": "/verif/driver", "serves_properties": sorted(CLAIMS), "kind_free_text": "rustc_private driver (nightly) injected with RUSTC_WORKSPACE_WRAPPER under cargo +nightly check; dumps MIR bodies, resolved callees, constants, ADTs, impls and format_args templates of /repo as JSON facts"},
            {"name": "rules", "path": "/verif/rules", "serves_properties": sorted(CLAIMS), "kind_free_text": "Python rule engine over the facts: CFG/dominators, def-use, provenance tracing, call-graph cones, taint, product-state exploration, abstract evaluation; one module per property"},
        ],
        "checks": checks,
        "not_applicable": na,
        "notes": "Technique family: static analysis only. Every check rebuilds facts from /repo's working tree (cached by content hash). exit 2 = infrastructure failure (tree does not compile).",
    }
    with open(os.path.join(HERE, "MANIFEST.json"), "w") as fh:
        json.dump(m, fh, indent=1)
    print("MANIFEST.json: %d checks, %d not_applicable" % (len(checks), len(na)))

if __name__ == "__main__":
    main()
