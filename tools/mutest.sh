#!/bin/bash
# usage: mutest.sh <patch-file> <Cxx> [more props...]  -- apply a patch to /repo, run checks, revert
# evidence written while the patch is applied is discarded (the evidence dir is restored afterwards)
set -u
P=$1; shift
cd /repo || exit 2
if ! git diff --quiet; then echo "repo dirty, refusing"; exit 2; fi
git apply "$P" || { echo "patch does not apply"; exit 2; }
SAVE=$(mktemp -d)
cp -a /verif/evidence/. "$SAVE"/ 2>/dev/null
for c in "$@"; do
  (cd /verif && ./check $c 2>&1 | grep -v "WARNING conda" | grep -E "VIOLATION|finding|KNOWN|INFRA|obligations" | head -${MUT_LINES:-8})
done
git checkout -- .
rm -rf /verif/evidence; mkdir -p /verif/evidence; cp -a "$SAVE"/. /verif/evidence/; rm -rf "$SAVE"
