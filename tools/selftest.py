#!/usr/bin/env python3
"""Self-validation of the checkers against the mutant corpus (/verif/mutants).

For every patch: copy /repo's working tree to a scratch directory outside /repo and /verif, apply the patch
there, build facts for the scratch copy and run the property's rule module on them.  A `violation` mutant must
produce at least one finding that is not a listed known finding; a `benign` variant must produce none for any
property.  The scratch copy and its build output are removed afterwards.  Never touches /repo.
"""
import argparse, importlib, json, os, shutil, subprocess, sys, tempfile, time
HERE = os.path.dirname(os.path.dirname(os.path.abspath(__file__)))
sys.path.insert(0, os.path.join(HERE, "rules"))
import facts as factsmod
from engine import Facts, AnchorLost
from framework import Report, load_known

ALL = ["C01", "C02", "C03", "C04", "C05", "C06", "C07", "C08", "C09", "C10", "C11", "C12", "C14", "C15", "C16", "C17", "C18", "C19", "C20"]


def scratch_copy():
    d = tempfile.mkdtemp(prefix="rpm-scratch-")
    subprocess.check_call(["rsync", "-a", "--exclude", "target", "--exclude", ".git", "/repo/", d + "/"])
    return d


def run_rules(pid, f, fixture, cfg="default+bzip2"):
    mod = importlib.import_module(pid.lower())
    rep = Report(pid, "thorough")
    try:
        mod.run(f, fixture, rep, cfg, "thorough")
    except AnchorLost as e:
        rep.finding("anchor", "anchor-lost|%s" % e, str(e))
    except Exception as e:
        rep.finding("anchor", "checker-error|%s" % type(e).__name__, "%s: %s" % (type(e).__name__, e))
    known = {k["key"] for k in load_known().get("known", [])}
    return [fd for fd in rep.findings if fd["key"] not in known]


def evaluate(patch_rel, props, fixture, cache):
    """-> dict(status, per-property findings)"""
    patch = os.path.join(HERE, "mutants", patch_rel)
    d = scratch_copy()
    try:
        r = subprocess.run(["git", "apply", "--unsafe-paths", "--directory", d, patch], cwd="/", capture_output=True, text=True)
        if r.returncode != 0:
            r = subprocess.run(["patch", "-p1", "-s", "-i", patch], cwd=d, capture_output=True, text=True)
            if r.returncode != 0:
                return {"status": "skipped", "why": "patch does not apply to the current tree"}
        out = {p: [] for p in props}
        for cfg in factsmod.QUICK_CONFIGS:       # what the quick tier analyses
            try:
                fact, info = factsmod.build_facts(cfg, repo=d, cache=cache, scratch=True)
            except factsmod.InfraError as e:
                return {"status": "skipped", "why": "variant does not compile (%s): %s" % (cfg, str(e)[-200:])}
            f = Facts(fact)
            for p in props:
                for fd in run_rules(p, f, fixture, cfg):
                    if fd["key"] not in out[p]:
                        out[p].append(fd["key"])
        return {"status": "ran", "findings": out}
    finally:
        shutil.rmtree(d, ignore_errors=True)


def main():
    ap = argparse.ArgumentParser()
    ap.add_argument("--props", nargs="*", default=None)
    ap.add_argument("--benign", action="store_true")
    ap.add_argument("--only", default=None, help="substring filter on patch paths")
    ap.add_argument("--out", default=os.path.join(HERE, "mutants", "results.json"))
    a = ap.parse_args()
    idx = json.load(open(os.path.join(HERE, "mutants", "index.json")))
    fixture = Facts(factsmod.build_fixture_facts())
    cache = os.path.join(HERE, ".cache")
    results = []
    t0 = time.time()
    for m in idx:
        if a.props and m["property"] not in a.props:
            continue
        if a.only and (a.only not in m["patch"]):
            continue
        r = evaluate(m["patch"], [m["property"]], fixture, cache)
        det = r["status"] == "ran" and bool(r["findings"][m["property"]])
        results.append({"patch": m["patch"], "property": m["property"], "kind": m["kind"], "status": r["status"], "detected": det,
                        "findings": (r.get("findings") or {}).get(m["property"], [])[:6], "why": r.get("why")})
        print("%-58s %-4s %s" % (m["patch"], m["property"], "DETECTED" if det else r["status"].upper() if r["status"] != "ran" else "MISSED"), flush=True)
    if a.benign or not a.props:
        bdir = os.path.join(HERE, "mutants", "benign")
        for fn in sorted(os.listdir(bdir)):
            if not fn.endswith(".diff") or (a.only and a.only not in "benign/" + fn):
                continue
            r = evaluate("benign/" + fn, ALL, fixture, cache)
            noisy = {p: ks for p, ks in (r.get("findings") or {}).items() if ks}
            results.append({"patch": "benign/" + fn, "kind": "benign", "status": r["status"], "silent": r["status"] == "ran" and not noisy, "noisy": noisy, "why": r.get("why")})
            print("%-58s %-4s %s" % ("benign/" + fn, "all", "SILENT" if not noisy and r["status"] == "ran" else (r["status"].upper() if r["status"] != "ran" else "FALSE-ALARM %s" % noisy)), flush=True)
    shutil.rmtree(os.path.join(cache, "target-scratch-default+bzip2"), ignore_errors=True) if os.environ.get("SELFTEST_CLEAN") else None
    summary = {"mutants": sum(1 for r in results if r["kind"] != "benign"), "detected": sum(1 for r in results if r.get("detected")),
               "skipped": sum(1 for r in results if r["status"] == "skipped"), "benign": sum(1 for r in results if r["kind"] == "benign"),
               "benign_silent": sum(1 for r in results if r.get("silent")), "wall_s": round(time.time() - t0, 1)}
    json.dump({"summary": summary, "results": results}, open(a.out, "w"), indent=1)
    print(json.dumps(summary))


if __name__ == "__main__":
    main()
