#!/usr/bin/env python3
"""Confirm a seeded change and record which checks catch it.

usage: seed_eval.py <seeded/<id> dir>   (expects patch.diff, demo.rs [first line: `// place at <path>`], meta.json)

1. in a scratch git worktree of /repo (outside /repo and /verif): the demonstration passes on the unchanged code,
   fails with the patch, and the pinned suite still passes with the patch;
2. on a scratch *copy* with the patch: run every rule module and record the findings (never touches /repo).
Writes <dir>/evaluation.json and removes the worktree with its build output.
"""
import json, os, re, shutil, subprocess, sys, tempfile
HERE = os.path.dirname(os.path.dirname(os.path.abspath(__file__)))
sys.path.insert(0, os.path.join(HERE, "rules"))
sys.path.insert(0, os.path.join(HERE, "tools"))
import facts as factsmod
from engine import Facts
import selftest


def sh(cmd, cwd, env=None, timeout=1800):
    e = dict(os.environ, CARGO_NET_OFFLINE="true")
    if env:
        e.update(env)
    r = subprocess.run(cmd, cwd=cwd, shell=True, capture_output=True, text=True, env=e, timeout=timeout)
    return r.returncode, (r.stdout + r.stderr)[-4000:]


def main():
    d = os.path.abspath(sys.argv[1])
    patch = os.path.join(d, "patch.diff")
    demo = os.path.join(d, "demo.rs")
    first = open(demo).readline()
    m = re.search(r"place at (\S+)", first)
    place = m.group(1) if m else "tests/seeded_demo.rs"
    wt = tempfile.mkdtemp(prefix="seed-wt-")
    os.rmdir(wt)
    out = {"patch": os.path.relpath(patch, HERE), "demo_place": place}
    rules_only = "--rules-only" in sys.argv and os.path.exists(os.path.join(d, "evaluation.json"))
    if rules_only:
        # the demonstration was confirmed before (recorded in evaluation.json); only re-run the rules
        out = json.load(open(os.path.join(d, "evaluation.json")))
    try:
        if rules_only:
            raise StopIteration
        subprocess.check_call(["git", "-C", "/repo", "worktree", "add", "-q", "--detach", wt, "HEAD"])
        tgt = os.path.join(wt, "target")
        env = {"CARGO_TARGET_DIR": tgt}
        dst = os.path.join(wt, place)
        os.makedirs(os.path.dirname(dst), exist_ok=True)
        if place.startswith("src/"):
            # unit-test demo appended to a source file
            with open(dst, "a") as fh:
                fh.write("\n" + open(demo).read())
            test_cmd = "cargo test --offline --lib 2>&1 | tail -15"
        else:
            shutil.copy(demo, dst)
            name = os.path.splitext(os.path.basename(place))[0]
            test_cmd = "cargo test --offline --test %s 2>&1 | tail -15" % name
        rc0, o0 = sh(test_cmd, wt, env)
        out["demo_passes_unchanged"] = "test result: ok" in o0 and "FAILED" not in o0
        rc, o = sh("git apply %s" % patch, wt)
        out["patch_applies"] = rc == 0
        rc1, o1 = sh(test_cmd, wt, env)
        out["demo_fails_with_patch"] = ("FAILED" in o1 or "panicked" in o1 or "error" in o1.lower()) and "test result: ok" not in o1.split("Running")[-1]
        out["demo_output_tail"] = o1[-600:]
        # the pinned suite (everything except the demo) with the patch
        if not place.startswith("src/"):
            os.remove(dst)
        else:
            sh("git checkout -- %s" % place, wt)
            sh("git apply %s" % patch, wt)
        rc2, o2 = sh("cargo test --workspace --no-fail-fast --offline 2>&1 | grep -E '^test result|FAILED' ", wt, env)
        out["suite_passes_with_patch"] = "FAILED" not in o2 and "test result: ok" in o2
        out["suite_tail"] = o2[-400:]
    except StopIteration:
        pass
    finally:
        if not rules_only:
            subprocess.call(["git", "-C", "/repo", "worktree", "remove", "--force", wt])
        shutil.rmtree(wt, ignore_errors=True)
        subprocess.call(["git", "-C", "/repo", "worktree", "prune"])
    # rules on a scratch copy
    fixture = Facts(factsmod.build_fixture_facts())
    rel = os.path.relpath(patch, os.path.join(HERE, "mutants"))
    r = selftest.evaluate(rel, selftest.ALL, fixture, os.path.join(HERE, ".cache"))
    out["rules_status"] = r["status"]
    out["caught_by"] = {p: ks[:5] for p, ks in (r.get("findings") or {}).items() if ks}
    json.dump(out, open(os.path.join(d, "evaluation.json"), "w"), indent=1)
    print(json.dumps({k: v for k, v in out.items() if k not in ("demo_output_tail", "suite_tail")}, indent=1))


if __name__ == "__main__":
    main()
