#!/bin/bash
# run every claimed check on the current tree and validate evidence + manifest
cd /verif
TIER=${1:-quick}
rc=0
for id in $(python3 -c "import json;print(' '.join(c['property_id'] for c in json.load(open('MANIFEST.json'))['checks']))"); do
  out=$(./check $id --tier $TIER 2>&1 | grep -v "WARNING conda"); r=$?
  echo "$out" | tail -1
  if echo "$out" | grep -q "VIOLATION\|INFRASTRUCTURE"; then rc=1; echo "$out" | grep -E "finding|VIOLATION|INFRA" | head -10; fi
done
python3-vt - <<'PY'
import json, jsonschema, sys
m = json.load(open('MANIFEST.json'))
jsonschema.validate(m, json.load(open('/root/.vp/MANIFEST.schema.json')))
es = json.load(open('/root/.vp/EVIDENCE.schema.json'))
bad = 0
for c in m['checks']:
    e = json.load(open(c['evidence_file']))
    jsonschema.validate(e, es)
    if e['level'] != c['level_claimed']['category']:
        print('LEVEL MISMATCH', c['property_id'], e['level'], c['level_claimed']['category']); bad += 1
    if e['level'] == 'proof' and e['coverage']['obligations'] != e['coverage']['discharged']:
        print('PROOF NOT COMPLETE', c['property_id']); bad += 1
print('manifest+evidence valid' if not bad else 'PROBLEMS: %d' % bad)
PY
exit $rc
