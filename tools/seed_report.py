#!/usr/bin/env python3
"""Regenerate seeded/RESULTS.md from seeded/*/meta.json and evaluation.json."""
import json, os, glob
HERE = os.path.dirname(os.path.dirname(os.path.abspath(__file__)))
rows = []
for d in sorted(glob.glob(os.path.join(HERE, "seeded", "*", ""))):
    mp, ep = os.path.join(d, "meta.json"), os.path.join(d, "evaluation.json")
    if not (os.path.exists(mp) and os.path.exists(ep)):
        continue
    m, e = json.load(open(mp)), json.load(open(ep))
    sid = os.path.basename(d.rstrip("/"))
    pid = sid.split("-")[0]
    caught = e.get("caught_by", {})
    own = caught.get(pid, [])
    others = sorted(k for k in caught if k != pid)
    rows.append((sid, m.get("what", "")[:170].replace("|", "/").replace("\n", " "), m.get("first_result", "?"),
                 ", ".join(k.split("|", 1)[1] for k in own[:3]) or "-", ", ".join(others) or "-",
                 "yes" if (e.get("demo_passes_unchanged") and e.get("demo_fails_with_patch") and e.get("suite_passes_with_patch")) else "NO"))
with open(os.path.join(HERE, "seeded", "RESULTS.md"), "w") as fh:
    fh.write("# Seeded changes written by independent sub-agents (property text + scratch worktree only)\n\n")
    fh.write("`confirmed` = demonstration passes on the unchanged tree, fails with the patch, pinned suite passes with the patch (re-checked by tools/seed_eval.py in a scratch worktree).\n")
    fh.write("`first result` = what the rules said when the change was first received; `now` = findings of the property's own check / other checks today.\n\n")
    fh.write("| id | change | confirmed | first result | now: own check (rule keys) | now: other checks |\n|---|---|---|---|---|---|\n")
    for r in rows:
        fh.write("| %s | %s | %s | %s | %s | %s |\n" % (r[0], r[1], r[5], r[2], r[3], r[4]))
    n = len(rows)
    own_now = sum(1 for r in rows if r[3] != "-")
    fh.write("\n%d changes; caught by the property's own check today: %d; caught by some check: %d.\n" % (n, own_now, sum(1 for r in rows if r[3] != "-" or r[4] != "-")))
print("wrote", len(rows), "rows")
