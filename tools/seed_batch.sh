#!/bin/bash
# usage: seed_batch.sh <glob of seeded dirs...>  - full evaluation (demo confirmation + rules) of each, 3 in parallel, one summary line each
cd /verif
printf '%s\n' "$@" | xargs -P 3 -I{} sh -c 'python3 tools/seed_eval.py {} > /tmp/seedeval_$(basename {}).log 2>&1'
for d in "$@"; do n=$(basename $d); f=/tmp/seedeval_$n.log; grep -v WARNING $f | python3 -c "
import sys,json
try:
    d=json.load(sys.stdin)
    ok=all(d[k] for k in ('demo_passes_unchanged','demo_fails_with_patch','suite_passes_with_patch'))
    print('$n', 'confirmed' if ok else 'UNCONFIRMED %s'%{k:d[k] for k in ('demo_passes_unchanged','demo_fails_with_patch','suite_passes_with_patch')}, {k:v[:2] for k,v in d['caught_by'].items()})
except Exception as e: print('$n ERR',e)
" | cut -c1-330; rm -f $f; done
python3 - <<'PY'
import json,os,glob
for d in sorted(glob.glob('/verif/seeded/*/')):
    mp=d+'meta.json'; ep=d+'evaluation.json'
    if not os.path.exists(ep) or not os.path.exists(mp): continue
    m=json.load(open(mp)); e=json.load(open(ep))
    pid=m.get('property') or os.path.basename(d.rstrip('/'))[:3]
    if 'first_result' not in m:
        own = pid in e['caught_by']
        m['first_result'] = ('caught by %s' % ', '.join(sorted(e['caught_by']))) if e['caught_by'] else 'missed by every check'
        m['first_result_own_property'] = own
        json.dump(m,open(mp,'w'),indent=1)
PY
