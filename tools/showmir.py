#!/usr/bin/env python3
"""Debug helper: print a compact rendering of MIR facts for bodies matching a regex."""
import sys, json, os, re
sys.path.insert(0, os.path.join(os.path.dirname(os.path.dirname(os.path.abspath(__file__))), 'rules'))
import facts as F
from engine import Facts, place_str
def opstr(o, b):
    if 'c' in o: return place_str(o['c'], None)
    if 'm' in o: return 'move ' + place_str(o['m'], None)
    k = o.get('k', {})
    return 'const ' + (k.get('ev') or k.get('s', '?'))
def rvstr(rv, b):
    r = rv['r']
    if r == 'use': return opstr(rv['o'], b)
    if r == 'ref': return ('&mut ' if rv['mut'] else '&') + place_str(rv['p'])
    if r == 'bin': return '%s(%s, %s)' % (rv['op'], opstr(rv['a'], b), opstr(rv['b'], b))
    if r == 'un': return '%s(%s)' % (rv['op'], opstr(rv['a'], b))
    if r == 'cast': return '%s as %s [%s]' % (opstr(rv['o'], b), rv['ty'], rv['ck'])
    if r == 'agg':
        nm = rv.get('adt', rv['ak']) + ('::' + rv['variant'] if 'variant' in rv else '')
        return '%s{%s}' % (nm, ', '.join(opstr(o, b) for o in rv['ops']))
    if r == 'discr': return 'discr(%s)' % place_str(rv['p'])
    if r == 'repeat': return '[%s; %s]' % (opstr(rv['o'], b), rv['n'])
    return json.dumps(rv)[:200]
def show(b, locals_=True):
    print('==', b.path, 'blocks', len(b.blocks), b.span)
    if locals_:
        for i, l in enumerate(b.locals): print('   _%d: %s %s' % (i, l['ty'][:120], l['name'] or ''))
    for i, bl in enumerate(b.blocks):
        if bl['cleanup']: continue
        for s in bl['stmts']:
            if s['k'] == 'assign':
                print('  bb%d  %s = %s   %s' % (i, place_str(s['lhs']), rvstr(s['rv'], b), ','.join(s['exp'])))
            else: print('  bb%d  %s' % (i, json.dumps(s)[:200]))
        t = bl['term']
        if t['t'] == 'call':
            fn = (t['func'].get('k') or {}).get('fn')
            nm = fn['full'] if fn else opstr(t['func'], b)
            r = fn.get('r', {}).get('path') if fn else None
            print('  bb%d  %s = CALL %s%s (%s) -> bb%s  L%d %s' % (i, place_str(t['dest']), nm[:160], ' ~> ' + r if r and r != fn['path'] else '', ', '.join(opstr(a, b) for a in t['args']), t['target'], t['line'], ','.join(t['exp'])))
        elif t['t'] == 'switch':
            print('  bb%d  switch %s %s else bb%d' % (i, opstr(t['d'], b), t['targets'], t['otherwise']))
        elif t['t'] == 'assert':
            print('  bb%d  assert %s==%s %s(%s) -> bb%d L%d' % (i, opstr(t['cond'], b), t['expected'], t['kind'], ', '.join(opstr(a, b) for a in t['ops']), t['target'], t['line']))
        elif t['t'] in ('goto', 'drop'):
            print('  bb%d  %s -> bb%d' % (i, t['t'] + (' ' + place_str(t['p']) if t['t'] == 'drop' else ''), t['target']))
        else:
            print('  bb%d  %s' % (i, t['t']))
if __name__ == '__main__':
    cfg = os.environ.get('CFG', 'default+bzip2')
    p, _ = F.build_facts(cfg)
    f = Facts(p)
    for rx in sys.argv[1:]:
        for b in f.find(rx=rx):
            show(b, locals_=not os.environ.get('NOLOCALS'))
