#!/usr/bin/env python3
"""usage: seed_import.py <worktree seed dir> <property id> <suffix-prefix>   e.g. /tmp/wt2/C05/seed C05 R2 -> seeded/C05-R2A ..."""
import json, os, shutil, sys
HERE = os.path.dirname(os.path.dirname(os.path.abspath(__file__)))
src, pid, pre = sys.argv[1:4]
m = json.load(open(os.path.join(src, "meta.json")))
for v in "abcdef":
    pf = os.path.join(src, "%s_patch.diff" % v)
    if not os.path.exists(pf):
        continue
    d = os.path.join(HERE, "seeded", "%s-%s%s" % (pid, pre, v.upper()))
    os.makedirs(d, exist_ok=True)
    shutil.copy(pf, os.path.join(d, "patch.diff"))
    shutil.copy(os.path.join(src, "%s_demo.rs" % v), os.path.join(d, "demo.rs"))
    x = dict(m.get(v, {}))
    x.update(property=pid, variant=pre + v.upper(), origin="independent sub-agent given only the property text (round %s)" % pre)
    json.dump(x, open(os.path.join(d, "meta.json"), "w"), indent=1)
    print(d, open(os.path.join(d, "demo.rs")).readline().strip())
