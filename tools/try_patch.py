#!/usr/bin/env python3
"""usage: try_patch.py <patch relative to /verif/mutants or absolute> [Cxx ...]  - rules on a scratch copy, findings with messages"""
import os, sys, json, shutil, subprocess, importlib
HERE = os.path.dirname(os.path.dirname(os.path.abspath(__file__)))
sys.path.insert(0, os.path.join(HERE, "rules")); sys.path.insert(0, os.path.join(HERE, "tools"))
import facts as factsmod
from engine import Facts, AnchorLost
from framework import Report, load_known
import selftest

def main():
    patch = sys.argv[1]
    if not os.path.isabs(patch):
        patch = os.path.join(HERE, "mutants", patch)
    props = sys.argv[2:] or selftest.ALL
    fixture = Facts(factsmod.build_fixture_facts())
    d = selftest.scratch_copy()
    try:
        r = subprocess.run(["git", "apply", "--unsafe-paths", "--directory", d, patch], cwd="/", capture_output=True, text=True)
        if r.returncode != 0:
            print("patch does not apply:", r.stderr[-300:]); return
        try:
            fact, info = factsmod.build_facts("default+bzip2", repo=d, cache=os.path.join(HERE, ".cache"), scratch=True)
        except factsmod.InfraError as e:
            print("does not compile:", str(e)[-800:]); return
        f = Facts(fact)
        if f.inlined:
            print("inlined:", {k: v for k, v in f.inlined.items()})
        known = {k["key"] for k in load_known().get("known", [])}
        for p in props:
            mod = importlib.import_module(p.lower())
            rep = Report(p, "thorough")
            try:
                mod.run(f, fixture, rep, "default+bzip2", "thorough")
            except AnchorLost as e:
                rep.finding("anchor", "anchor-lost|%s" % e, str(e))
            except Exception as e:
                import traceback; traceback.print_exc()
                rep.finding("anchor", "checker-error|%s" % type(e).__name__, "%s: %s" % (type(e).__name__, e))
            fs = [fd for fd in rep.findings if fd["key"] not in known]
            print("%s: %d findings" % (p, len(fs)))
            for fd in fs:
                print("   ", fd["key"]); print("       ", fd["msg"][:int(os.environ.get("W", "400"))], "@", fd["loc"])
    finally:
        shutil.rmtree(d, ignore_errors=True)

main()
