#!/usr/bin/env python3
"""usage: patched_facts.py <patch>  -> prints the path of the facts file of /repo + patch (built on a scratch copy, cached by tree hash)"""
import os, sys, shutil, subprocess
HERE = os.path.dirname(os.path.dirname(os.path.abspath(__file__)))
sys.path.insert(0, os.path.join(HERE, "rules")); sys.path.insert(0, os.path.join(HERE, "tools"))
import facts as factsmod, selftest
patch = sys.argv[1]
if not os.path.isabs(patch):
    patch = os.path.join(HERE, "mutants", patch)
d = selftest.scratch_copy()
try:
    r = subprocess.run(["git", "apply", "--unsafe-paths", "--directory", d, patch], cwd="/", capture_output=True, text=True)
    assert r.returncode == 0, r.stderr
    fact, info = factsmod.build_facts("default+bzip2", repo=d, cache=os.path.join(HERE, ".cache"), scratch=True)
    print(fact)
finally:
    shutil.rmtree(d, ignore_errors=True)
