#!/usr/bin/env python3
"""Rewrite the first-contact table and the totals of DESIGN.md §6 from seeded/*/meta.json and evaluation.json."""
import json, glob, os, re
HERE = os.path.dirname(os.path.dirname(os.path.abspath(__file__)))
rows = []
for d in sorted(glob.glob(os.path.join(HERE, "seeded", "*", ""))):
    if os.path.exists(d + "meta.json") and os.path.exists(d + "evaluation.json"):
        rows.append((os.path.basename(d.rstrip("/")), json.load(open(d + "meta.json")), json.load(open(d + "evaluation.json"))))
def own_first(m):
    return m.get("first_result_own_property") is True or (m.get("first_result_own_property") is None and not str(m.get("first_result", "")).startswith("MISSED"))
def any_first(m):
    fr = str(m.get("first_result", ""))
    return not (fr.startswith("missed") or fr.startswith("MISSED"))
def rnd(sid):
    m = re.search(r"-R(\d)", sid)
    return int(m.group(1)) if m else 1
st = {}
for sid, m, e in rows:
    s = st.setdefault(rnd(sid), [0, 0, 0]); s[0] += 1; s[1] += own_first(m); s[2] += any_first(m)
n = len(rows)
own_now = sum(1 for sid, m, e in rows if (m.get("property") or sid[:3]) in e["caught_by"])
any_now = sum(1 for sid, m, e in rows if e["caught_by"])
not_own = [sid for sid, m, e in rows if (m.get("property") or sid[:3]) not in e["caught_by"]]
missed_ids = [sid for sid, m, e in rows if not own_first(m)]
table = "| round | changes | reported by the property's own check | reported by some check |\n|---|---|---|---|\n" + \
    "".join("| %d | %d | %d | %d |\n" % (r, st[r][0], st[r][1], st[r][2]) for r in sorted(st))
p = os.path.join(HERE, "DESIGN.md")
s = open(p).read()
i = s.index("| round | changes |")
j = s.index("\n\n", i)
s = s[:i] + table.rstrip("\n") + s[j:]
s = re.sub(r"holds \d+ breaking changes", "holds %d breaking changes" % n, s)
s = re.sub(r"confirmed for all \d+;", "confirmed for all %d;" % n, s)
s = re.sub(r"Today \d+ of the \d+ are reported by their own property's check and (all )?\d+ by some check", "Today %d of the %d are reported by their own property's check and %s by some check" % (own_now, n, "all %d" % n if any_now == n else str(any_now)), s)
k = s.index("Every miss was turned into a rule")
k2 = s.index(":\n", k) + 2
k3 = s.index(".\n", k2)
s = s[:k2] + ", ".join(missed_ids) + s[k3:]
open(p, "w").write(s)
print(st, "own now", own_now, "of", n, "not own:", not_own)
